//! Compile-time side of C13: for every line of specs/manifest.txt
//!   `<i> <yacckind> <recoverer> <serialisation> <edition> <visibility> <lexedition> <lexvisibility>`
//! run CTLexerBuilder + CTParserBuilder on specs/p<i>.y / specs/p<i>.l with those settings, writing
//! $OUT_DIR/p<i>.y.rs and $OUT_DIR/p<i>.l.rs (modules p<i>_y, p<i>_l).
use cfgrammar::yacc::{YaccKind, YaccOriginalActionKind};
use lrlex::CTLexerBuilder;
use lrpar::{RecoveryKind, SerialisationFormat};
use std::path::PathBuf;

fn main() -> Result<(), Box<dyn std::error::Error>> {
    let out_dir = PathBuf::from(std::env::var("OUT_DIR").unwrap());
    let root = PathBuf::from(std::env::var("CARGO_MANIFEST_DIR").unwrap());
    println!("cargo::rerun-if-changed=specs");
    let manifest = std::fs::read_to_string(root.join("specs/manifest.txt"))?;
    for line in manifest.lines() {
        let f: Vec<&str> = line.split_whitespace().collect();
        if f.len() < 8 {
            continue;
        }
        let i = f[0];
        let yk = match f[1] {
            "grmtools" => YaccKind::Grmtools,
            "useraction" => YaccKind::Original(YaccOriginalActionKind::UserAction),
            "generic" => YaccKind::Original(YaccOriginalActionKind::GenericParseTree),
            "noaction" => YaccKind::Original(YaccOriginalActionKind::NoAction),
            x => panic!("yacckind {}", x),
        };
        let rk = match f[2] {
            "cpctplus" => Some(RecoveryKind::CPCTPlus),
            "none" => Some(RecoveryKind::None),
            "default" => None,
            x => panic!("recoverer {}", x),
        };
        let sf = match f[3] {
            "fixed" => Some(SerialisationFormat::FixedSizeInteger),
            "var" => Some(SerialisationFormat::VariableSizedInteger),
            "default" => None,
            x => panic!("serialisation {}", x),
        };
        let ed = match f[4] {
            "2015" => lrpar::RustEdition::Rust2015,
            "2018" => lrpar::RustEdition::Rust2018,
            "2021" => lrpar::RustEdition::Rust2021,
            x => panic!("edition {}", x),
        };
        let vis = match f[5] {
            "private" => lrpar::Visibility::Private,
            "pub" => lrpar::Visibility::Public,
            "super" => lrpar::Visibility::PublicSuper,
            "self" => lrpar::Visibility::PublicSelf,
            "crate" => lrpar::Visibility::PublicCrate,
            x if x.starts_with("in:") => lrpar::Visibility::PublicIn(x[3..].to_string()),
            x => panic!("visibility {}", x),
        };
        let led = match f[6] {
            "2015" => lrlex::RustEdition::Rust2015,
            "2018" => lrlex::RustEdition::Rust2018,
            "2021" => lrlex::RustEdition::Rust2021,
            x => panic!("edition {}", x),
        };
        let lvis = match f[7] {
            "private" => lrlex::Visibility::Private,
            "pub" => lrlex::Visibility::Public,
            "super" => lrlex::Visibility::PublicSuper,
            "self" => lrlex::Visibility::PublicSelf,
            "crate" => lrlex::Visibility::PublicCrate,
            x if x.starts_with("in:") => lrlex::Visibility::PublicIn(x[3..].to_string()),
            x => panic!("visibility {}", x),
        };
        let yp = root.join(format!("specs/p{}.y", i));
        let lp = root.join(format!("specs/p{}.l", i));
        let yout = out_dir.join(format!("p{}.y.rs", i));
        let lout = out_dir.join(format!("p{}.l.rs", i));
        CTLexerBuilder::new()
            .rust_edition(led)
            .visibility(lvis)
            .lrpar_config(move |ctp| {
                let mut ctp = ctp
                    .yacckind(yk)
                    .rust_edition(ed)
                    .visibility(vis.clone())
                    .error_on_conflicts(false)
                    .warnings_are_errors(false)
                    .show_warnings(false)
                    .grammar_path(&yp)
                    .output_path(&yout);
                if let Some(rk) = rk {
                    ctp = ctp.recoverer(rk);
                }
                if let Some(sf) = sf {
                    ctp = ctp.serialisation_format(sf);
                }
                ctp
            })
            .lexer_path(&lp)
            .output_path(&lout)
            .allow_missing_terms_in_lexer(true)
            .allow_missing_tokens_in_parser(true)
            .show_warnings(false)
            .build()
            .map_err(|e| format!("pair {}: {}", i, e))?;
    }
    Ok(())
}
