//! Canonical text form of lexing/parsing results. This ONE file is compiled into the ctgen crate (which
//! prints what the compile-time generated code computes) and into the harness (which prints what the
//! run-time pipeline computes from the same sources), so that the two outputs are comparable line by
//! line. It also defines the tree type `T` that generated action code builds.
#![allow(dead_code)]
#![allow(deprecated)]
use cfgrammar::{Span, TIdx};
use lrlex::{DefaultLexeme, DefaultLexerTypes};
use lrpar::{LexError, LexParseError, Lexeme, Node, NonStreamingLexer, ParseRepair};
use std::fmt::Write;

pub type LT = DefaultLexerTypes<u32>;
pub type Lx = DefaultLexeme<u32>;

/// what action code (compile time: generated from the `.y` text; run time: the harness's closures)
/// builds: a node per reduction recording the production, the `$span` it saw, its `$k` in order and
/// a tag string that went through `$$`; a leaf per `$k` that is a token, recording whether the action
/// received `Ok` (lexeme of the input) or `Err` (lexeme inserted by recovery) and, through `$lexer`,
/// its text.
#[derive(Debug, Clone)]
pub enum T {
    N { p: usize, s: usize, e: usize, tag: String, kids: Vec<T> },
    L { ok: bool, tok: u32, s: usize, e: usize, text: String },
}

/// used by generated action code: `lf($lexer, $k)`
pub fn lf<'a>(lexer: &dyn NonStreamingLexer<'a, LT>, r: Result<Lx, Lx>) -> T {
    let (ok, l) = match r {
        Ok(l) => (true, l),
        Err(l) => (false, l),
    };
    T::L { ok, tok: l.tok_id(), s: l.span().start(), e: l.span().end(), text: lexer.span_str(l.span()).to_string() }
}

/// used by generated action code: `nd(p, $span, "tag", vec![…])`
pub fn nd(p: usize, span: Span, tag: &str, kids: Vec<T>) -> T {
    T::N { p, s: span.start(), e: span.end(), tag: tag.to_string(), kids }
}

/// a hand-written lexer over the same text: the lexemes the real lexer found, every third one cut to
/// length zero — a REAL (not faulty) lexeme that covers no input, as an indentation-tracking lexer
/// emits them. Action code must still receive it as `Ok`. `None` if the text does not lex.
pub fn zero_width_variant<'a>(lexer: &dyn NonStreamingLexer<'a, LT>, inp: &'a str) -> Option<lrlex::LRNonStreamingLexer<'a, 'a, LT>> {
    let mut ls = Vec::new();
    for (i, r) in lexer.iter().enumerate() {
        match r {
            Ok(l) => ls.push(Ok(if i % 3 == 1 { Lx::new(l.tok_id(), l.span().start(), 0) } else { l })),
            Err(_) => return None,
        }
    }
    if ls.len() < 2 {
        return None;
    }
    let mut nc = cfgrammar::NewlineCache::new();
    nc.feed(inp);
    Some(lrlex::LRNonStreamingLexer::new(inp, ls, nc))
}

pub fn fmt_t(t: &T, o: &mut String) {
    match t {
        T::N { p, s, e, tag, kids } => {
            write!(o, "N({},{},{},{:?},[", p, s, e, tag).unwrap();
            for (i, k) in kids.iter().enumerate() {
                if i > 0 {
                    o.push(',');
                }
                fmt_t(k, o);
            }
            o.push_str("])");
        }
        T::L { ok, tok, s, e, text } => {
            write!(o, "{}({},{},{},{:?})", if *ok { "Ok" } else { "Err" }, tok, s, e, text).unwrap();
        }
    }
}

pub fn fmt_lexeme(l: &Lx) -> String {
    format!("{}:{}:{}{}", l.tok_id(), l.span().start(), l.span().len(), if l.faulty() { ":F" } else { "" })
}

pub fn fmt_node(n: &Node<Lx, u32>, o: &mut String) {
    match n {
        Node::Term { lexeme } => {
            write!(o, "t({})", fmt_lexeme(lexeme)).unwrap();
        }
        Node::Nonterm { ridx, nodes } => {
            write!(o, "n({},[", usize::from(*ridx)).unwrap();
            for (i, k) in nodes.iter().enumerate() {
                if i > 0 {
                    o.push(',');
                }
                fmt_node(k, o);
            }
            o.push_str("])");
        }
    }
}

/// `lex …` line: every lexeme (token id, start, length, faulty) with its `%epp` name, or the lexing error
pub fn lex_line<'a>(lexer: &dyn NonStreamingLexer<'a, LT>, epp: &dyn Fn(TIdx<u32>) -> Option<String>) -> String {
    let mut o = String::from("lex");
    for r in lexer.iter() {
        match r {
            Ok(l) => {
                let name = std::panic::catch_unwind(std::panic::AssertUnwindSafe(|| epp(TIdx(l.tok_id()))));
                let name = match name {
                    Ok(Some(s)) => format!("{:?}", s),
                    Ok(None) => "-".to_string(),
                    Err(_) => "!".to_string(),
                };
                write!(o, " {}={}", fmt_lexeme(&l), name).unwrap();
            }
            Err(e) => {
                write!(o, " LEXERR:{}:{}", e.span().start(), e.span().len()).unwrap();
            }
        }
    }
    o
}

/// `err …` lines: one per error, in the order reported, each with its repair sequences in the order reported
pub fn err_lines(errs: &[LexParseError<u32, LT>]) -> Vec<String> {
    let mut v = Vec::new();
    for e in errs {
        match e {
            LexParseError::LexError(e) => v.push(format!("err lex {}:{}", e.span().start(), e.span().len())),
            LexParseError::ParseError(pe) => {
                let seqs: Vec<String> = pe
                    .repairs()
                    .iter()
                    .map(|seq| {
                        let parts: Vec<String> = seq
                            .iter()
                            .map(|r| match r {
                                ParseRepair::Insert(t) => format!("I{}", usize::from(*t)),
                                ParseRepair::Delete(l) => format!("D{}", fmt_lexeme(l)),
                                ParseRepair::Shift(l) => format!("S{}", fmt_lexeme(l)),
                            })
                            .collect();
                        parts.join(",")
                    })
                    .collect();
                // in the order reported: since the order of equally ranked sequences was made reproducible
                // (deterministic hasher in simplify_repairs) it is a function of grammar and input, so the
                // generated and the run-time parser must agree on it — and on which sequence is applied
                v.push(format!("err parse at {} set [{}]", fmt_lexeme(pe.lexeme()), seqs.join(" | ")));
            }
        }
    }
    v
}

pub fn value_line_t(v: &Option<T>) -> String {
    match v {
        None => "val none".to_string(),
        Some(t) => {
            let mut o = String::from("val ");
            fmt_t(t, &mut o);
            o
        }
    }
}

pub fn value_line_node(v: &Option<Node<Lx, u32>>) -> String {
    match v {
        None => "val none".to_string(),
        Some(t) => {
            let mut o = String::from("val ");
            fmt_node(t, &mut o);
            o
        }
    }
}
