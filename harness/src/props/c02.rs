//! C02: grammars that are LR(1) (decided by the Lean side's certified canonical construction) must
//! get a conflict-free Pager automaton with no more states, and the real parser must return the
//! canonical parser's tree or first-error position on every input.
use crate::gen::automaton::dump_automaton;
use crate::gen::grammar::{self, GenCfg};
use crate::gen::parse::{lr_terminates, parse_actions};
use crate::gen::sentences::inputs_for;
use crate::out::{guarded, plist, Out};
use crate::rng::Rng;
use crate::Args;
use lrpar::RecoveryKind;
use lrtable::{from_yacc, Minimiser};

/// LR(1)-but-not-LALR(1) families and grammars whose merges are discovered late
fn families(rng: &mut Rng) -> String {
    let pick = rng.below(15);
    match pick {
        6 | 7 => grammar::general_contexts(rng),
        8 => grammar::nullable_sandwich_family(rng),
        9..=11 => grammar::nullable_tail_family(rng),
        12..=14 => grammar::cascade_family(rng),
        0 => {
            // S: a A d | b B d | a B e | b A e; A: c; B: c  generalised to k contexts
            let k = rng.range(2, 4);
            let mut alts = Vec::new();
            for i in 0..k {
                for j in 0..2 {
                    // context i uses A with terminator (i + j) % 2 … a Latin-square style assignment
                    let x = if (i + j) % 2 == 0 { "A" } else { "B" };
                    alts.push(format!("'p{}' {} 'q{}'", i, x, j));
                }
            }
            format!("%start S\n%%\nS: {};\nA: 'c';\nB: 'c';\n", alts.join(" | "))
        }
        1 => "%start S\n%%\nS: 'a' A 'd' | 'b' B 'd' | 'a' B 'e' | 'b' A 'e';\nA: 'c' A | 'c';\nB: 'c' B | 'c';\n".to_string(),
        2 => "%start S\n%%\nS: 'a' X 'd' | 'b' Y 'd' | 'a' Y 'e' | 'b' X 'e';\nX: P;\nY: Q;\nP: 'c' | 'c' P;\nQ: 'c' | 'c' Q;\n".to_string(),
        3 => {
            // Pager's example-like: merging discovered after successors exist
            "%start X\n%%\nX: 'a' Y 'd' | 'a' Z 'c' | 'a' T | 'b' Y 'e' | 'b' Z 'd' | 'b' T;\nY: 't' W | 'u' X;\nZ: 't' 'u';\nT: 'u' X 'a';\nW: 'u' V;\nV: ;\n".to_string()
        }
        4 => "%start S\n%%\nS: A 'a' | 'b' A 'c' | B 'c' | 'b' B 'a';\nA: 'd';\nB: 'd';\n".to_string(),
        _ => {
            // expression grammar layers (LALR, many merges of same-core states)
            let n = rng.range(1, 3);
            let mut s = String::from("%start E0\n%%\n");
            for i in 0..n {
                s.push_str(&format!("E{}: E{} 'o{}' E{} | E{};\n", i, i, i, i + 1, i + 1));
            }
            s.push_str(&format!("E{}: '(' E0 ')' | 'n';\n", n));
            s
        }
    }
}

pub fn emit(out: &mut Out, text: &str, rng: &mut Rng, thorough: bool, kind: &str) {
    if std::env::var("DBG_G").is_ok() { eprintln!("GRAMMAR {} {}", kind, text.replace('\n', " ")); }
    let g = match grammar::build(text) {
        Ok(g) => g,
        Err(_) => {
            out.count("rejected_grammars");
            return;
        }
    };
    #[cfg(grmtools_verif)]
    let _ = lrtable::take_pager_trace();
    let (sg, st) = match from_yacc(&g, Minimiser::Pager) {
        Ok(x) => x,
        Err(_) => {
            out.count("accept_reduce_conflict_grammars");
            return;
        }
    };
    // what `pager_stategraph` iterated over and had built before `gc` (hook, cfg(grmtools_verif))
    #[cfg(grmtools_verif)]
    let trace = lrtable::take_pager_trace();
    if usize::from(g.prods_len()) > 160 || usize::from(sg.all_states_len()) > 120 {
        out.count("too_big_skipped");
        return;
    }
    let id = out.id();
    let mut inputs = inputs_for(&g, rng, thorough);
    inputs.retain(|w| w.len() <= 12);
    inputs.truncate(if thorough { 400 } else { 120 });
    let mut ilines = Vec::new();
    let mut accepted = Vec::new();
    let mut hfail: Option<String> = None;
    for (k, w) in inputs.iter().enumerate() {
        if !lr_terminates(&g, &st, w, 400 * (w.len() + 2)) {
            ilines.push(format!("{} div", k));
            accepted.push(2);
            continue;
        }
        match guarded(std::panic::AssertUnwindSafe(|| parse_actions(&g, &st, w, RecoveryKind::None, None))) {
            Err(e) => {
                ilines.push(format!("{} panic", k));
                accepted.push(0);
                hfail.get_or_insert(format!("parser panicked on {:?}: {}", w, e));
            }
            Ok(po) => match (&po.tree, po.errors.first()) {
                (Some(t), None) => {
                    ilines.push(format!("{} acc {}", k, t.to_text()));
                    accepted.push(1);
                }
                (None, Some(e)) => {
                    ilines.push(format!("{} err {}", k, e.laidx(w.len())));
                    accepted.push(0);
                }
                _ => {
                    ilines.push(format!("{} odd", k));
                    accepted.push(0);
                }
            },
        }
    }
    let mut payload = format!("{} {} {}", grammar::dump_grammar(&g), dump_automaton(&g, &sg, &st), inputs.len());
    for w in &inputs {
        payload.push(' ');
        payload.push_str(&plist(w));
    }
    payload.push(' ');
    payload.push_str(&crate::out::join(&accepted));
    #[cfg(grmtools_verif)]
    {
        payload.push(' ');
        payload.push_str(&pager_tie::request_part(&trace));
    }
    out.case("C02", id, &payload);
    #[cfg(grmtools_verif)]
    pager_tie::impl_lines(out, id, &trace, &sg);
    for l in ilines {
        out.imp(id, "I", &l);
    }
    match hfail {
        None => out.imp(id, "H", "ok"),
        Some(e) => out.imp(id, "H", &format!("fail {}", e)),
    }
    let desc = format!("grammar=[{}] inputs={}", text.replace('\n', " ").trim(), inputs.len());
    out.imp(id, "D", &desc);
    out.imp(id, "G", &text.replace('\n', "\\n"));
    out.count(&format!("kind.{}", kind));
    out.count(if st.conflicts().is_some() { "impl_reports_conflicts" } else { "impl_conflict_free" });
    out.add("inputs", inputs.len() as u64);
    if out.next_id % 23 == 1 {
        out.sample(desc);
    }
}

pub fn run(a: &Args) {
    let mut out = Out::new(&a.out);
    if let Some(rp) = &a.replay {
        let txt = std::fs::read_to_string(rp).unwrap_or_default();
        let mut rng = Rng::for_case(a.seed, 2, 0);
        for line in txt.lines() {
            if let Some(rest) = line.strip_prefix("# G ") {
                emit(&mut out, &rest.replace("\\n", "\n"), &mut rng, a.thorough, "replay");
            }
        }
        out.finish(&a.out);
        return;
    }
    if a.shard == 0 {
        let mut rng = Rng::for_case(a.seed, 2, 0);
        for t in grammar::classics() {
            emit(&mut out, t, &mut rng, a.thorough, "classic");
        }
    }
    if a.shard == 1 % a.shards {
        let mut rng = Rng::for_case(a.seed, 2, 0);
        // 10/24 members: whether a member's orphaned chain appears depends on the hash order of its items,
        // and the pager tie wants states collected by `gc` in every run
        for _ in 0..(if a.thorough { 24 } else { 10 }) {
            let t = grammar::pager_orphan_family(&mut rng);
            emit(&mut out, &t, &mut rng, a.thorough, "pager_orphan_family");
        }
    }
    let n = if a.thorough { 4000 } else { 320 };
    for case in 0..n {
        if case % a.shards != a.shard {
            continue;
        }
        let mut rng = Rng::for_case(a.seed, 2, case as u64 + 1);
        if case % 4 == 0 {
            let t = families(&mut rng);
            if case % 16 == 4 {
                // the same families with 64..70 unused tokens declared first, so that every lookahead the
                // grammar really uses has an index beyond the first storage word of a lookahead set
                let k = 64 + rng.below(7);
                let ks: Vec<String> = (0..k).map(|i| format!("K{}", i)).collect();
                let t2 = t.replacen("%%\n", &format!("%token {}\n%%\n", ks.join(" ")), 1);
                emit(&mut out, &t2, &mut rng, a.thorough, "lr1_family_many_tokens");
                continue;
            }
            emit(&mut out, &t, &mut rng, a.thorough, "lr1_family");
        } else {
            let cfg = GenCfg { precs: false, max_rules: 5, ..GenCfg::default() };
            if case % 4 == 2 {
                let g = grammar::layered_grammar(&mut rng);
                emit(&mut out, &g.render(), &mut rng, a.thorough, "layered");
                continue;
            }
            let g = grammar::random_grammar(&mut rng, &cfg);
            emit(&mut out, &g.render(), &mut rng, a.thorough, "random");
        }
    }
    out.finish(&a.out);
}

/// Tie of `lean/GrmVerif/Model/PagerImpl.lean` with `pager_stategraph`: the hook's trace gives the model
/// the hash-map iteration orders (request) and the real intermediate and final results (`Ig` lines).
#[cfg(grmtools_verif)]
mod pager_tie {
    use crate::out::Out;
    use lrtable::{PagerTrace, StateGraph};

    /// `maxStates niters (ncore (p d)* nclosed (p d)*)*`
    pub fn request_part(t: &PagerTrace) -> String {
        let mut v: Vec<usize> = vec![u32::MAX as usize, t.iters.len()];
        for (_, core_keys, closed_keys, _) in &t.iters {
            for ks in [core_keys, closed_keys] {
                v.push(ks.len());
                for (p, d) in ks {
                    v.push(*p);
                    v.push(*d);
                }
            }
        }
        crate::out::join(&v)
    }

    fn items_str(is: &[(usize, usize, Vec<usize>)]) -> String {
        let mut is: Vec<_> = is.to_vec();
        is.sort();
        is.iter()
            .map(|(p, d, la)| {
                let mut la = la.clone();
                la.sort();
                format!("{}.{}:{}", p, d, la.iter().map(|x| x.to_string()).collect::<Vec<_>>().join("."))
            })
            .collect::<Vec<_>>()
            .join(",")
    }

    fn edges_str(es: &[(usize, usize)]) -> String {
        let mut es: Vec<_> = es.to_vec();
        es.sort();
        es.iter().map(|(s, t)| format!("{}>{}", s, t)).collect::<Vec<_>>().join(",")
    }

    fn state_str(core: &[(usize, usize, Vec<usize>)], closed: &[(usize, usize, Vec<usize>)], es: &[(usize, usize)]) -> String {
        format!("core{{{}}}closed{{{}}}edges{{{}}}", items_str(core), items_str(closed), edges_str(es))
    }

    fn dump_items<S>(is: &std::collections::HashMap<(cfgrammar::PIdx<u32>, cfgrammar::SIdx<u32>), vob::Vob, S>) -> Vec<(usize, usize, Vec<usize>)> {
        is.iter().map(|((p, d), ctx)| (usize::from(*p), usize::from(*d), ctx.iter_set_bits(..).collect())).collect()
    }

    pub fn impl_lines(out: &mut Out, id: u64, t: &PagerTrace, sg: &StateGraph<u32>) {
        let seq: Vec<String> = t
            .iters
            .iter()
            .map(|(i, _, _, syms)| format!("{}:{}", i, syms.iter().map(|x| x.to_string()).collect::<Vec<_>>().join(",")))
            .collect();
        out.imp(id, "Ig", &format!("seq {}", seq.join(" ")));
        let n = t.core_states.len();
        let pre: Vec<String> = (0..n).map(|s| state_str(&t.core_states[s], &t.closed_states[s], &t.edges[s])).collect();
        out.imp(id, "Ig", &format!("pre n={} {}", n, pre.join(" ")));
        let m = usize::from(sg.all_states_len());
        let post: Vec<String> = sg
            .iter_stidxs()
            .map(|s| {
                let es: Vec<(usize, usize)> = sg.edges(s).iter().map(|(sym, t)| (crate::gen::grammar::enc_sym(sym), usize::from(*t))).collect();
                state_str(&dump_items(&sg.core_state(s).items), &dump_items(&sg.closed_state(s).items), &es)
            })
            .collect();
        out.imp(id, "Ig", &format!("post n={} {}", m, post.join(" ")));
        let reopened = t.iters.len().saturating_sub(n);
        out.count("pager.grammars");
        out.add("pager.iterations", t.iters.len() as u64);
        out.add("pager.pre_gc_states", n as u64);
        out.add("pager.final_states", m as u64);
        out.add("pager.reopened_states", reopened as u64);
        out.add("pager.states_collected_by_gc", (n - m) as u64);
        if reopened > 0 {
            out.count("pager.grammars_with_reopened_states");
        }
        if n > m {
            out.count("pager.grammars_with_gc");
        }
    }
}
