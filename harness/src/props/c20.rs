//! C20: results are independent of the index storage width; too-small widths are refused cleanly.
//!
//! Grammars are generated TEXTUALLY (boundary families with rule/token/production/symbol/state
//! counts around 255 and 65535, and random small grammars), then built with
//! `YaccGrammar::<u8|u16|u32>::new_with_storaget`, `lrtable::from_yacc`, `lrpar::RTParserBuilder`
//! and (where cheap enough) `lrlex::LRNonStreamingLexerDef`.  Every construction runs under
//! `catch_unwind`: a panic at construction is a *refusal* (message recorded).
//!
//! Request (naturals only; the generator descriptor comes first so a replay regenerates the text):
//!   kind 0:  `0 fam p0..p7  eco hasImpl k nrules ntokens  nruns (cnt nsyms ntoksyms)*  stages nstates terr  acc8 acc16 acc32`
//!   kind 1:  `1 nlexrules  acc8 acc16 acc32`                       (lexer token-id capacity)
//!   kind 2:  `2`                                                   (source guard shapes vs model)
//! `nstates`/`terr` are the widest build's (u32) state count / StateTableError flag; `accW` is how many
//! stages width W accepted (0 grammar refused, 1 grammar only, 2 +stategraph, 3 +table).
//! `I` line: per width `wN g:ok rl tl pl eof sp ml sl|g:refused  sg:ok n|sg:refused|sg:-  t:ok|t:err|t:refused|t:-`.
use crate::gen::grammar;
use crate::out::{guarded, Out};
use crate::rng::Rng;
use crate::Args;
use cfgrammar::yacc::{ast::ASTWithValidityInfo, YaccGrammar, YaccKind, YaccOriginalActionKind};
use cfgrammar::Symbol;
use lrlex::{DefaultLexeme, DefaultLexerTypes, LRNonStreamingLexer, LRNonStreamingLexerDef, LexerDef};
use lrpar::{LexParseError, Lexeme, ParseRepair, RTParserBuilder, RecoveryKind};
use lrtable::{from_yacc, Action, Minimiser, StIdx, StateGraph, StateTable};
use num_traits::{AsPrimitive, PrimInt, Unsigned};
use std::collections::{BTreeSet, HashMap, VecDeque};
use std::fmt::Debug;
use std::hash::Hash;
use std::panic::AssertUnwindSafe;
use std::str::FromStr;

// ------------------------------------------------------------------------------------------------
// digests

#[derive(Clone, Copy)]
struct Fnv(u64);
impl Fnv {
    fn new() -> Self {
        Fnv(0xcbf2_9ce4_8422_2325)
    }
    fn byte(&mut self, b: u8) {
        self.0 ^= b as u64;
        self.0 = self.0.wrapping_mul(0x0000_0100_0000_01b3);
    }
    fn num(&mut self, n: usize) {
        for b in (n as u64).to_le_bytes() {
            self.byte(b);
        }
    }
    fn text(&mut self, s: &str) {
        self.num(s.len());
        for b in s.bytes() {
            self.byte(b);
        }
    }
}

// ------------------------------------------------------------------------------------------------
// generator descriptors and grammar texts

#[derive(Clone, Debug, PartialEq)]
struct Desc {
    fam: u64,
    p: [u64; 8],
}

/// what the generator knows about the text it wrote (the *source* counts of the property)
#[derive(Clone, Debug, Default)]
struct Src {
    eco: bool,
    has_impl: bool,
    k: usize,
    nrules: usize,
    ntokens: usize,
    /// run-length encoded (count, symbols, symbols that are tokens) per production, in source order
    prods: Vec<(usize, usize, usize)>,
}

impl Src {
    fn nprods(&self) -> usize {
        self.prods.iter().map(|r| r.0).sum()
    }
    fn maxsyms(&self) -> usize {
        self.prods.iter().map(|r| r.1).max().unwrap_or(0)
    }
    fn push_prod(&mut self, nsyms: usize, ntoks: usize) {
        if let Some(l) = self.prods.last_mut() {
            if l.1 == nsyms && l.2 == ntoks {
                l.0 += 1;
                return;
            }
        }
        self.prods.push((1, nsyms, ntoks));
    }
}

struct Gen {
    yk: YaccKind,
    text: String,
    src: Src,
    /// token-name inputs to parse (each a list of token names)
    inputs: Vec<Vec<String>>,
    /// all user token names (for the generated `.l` file)
    token_names: Vec<String>,
    /// false: the grammar has hidden left recursion, on which the LR driver need not terminate at
    /// any width (C07's subject); tables are still compared, parses are skipped
    parse_ok: bool,
}

const FAM_LAYOUT: u64 = 0;
const FAM_RANDOM: u64 = 1;
const FAM_TWOLONG: u64 = 2;
const FAM_CONTEXTS: u64 = 3;

/// Merge-context family (C02's `general_contexts`, and for case 0 a fixed LR(1)-but-not-LALR grammar
/// with three kernel items per merged state): which same-core states Pager's construction merges is
/// decided by iterating hash maps keyed by (production, dot) in `StorageT` — the decision, and so the
/// table, must not depend on the width. p = [seed, case]
fn gen_contexts(p: &[u64; 8]) -> Gen {
    let mut rng = Rng::for_case(p[0], 2021, p[1]);
    let text = if p[1] == 0 {
        "%start X\n%%\nX: 'a' Y 'd' | 'a' Z 'c' | 'a' Q 'f' | 'b' Y 'e' | 'b' Z 'd' | 'b' Q 'g';\nY: 't';\nQ: 't';\nZ: 't';\n".to_string()
    } else if p[1] == 1 {
        // six equally good single-token repairs for `a c`: which one is reported first, and applied, must
        // not depend on the width either
        "%start S\n%%\nS: 'a' B 'c';\nB: 'p' | 'q' | 'r' | 's' | 't' | 'u';\n".to_string()
    } else if p[1] == 2 {
        // 300 reachable productions: indices beyond 255 take part in the item sets of a u16 and a u32 build
        let alts: Vec<String> = (0..300).map(|i| format!("'t{}'", i)).collect();
        format!("%start S\n%%\nS: {};\n", alts.join(" | "))
    } else if p[1] == 5 {
        // 2^11 equally good repair sequences for `x y` (eleven independent choices): whatever is reported,
        // and in which order, must not depend on the width (recovery is on for this case)
        format!("%start S\n%%\nS: 'x' {} 'y';\nT: 'a' | 'b';\n", vec!["T"; 11].join(" "))
    } else {
        grammar::general_contexts(&mut rng)
    };
    // source facts and sentences from the text: `Name: sym … | sym … ;` per rule
    let body = text.split("%%\n").nth(1).unwrap_or("");
    let mut src = Src::default();
    let mut toks: Vec<String> = Vec::new();
    let mut rules: Vec<(String, Vec<Vec<String>>)> = Vec::new();
    for def in body.split(';') {
        let def = def.trim();
        if def.is_empty() {
            continue;
        }
        let mut it = def.splitn(2, ':');
        let name = it.next().unwrap().trim().to_string();
        let alts: Vec<Vec<String>> = it.next().unwrap_or("").split('|').map(|a| a.split_whitespace().map(|x| x.to_string()).collect()).collect();
        for a in &alts {
            let nt = a.iter().filter(|x| x.starts_with('\'')).count();
            for x in a.iter().filter(|x| x.starts_with('\'')) {
                let n = x.trim_matches('\'').to_string();
                if !toks.contains(&n) {
                    toks.push(n);
                }
            }
            src.push_prod(a.len(), nt);
        }
        src.nrules += 1;
        rules.push((name, alts));
    }
    src.ntokens = toks.len();
    // every sentence: an alternative of the start rule with each rule reference replaced by that rule's
    // first alternative (the referenced rules derive one string each, or are the dummies)
    let first_of = |r: &str| -> Vec<String> { rules.iter().find(|(n, _)| n == r).map(|(_, a)| a[0].clone()).unwrap_or_default() };
    let mut inputs: Vec<Vec<String>> = Vec::new();
    for alt in rules[0].1.iter() {
        let mut w: Vec<String> = Vec::new();
        for x in alt {
            if x.starts_with('\'') {
                w.push(x.trim_matches('\'').to_string());
            } else {
                for y in first_of(x) {
                    if y.starts_with('\'') {
                        w.push(y.trim_matches('\'').to_string());
                    } else {
                        for z in first_of(&y) {
                            w.push(z.trim_matches('\'').to_string());
                        }
                    }
                }
            }
        }
        inputs.push(w);
    }
    // and near-sentences: the terminator of one context after the opener of another
    let n = inputs.len();
    for i in 0..n.min(6) {
        let j = (i + 1 + rng.below(n.max(2) - 1)) % n;
        if inputs[i].len() >= 2 && !inputs[j].is_empty() {
            let mut w = inputs[i].clone();
            let l = w.len();
            w[l - 1] = inputs[j].last().unwrap().clone();
            inputs.push(w);
        }
    }
    if p[1] == 1 {
        inputs = vec![vec!["a".to_string(), "c".to_string()], vec!["a".to_string()], vec!["c".to_string()], vec!["a".to_string(), "p".to_string(), "c".to_string()]];
    }
    if p[1] == 5 {
        inputs = vec![vec!["x".to_string(), "y".to_string()], vec!["x".to_string(), "a".to_string(), "b".to_string(), "y".to_string()]];
    }
    inputs.truncate(40);
    Gen { yk: YaccKind::Original(YaccOriginalActionKind::GenericParseTree), text, src, inputs, token_names: toks, parse_ok: true }
}

/// Two long productions of different composition: p = [eco, k implicit tokens, a, b]:
/// `Long: 'l' X…X` (a rule references: long in the source, one token) and `Toks: 't'…'t'` (b tokens:
/// shorter in the source, but under Eco every token is followed by the implicit rule). Both rules are
/// unreachable, so the automaton stays small.
fn gen_twolong(p: &[u64; 8]) -> Gen {
    let eco = p[0] == 1;
    let k = if eco { p[1] as usize } else { 0 };
    let (a, b) = (p[2] as usize, p[3] as usize);
    let mut t = String::from("%start S\n");
    let mut toks: Vec<String> = vec!["s".into(), "x".into(), "l".into(), "t".into()];
    if k > 0 {
        t.push_str("%implicit_tokens");
        for i in 0..k {
            t.push_str(&format!(" I{}", i));
            toks.push(format!("I{}", i));
        }
        t.push('\n');
    }
    t.push_str("%%\nS: 's';\nX: 'x';\nLong: 'l'");
    for _ in 0..a {
        t.push_str(" X");
    }
    t.push_str(";\nToks:");
    for _ in 0..b {
        t.push_str(" 't'");
    }
    t.push_str(";\n");
    let mut src = Src { eco, has_impl: eco && k > 0, k, nrules: 4, ntokens: toks.len(), ..Default::default() };
    src.push_prod(1, 1);
    src.push_prod(1, 1);
    src.push_prod(a + 1, 1);
    src.push_prod(b, b);
    let yk = if eco { YaccKind::Eco } else { YaccKind::Original(YaccOriginalActionKind::GenericParseTree) };
    Gen { yk, text: t, src, inputs: vec![vec!["s".to_string()], vec![], vec!["s".to_string(), "s".to_string()]], token_names: toks, parse_ok: true }
}

/// Layout family: p = [eco, k implicit tokens, nu filler rules, nt extra %token names,
/// np productions of an unreachable rule P, ls symbols of one production of an unreachable rule L,
/// ch symbols of the start rule's production, m distinct tokens cycled through that production]
fn gen_layout(p: &[u64; 8]) -> Gen {
    let eco = p[0] == 1;
    let (k, nu, nt, np, ls, ch) = (p[1] as usize, p[2] as usize, p[3] as usize, p[4] as usize, p[5] as usize, p[6] as usize);
    let m = (p[7] as usize).max(1);
    let mut t = String::new();
    let mut src = Src { eco, has_impl: eco && k > 0, k: if eco { k } else { 0 }, ..Default::default() };
    let mut toks: Vec<String> = Vec::new();
    let mut tokset: BTreeSet<String> = BTreeSet::new();
    let mut add_tok = |n: String, toks: &mut Vec<String>| {
        if tokset.insert(n.clone()) {
            toks.push(n);
        }
    };
    t.push_str("%start S\n");
    if eco && k > 0 {
        t.push_str("%implicit_tokens");
        for i in 0..k {
            t.push_str(&format!(" I{}", i));
            add_tok(format!("I{}", i), &mut toks);
        }
        t.push('\n');
    }
    let mut i = 0;
    while i < nt {
        t.push_str("%token");
        let e = (i + 200).min(nt);
        for j in i..e {
            t.push_str(&format!(" X{}", j));
            add_tok(format!("X{}", j), &mut toks);
        }
        t.push('\n');
        i = e;
    }
    t.push_str("%%\n");
    // the reachable part: one rule, long productions are split into chunk rules of <= 20000 symbols
    let chunk = 20000;
    let mut sentence = Vec::new();
    if ch <= chunk {
        t.push_str("S:");
        for i in 0..ch {
            t.push_str(&format!(" 'c{}'", i % m));
            add_tok(format!("c{}", i % m), &mut toks);
            sentence.push(format!("c{}", i % m));
        }
        t.push_str(";\n");
        src.nrules += 1;
        src.push_prod(ch, ch);
    } else {
        let nchunks = ch.div_ceil(chunk);
        t.push_str("S:");
        for c in 0..nchunks {
            t.push_str(&format!(" C{}", c));
        }
        t.push_str(";\n");
        src.nrules += 1;
        src.push_prod(nchunks, 0);
        let mut done = 0;
        for c in 0..nchunks {
            let n = chunk.min(ch - done);
            t.push_str(&format!("C{}:", c));
            for i in done..done + n {
                t.push_str(&format!(" 'c{}'", i % m));
                add_tok(format!("c{}", i % m), &mut toks);
                sentence.push(format!("c{}", i % m));
            }
            t.push_str(";\n");
            src.nrules += 1;
            src.push_prod(n, n);
            done += n;
        }
    }
    if ch == 0 {
        // keep at least one token in the grammar
    }
    let filler = "c0".to_string();
    if nu > 0 || np > 0 || ls > 0 {
        add_tok(filler.clone(), &mut toks);
    }
    for i in 0..nu {
        t.push_str(&format!("U{}: 'c0';\n", i));
        src.nrules += 1;
        src.push_prod(1, 1);
    }
    if np > 0 {
        t.push_str("P:");
        for i in 0..np {
            t.push_str(if i == 0 { " 'c0'" } else { " | 'c0'" });
            src.push_prod(1, 1);
        }
        t.push_str(";\n");
        src.nrules += 1;
    }
    if ls > 0 {
        t.push_str("L:");
        for _ in 0..ls {
            t.push_str(" 'c0'");
        }
        t.push_str(";\n");
        src.nrules += 1;
        src.push_prod(ls, ls);
    }
    src.ntokens = toks.len();
    let mut inputs = vec![sentence.clone()];
    if !sentence.is_empty() {
        let mut bad = sentence.clone();
        bad.pop();
        inputs.push(bad);
        let mut bad2 = sentence.clone();
        let mid = bad2.len() / 2;
        bad2.insert(mid, sentence[0].clone());
        inputs.push(bad2);
    } else {
        inputs.push(vec![filler.clone()]);
    }
    if eco && k > 0 && !sentence.is_empty() {
        // implicit tokens may appear anywhere
        let mut w = vec!["I0".to_string()];
        for (i, s) in sentence.iter().enumerate().take(50) {
            w.push(s.clone());
            w.push(format!("I{}", i % k));
        }
        if sentence.len() <= 50 {
            inputs.push(w);
        }
    }
    let yk = if eco { YaccKind::Eco } else { YaccKind::Original(YaccOriginalActionKind::GenericParseTree) };
    Gen { yk, text: t, src, inputs, token_names: toks, parse_ok: true }
}

/// Random small grammar: p = [seed, case, 0, ..]
fn gen_random(p: &[u64; 8]) -> Gen {
    let mut rng = Rng::for_case(p[0], 20, p[1]);
    let eco = rng.chance(1, 5);
    let k = if eco { rng.range(0, 2) } else { 0 };
    let nrules = rng.range(1, 5);
    let ntoks = rng.range(1, 4);
    let tokname = |i: usize| format!("t{}", i);
    let mut t = String::new();
    let mut src = Src { eco, has_impl: eco && k > 0, k, ..Default::default() };
    let mut toks: Vec<String> = Vec::new();
    let mut tokset: BTreeSet<String> = BTreeSet::new();
    t.push_str("%start R0\n");
    if eco && k > 0 {
        t.push_str("%implicit_tokens");
        for i in 0..k {
            t.push_str(&format!(" I{}", i));
            if tokset.insert(format!("I{}", i)) {
                toks.push(format!("I{}", i));
            }
        }
        t.push('\n');
    }
    // precedence lines
    let mut precset: BTreeSet<String> = BTreeSet::new();
    let nprec = if rng.chance(1, 3) { rng.range(1, 2) } else { 0 };
    for _ in 0..nprec {
        let kind = *rng.pick(&["%left", "%right", "%nonassoc"]);
        let tk = tokname(rng.below(ntoks));
        if !precset.insert(tk.clone()) {
            continue; // a token gets at most one precedence
        }
        // (a precedence line alone does not make a token: only uses in productions do)
        t.push_str(&format!("{} '{}'\n", kind, tk));
    }
    t.push_str("%%\n");
    // productions: (lhs, symbols) with symbols Ok(token) / Err(rule)
    let mut rules: Vec<Vec<Vec<Result<usize, usize>>>> = Vec::new();
    for r in 0..nrules {
        let np = rng.range(1, 3);
        let mut ps = Vec::new();
        for _ in 0..np {
            let len = rng.range(0, 3);
            let mut syms = Vec::new();
            for _ in 0..len {
                if rng.chance(3, 5) {
                    syms.push(Ok(rng.below(ntoks)));
                } else {
                    syms.push(Err(rng.below(nrules)));
                }
            }
            // no cyclic derivations A =>+ A (the LR driver and min_sentence_cost do not terminate
            // on them at any width; that is C07/C17's subject): a production that refers to its own
            // or an earlier rule must also consume a token
            if syms.iter().any(|s| matches!(s, Err(j) if *j <= r)) && !syms.iter().any(|s| s.is_ok()) {
                syms.push(Ok(rng.below(ntoks)));
            }
            ps.push(syms);
        }
        // make most grammars productive: the last rule gets a token-only production
        if r == nrules - 1 && !ps.iter().any(|p| p.iter().all(|s| s.is_ok())) {
            ps.push(vec![Ok(rng.below(ntoks))]);
        }
        rules.push(ps);
    }
    for (r, ps) in rules.iter().enumerate() {
        t.push_str(&format!("R{}:", r));
        for (i, syms) in ps.iter().enumerate() {
            if i > 0 {
                t.push_str(" |");
            }
            let mut nt = 0;
            for s in syms {
                match s {
                    Ok(tk) => {
                        t.push_str(&format!(" '{}'", tokname(*tk)));
                        if tokset.insert(tokname(*tk)) {
                            toks.push(tokname(*tk));
                        }
                        nt += 1;
                    }
                    Err(ru) => t.push_str(&format!(" R{}", ru)),
                }
            }
            src.push_prod(syms.len(), nt);
        }
        t.push_str(";\n");
        src.nrules += 1;
    }
    src.ntokens = toks.len();
    // inputs: derivation samples (depth bounded) and random token strings
    let mut inputs = Vec::new();
    for _ in 0..3 {
        let mut w: Vec<String> = Vec::new();
        let mut ok = true;
        if rng.chance(2, 3) {
            // leftmost derivation with fuel
            let mut stack: Vec<Result<usize, usize>> = vec![Err(0)];
            let mut fuel = 40;
            while let Some(s) = stack.pop() {
                match s {
                    Ok(tk) => w.push(tokname(tk)),
                    Err(r) => {
                        if fuel == 0 {
                            ok = false;
                            break;
                        }
                        fuel -= 1;
                        let ps = &rules[r];
                        // prefer short productions when fuel is low
                        let pr = if fuel < 25 {
                            ps.iter().min_by_key(|p| p.iter().filter(|s| s.is_err()).count()).unwrap()
                        } else {
                            &ps[rng.below(ps.len())]
                        };
                        for s in pr.iter().rev() {
                            stack.push(*s);
                        }
                    }
                }
                if w.len() > 12 {
                    ok = false;
                    break;
                }
            }
            if ok && rng.chance(1, 3) && !w.is_empty() {
                let i = rng.below(w.len());
                match rng.below(3) {
                    0 => {
                        w.remove(i);
                    }
                    1 => w.insert(i, tokname(rng.below(ntoks))),
                    _ => w[i] = tokname(rng.below(ntoks)),
                }
            }
        } else {
            ok = false;
        }
        if !ok {
            w.clear();
            for _ in 0..rng.range(0, 6) {
                w.push(tokname(rng.below(ntoks)));
            }
        }
        // only tokens the grammar knows can be fed
        w.retain(|n| tokset.contains(n));
        inputs.push(w);
    }
    let yk = if eco { YaccKind::Eco } else { YaccKind::Original(YaccOriginalActionKind::GenericParseTree) };
    let parse_ok = !hidden_left_recursion(&rules);
    Gen { yk, text: t, src, inputs, token_names: toks, parse_ok }
}

/// Is there a rule A with a production `alpha B beta`, `alpha` non-empty and nullable, such that B
/// left-reaches A (through nullable prefixes)?  Conservative test on the generator's own structure.
fn hidden_left_recursion(rules: &[Vec<Vec<Result<usize, usize>>>]) -> bool {
    let n = rules.len();
    let mut nullable = vec![false; n];
    loop {
        let mut ch = false;
        for (r, ps) in rules.iter().enumerate() {
            if !nullable[r] && ps.iter().any(|p| p.iter().all(|s| matches!(s, Err(j) if nullable[*j]))) {
                nullable[r] = true;
                ch = true;
            }
        }
        if !ch {
            break;
        }
    }
    let mut edge = vec![vec![false; n]; n];
    let mut hidden: Vec<(usize, usize)> = Vec::new();
    for (r, ps) in rules.iter().enumerate() {
        for p in ps {
            for (i, s) in p.iter().enumerate() {
                match s {
                    Ok(_) => break,
                    Err(j) => {
                        edge[r][*j] = true;
                        if i > 0 {
                            hidden.push((r, *j));
                        }
                        if !nullable[*j] {
                            break;
                        }
                    }
                }
            }
        }
    }
    for k in 0..n {
        for i in 0..n {
            for j in 0..n {
                if edge[i][k] && edge[k][j] {
                    edge[i][j] = true;
                }
            }
        }
    }
    hidden.iter().any(|(a, b)| a == b || edge[*b][*a])
}

fn generate(d: &Desc) -> Gen {
    match d.fam {
        FAM_LAYOUT => gen_layout(&d.p),
        FAM_TWOLONG => gen_twolong(&d.p),
        FAM_CONTEXTS => gen_contexts(&d.p),
        _ => gen_random(&d.p),
    }
}

// ------------------------------------------------------------------------------------------------
// one width

#[derive(Clone, Debug, Default)]
struct GInfo {
    rl: usize,
    tl: usize,
    pl: usize,
    eof: usize,
    sp: usize,
    ml: usize,
    sl: usize,
    d_rules: u64,
    d_toks: u64,
    d_prods: u64,
    d_misc: u64,
}

#[derive(Clone, Debug, Default)]
struct WRes {
    /// the grammar text was rejected as invalid (generator bug, not a refusal)
    invalid: Option<String>,
    g: Option<Result<GInfo, String>>,
    sg: Option<Result<usize, String>>,
    /// Ok(None) table built, Ok(Some(kind)) StateTableError, Err(panic message)
    t: Option<Result<Option<String>, String>>,
    d_table: u64,
    d_numbering: u64,
    /// per input and recoverer: canonical parse outcome, or the panic message
    parses: Vec<String>,
    /// outcome of the lrlex pipeline on the first input
    lex: Option<String>,
    /// a later stage panicked although construction succeeded
    late_panic: Option<String>,
}

impl WRes {
    fn acc(&self) -> usize {
        match (&self.g, &self.sg, &self.t) {
            (Some(Ok(_)), Some(Ok(_)), Some(Ok(_))) => 3,
            (Some(Ok(_)), Some(Ok(_)), _) => 2,
            (Some(Ok(_)), _, _) => 1,
            _ => 0,
        }
    }
}

fn grammar_info<T>(grm: &YaccGrammar<T>) -> GInfo
where
    T: 'static + PrimInt + Unsigned + Hash + Debug,
    usize: AsPrimitive<T>,
{
    let mut gi = GInfo {
        rl: usize::from(grm.rules_len()),
        tl: usize::from(grm.tokens_len()),
        pl: usize::from(grm.prods_len()),
        eof: usize::from(grm.eof_token_idx()),
        sp: usize::from(grm.start_prod()),
        ..Default::default()
    };
    let mut h = Fnv::new();
    for ridx in grm.iter_rules() {
        h.num(usize::from(ridx));
        let name = grm.rule_name_str(ridx);
        h.text(name);
        let ps = grm.rule_to_prods(ridx);
        h.num(ps.len());
        for p in ps {
            h.num(usize::from(*p));
        }
        match grm.rule_idx(name) {
            Some(r) => h.num(usize::from(r)),
            None => h.num(usize::MAX),
        }
    }
    gi.d_rules = h.0;
    let mut h = Fnv::new();
    for tidx in grm.iter_tidxs() {
        h.num(usize::from(tidx));
        match grm.token_name(tidx) {
            Some(n) => {
                h.text(n);
                match grm.token_idx(n) {
                    Some(t) => h.num(usize::from(t)),
                    None => h.num(usize::MAX),
                }
            }
            None => h.text("<eof>"),
        }
        match grm.token_precedence(tidx) {
            Some(p) => h.text(&format!("{:?}", p)),
            None => h.byte(0),
        }
        h.text(grm.token_epp(tidx).unwrap_or("<none>"));
    }
    let mut tm: Vec<(String, usize)> = grm.tokens_map().iter().map(|(k, v)| (k.to_string(), usize::from(*v))).collect();
    tm.sort();
    for (k, v) in tm {
        h.text(&k);
        h.num(v);
    }
    gi.d_toks = h.0;
    let mut h = Fnv::new();
    for pidx in grm.iter_pidxs() {
        h.num(usize::from(pidx));
        h.num(usize::from(grm.prod_to_rule(pidx)));
        let len = usize::from(grm.prod_len(pidx));
        h.num(len);
        gi.ml = gi.ml.max(len);
        gi.sl += len;
        for s in grm.prod(pidx) {
            match s {
                Symbol::Rule(r) => {
                    h.byte(1);
                    h.num(usize::from(*r));
                }
                Symbol::Token(t) => {
                    h.byte(2);
                    h.num(usize::from(*t));
                }
            }
        }
        match grm.prod_precedence(pidx) {
            Some(p) => h.text(&format!("{:?}", p)),
            None => h.byte(0),
        }
    }
    gi.d_prods = h.0;
    let mut h = Fnv::new();
    h.num(usize::from(grm.start_rule_idx()));
    match grm.implicit_rule() {
        Some(r) => h.num(usize::from(r)),
        None => h.num(usize::MAX),
    }
    // FIRST sets, when small enough to enumerate
    if gi.rl.saturating_mul(gi.tl) <= 400_000 {
        let firsts = grm.firsts();
        for ridx in grm.iter_rules() {
            for tidx in grm.iter_tidxs() {
                h.byte(firsts.is_set(ridx, tidx) as u8);
            }
            h.byte(firsts.is_epsilon_set(ridx) as u8);
        }
    }
    gi.d_misc = h.0;
    gi
}

/// Canonical (numbering-independent) digest of state graph + table: states are renumbered breadth
/// first from the start state with edges taken in symbol order.
fn table_digest<T>(grm: &YaccGrammar<T>, sg: &StateGraph<T>, st: &StateTable<T>) -> (u64, u64)
where
    T: 'static + PrimInt + Unsigned + Hash + Debug,
    usize: AsPrimitive<T>,
{
    let n = usize::from(sg.all_states_len());
    let mut canon: Vec<usize> = vec![usize::MAX; n];
    let mut order: Vec<StIdx<T>> = Vec::with_capacity(n);
    let mut q = VecDeque::new();
    let s0 = sg.start_state();
    canon[usize::from(s0)] = 0;
    order.push(s0);
    q.push_back(s0);
    while let Some(s) = q.pop_front() {
        let mut es: Vec<((u8, usize), StIdx<T>)> = sg
            .edges(s)
            .iter()
            .map(|(sym, to)| {
                (
                    match sym {
                        Symbol::Token(t) => (0u8, usize::from(*t)),
                        Symbol::Rule(r) => (1u8, usize::from(*r)),
                    },
                    *to,
                )
            })
            .collect();
        es.sort_by_key(|e| e.0);
        for (_, to) in es {
            if canon[usize::from(to)] == usize::MAX {
                canon[usize::from(to)] = order.len();
                order.push(to);
                q.push_back(to);
            }
        }
    }
    let mut h = Fnv::new();
    h.num(n);
    h.num(order.len());
    let small = n.saturating_mul(usize::from(grm.tokens_len()) + usize::from(grm.rules_len())) <= 6_000_000;
    for s in &order {
        // items of the core state, sorted
        let mut items: Vec<(usize, usize, Vec<usize>)> = sg
            .core_state(*s)
            .items
            .iter()
            .map(|((p, d), ctx)| (usize::from(*p), usize::from(*d), ctx.iter_set_bits(..).collect()))
            .collect();
        items.sort();
        for (p, d, ctx) in items {
            h.num(p);
            h.num(d);
            h.num(ctx.len());
            for c in ctx {
                h.num(c);
            }
        }
        h.num(sg.closed_state(*s).items.len());
        if small {
            for tidx in grm.iter_tidxs() {
                match st.action(*s, tidx) {
                    Action::Shift(to) => {
                        h.byte(1);
                        h.num(canon[usize::from(to)]);
                    }
                    Action::Reduce(p) => {
                        h.byte(2);
                        h.num(usize::from(p));
                    }
                    Action::Accept => h.byte(3),
                    Action::Error => h.byte(0),
                }
            }
            for ridx in grm.iter_rules() {
                match st.goto(*s, ridx) {
                    Some(to) => h.num(canon[usize::from(to)]),
                    None => h.num(usize::MAX),
                }
            }
        }
        for tidx in st.state_actions(*s) {
            h.num(usize::from(tidx));
            match st.action(*s, tidx) {
                Action::Shift(to) => {
                    h.byte(1);
                    h.num(canon[usize::from(to)]);
                }
                Action::Reduce(p) => {
                    h.byte(2);
                    h.num(usize::from(p));
                }
                Action::Accept => h.byte(3),
                Action::Error => h.byte(0),
            }
        }
        h.byte(9);
        for tidx in st.state_shifts(*s) {
            h.num(usize::from(tidx));
        }
        h.byte(9);
        for pidx in st.core_reduces(*s) {
            h.num(usize::from(pidx));
        }
        h.byte(st.reduce_only_state(*s) as u8);
    }
    match st.conflicts() {
        Some(c) => {
            h.num(c.sr_len());
            h.num(c.rr_len());
        }
        None => h.num(0),
    }
    // the state numbering itself: the canonical number of every state, in the table's own order
    let mut hn = Fnv::new();
    for c in &canon {
        hn.num(*c);
    }
    (h.0, hn.0)
}

type Lx<T> = DefaultLexerTypes<T>;

fn parse_outcome<T>(grm: &YaccGrammar<T>, stable: &StateTable<T>, input: &[String], rk: RecoveryKind) -> String
where
    T: 'static + PrimInt + Unsigned + Hash + Debug,
    usize: AsPrimitive<T>,
{
    let mut lexemes = Vec::with_capacity(input.len());
    for (i, n) in input.iter().enumerate() {
        match grm.token_idx(n) {
            Some(t) => lexemes.push(Ok(DefaultLexeme::<T>::new(t.as_storaget(), 2 * i, 1))),
            None => return format!("unknown-token {}", n),
        }
    }
    let text = " ".repeat(2 * input.len() + 1);
    let lexer: LRNonStreamingLexer<Lx<T>> =
        LRNonStreamingLexer::new(&text, lexemes, cfgrammar::newlinecache::NewlineCache::from_str(&text).unwrap());
    let pb: RTParserBuilder<T, Lx<T>> = RTParserBuilder::new(grm, stable).recoverer(rk);
    let t0 = std::time::Instant::now();
    let (tree, errs) = pb.parse_map(
        &lexer,
        &|lx: DefaultLexeme<T>| {
            let mut h = Fnv::new();
            h.byte(1);
            h.num(num_traits::cast::<T, usize>(lx.tok_id()).unwrap());
            h.num(lx.span().start());
            h.num(lx.span().len());
            h.byte(lx.faulty() as u8);
            (h.0, 1usize)
        },
        &|ridx, nodes: Vec<(u64, usize)>| {
            let mut h = Fnv::new();
            h.byte(2);
            h.num(usize::from(ridx));
            h.num(nodes.len());
            let mut c = 1;
            for (x, k) in nodes {
                h.num(x as usize);
                c += k;
            }
            (h.0, c)
        },
    );
    let slow = t0.elapsed().as_millis() > 400;
    let tree_is_some = tree.is_some();
    let mut s = match tree {
        Some((h, c)) => format!("tree {:016x} nodes {}", h, c),
        None => "no-tree".to_string(),
    };
    if slow && !matches!(rk, RecoveryKind::None) && !errs.is_empty() {
        // the recovery time budget may have been hit: repairs are inconclusive
        return "slow-recovery".to_string();
    }
    let _ = tree_is_some;
    // the order of equally ranked repair sequences, and with it the repair that is applied, is a
    // function of grammar and input: tree, every error and the ORDER of its repair sequences must be
    // the same at every width
    for e in errs.into_iter() {
        match e {
            LexParseError::LexError(_) => s.push_str(" lexerror"),
            LexParseError::ParseError(pe) => {
                let lx = pe.lexeme();
                s.push_str(&format!(
                    " err@{}:{}:{}",
                    num_traits::cast::<T, usize>(lx.tok_id()).unwrap(),
                    lx.span().start(),
                    lx.span().len()
                ));
                let reps: Vec<String> = pe
                    .repairs()
                    .iter()
                    .map(|seq| {
                        seq.iter()
                            .map(|r| match r {
                                ParseRepair::Insert(t) => format!("I{}", usize::from(*t)),
                                ParseRepair::Delete(l) => format!("D{}", l.span().start()),
                                ParseRepair::Shift(l) => format!("S{}", l.span().start()),
                            })
                            .collect::<Vec<_>>()
                            .join(",")
                    })
                    .collect();
                s.push_str(&format!("[{}]", reps.join(";")));
            }
        }
    }
    s
}

/// lrlex pipeline: a `.l` file with one rule per user token, ids set from the grammar, the first
/// input lexed from text and parsed.
fn lex_outcome<T>(grm: &YaccGrammar<T>, stable: &StateTable<T>, g: &Gen) -> String
where
    T: 'static + PrimInt + Unsigned + Hash + Debug + TryFrom<usize>,
    usize: AsPrimitive<T>,
{
    let mut l = String::from("%%\n");
    for n in &g.token_names {
        l.push_str(&format!("{}, \"{}\"\n", n, n));
    }
    l.push_str("[ ]+ ;\n");
    let mut ld = match LRNonStreamingLexerDef::<Lx<T>>::from_str(&l) {
        Ok(ld) => ld,
        Err(e) => return format!("lexdef-error {:?}", e.first().map(|x| x.to_string())),
    };
    let map: HashMap<&str, T> = grm.tokens_map().iter().map(|(k, v)| (*k, v.as_storaget())).collect();
    let (mfp, mfl) = ld.set_rule_ids(&map);
    let mut s = format!(
        "missing {} {}",
        mfp.map(|x| x.len()).unwrap_or(0),
        mfl.map(|x| x.len()).unwrap_or(0)
    );
    let mut ids: Vec<(String, usize)> = ld
        .iter_rules()
        .filter_map(|r| r.name().map(|n| (n.to_string(), r.tok_id().map(|t| num_traits::cast::<T, usize>(t).unwrap()).unwrap_or(usize::MAX))))
        .collect();
    ids.sort();
    let mut h = Fnv::new();
    for (n, i) in ids {
        h.text(&n);
        h.num(i);
    }
    s.push_str(&format!(" ids {:016x}", h.0));
    let mut text = String::new();
    for n in &g.inputs[0] {
        text.push_str(n);
        text.push_str(", ");
    }
    let lexer = ld.lexer(&text);
    let pb: RTParserBuilder<T, Lx<T>> = RTParserBuilder::new(grm, stable).recoverer(RecoveryKind::None);
    let (tree, errs) = pb.parse_map(
        &lexer,
        &|lx: DefaultLexeme<T>| format!("{}@{}+{}", num_traits::cast::<T, usize>(lx.tok_id()).unwrap(), lx.span().start(), lx.span().len()),
        &|ridx, nodes: Vec<String>| format!("({} {})", usize::from(ridx), nodes.join(" ")),
    );
    let mut h = Fnv::new();
    h.text(&tree.unwrap_or_else(|| "no-tree".to_string()));
    s.push_str(&format!(" tree {:016x} errs {}", h.0, errs.len()));
    s
}

fn build_width<T>(g: &Gen, ast: Option<&ASTWithValidityInfo>, stages: usize, with_lex: bool, cpct: bool) -> WRes
where
    T: 'static + PrimInt + Unsigned + Hash + Debug + TryFrom<usize>,
    usize: AsPrimitive<T>,
{
    let mut r = WRes::default();
    let gres = guarded(AssertUnwindSafe(|| match ast {
        Some(a) => YaccGrammar::<T>::new_from_ast_with_validity_info(a),
        None => YaccGrammar::<T>::new_with_storaget(g.yk, &g.text),
    }));
    let grm = match gres {
        Err(msg) => {
            r.g = Some(Err(msg));
            return r;
        }
        Ok(Err(errs)) => {
            r.invalid = Some(format!("{:?}", errs.first().map(|e| e.to_string())));
            return r;
        }
        Ok(Ok(grm)) => grm,
    };
    match guarded(AssertUnwindSafe(|| grammar_info(&grm))) {
        Ok(gi) => r.g = Some(Ok(gi)),
        Err(msg) => {
            // construction succeeded but the object cannot be queried
            r.g = Some(Ok(GInfo {
                rl: usize::from(grm.rules_len()),
                tl: usize::from(grm.tokens_len()),
                pl: usize::from(grm.prods_len()),
                eof: usize::from(grm.eof_token_idx()),
                sp: usize::from(grm.start_prod()),
                ..Default::default()
            }));
            r.late_panic = Some(format!("querying the grammar object panicked: {}", msg));
        }
    }
    if stages < 2 {
        return r;
    }
    // from_yacc = pager_stategraph + StateTable::new; to tell the two refusals apart the table is
    // rebuilt from the state graph when from_yacc panics
    let built = guarded(AssertUnwindSafe(|| from_yacc(&grm, Minimiser::Pager)));
    let (sg, st) = match built {
        Ok(Ok((sg, st))) => {
            r.sg = Some(Ok(usize::from(sg.all_states_len())));
            r.t = Some(Ok(None));
            (sg, st)
        }
        Ok(Err(e)) => {
            // a StateTableError (accept/reduce conflict): the state graph exists
            r.sg = Some(Ok(0));
            r.t = Some(Ok(Some(format!("{:?}", e.kind))));
            return r;
        }
        Err(msg) => {
            // which half refused?  the table constructor's refusal is the documented assert
            if msg.contains("all_states_len") {
                r.sg = Some(Ok(usize::MAX));
                r.t = Some(Err(msg));
            } else {
                r.sg = Some(Err(msg));
            }
            return r;
        }
    };
    if stages < 3 {
        r.t = None;
        return r;
    }
    match guarded(AssertUnwindSafe(|| table_digest(&grm, &sg, &st))) {
        Ok(d) => {
            r.d_table = d.0;
            r.d_numbering = d.1;
        }
        Err(msg) => r.late_panic = Some(format!("querying the table panicked: {}", msg)),
    }
    for inp in g.inputs.iter().filter(|_| g.parse_ok) {
        match guarded(AssertUnwindSafe(|| parse_outcome(&grm, &st, inp, RecoveryKind::None))) {
            Ok(s) => r.parses.push(s),
            Err(msg) => {
                r.parses.push("panic".to_string());
                r.late_panic = Some(format!("parsing panicked: {}", msg));
            }
        }
        if cpct && r.parses.len() <= 1 {
            match guarded(AssertUnwindSafe(|| parse_outcome(&grm, &st, inp, RecoveryKind::CPCTPlus))) {
                Ok(s) => r.parses.push(s),
                Err(msg) => {
                    r.parses.push("panic".to_string());
                    r.late_panic = Some(format!("parsing (CPCT+) panicked: {}", msg));
                }
            }
        }
    }
    if with_lex && g.parse_ok {
        match guarded(AssertUnwindSafe(|| lex_outcome(&grm, &st, g))) {
            Ok(s) => r.lex = Some(s),
            Err(msg) => r.lex = Some(format!("refused {}", msg)),
        }
    }
    r
}

// ------------------------------------------------------------------------------------------------
// one case

fn fmt_width(w: usize, r: &WRes, stages: usize) -> String {
    let mut s = format!("w{}", w);
    match &r.g {
        Some(Ok(gi)) => s.push_str(&format!(" g:ok {} {} {} {} {} {} {}", gi.rl, gi.tl, gi.pl, gi.eof, gi.sp, gi.ml, gi.sl)),
        _ => s.push_str(" g:refused"),
    }
    let gok = matches!(r.g, Some(Ok(_)));
    if stages < 2 || !gok {
        s.push_str(" sg:- t:-");
        return s;
    }
    match &r.sg {
        Some(Ok(n)) if *n == usize::MAX => s.push_str(" sg:ok *"),
        Some(Ok(n)) => s.push_str(&format!(" sg:ok {}", n)),
        _ => {
            s.push_str(" sg:refused t:-");
            return s;
        }
    }
    match &r.t {
        Some(Ok(None)) => s.push_str(" t:ok"),
        Some(Ok(Some(_))) => s.push_str(" t:err"),
        Some(Err(_)) => s.push_str(" t:refused"),
        None => s.push_str(" t:-"),
    }
    s
}

fn refusal_kind(msg: &str) -> &'static str {
    if msg.contains("not big enough") {
        "not_big_enough"
    } else if msg.contains("assertion failed") {
        "assert"
    } else if msg.contains("try_from") {
        "try_from"
    } else {
        "other"
    }
}

fn describe_desc(d: &Desc) -> String {
    if d.fam == FAM_LAYOUT {
        format!(
            "layout eco={} implicit={} filler_rules={} extra_tokens={} alt_prods={} long_prod={} chain={} chain_tokens={}",
            d.p[0], d.p[1], d.p[2], d.p[3], d.p[4], d.p[5], d.p[6], d.p[7]
        )
    } else if d.fam == FAM_TWOLONG {
        format!("two long productions eco={} implicit={} rule_refs={} tokens={}", d.p[0], d.p[1], d.p[2], d.p[3])
    } else if d.fam == FAM_CONTEXTS {
        format!("merge contexts seed={} case={}", d.p[0], d.p[1])
    } else {
        format!("random seed={} case={}", d.p[0], d.p[1])
    }
}

fn run_grammar_case(out: &mut Out, d: &Desc, stages: usize) {
    let g = generate(d);
    let src = &g.src;
    let big = src.nrules.max(src.ntokens).max(src.nprods()).max(src.maxsyms()) > 2000;
    let with_lex = stages >= 3 && src.ntokens <= 600;
    // CPCT+ may use its whole 500 ms budget on an erroneous input: only a sample of the cases
    let cpct = (d.fam == FAM_RANDOM && d.p[1] % 8 == 0) || (d.fam == FAM_CONTEXTS && d.p[1] % 4 == 1);
    // Eco grammars with >= 2 implicit tokens: the production order of the implicit rule follows a
    // HashMap's iteration order (C15's concern), so the three widths must share one AST.
    let shared_ast = if src.has_impl && src.k >= 2 { Some(ASTWithValidityInfo::new(g.yk, &g.text)) } else { None };
    let r32 = build_width::<u32>(&g, shared_ast.as_ref(), stages, with_lex, cpct);
    let r16 = build_width::<u16>(&g, shared_ast.as_ref(), stages, with_lex, cpct);
    let r8 = build_width::<u8>(&g, shared_ast.as_ref(), stages, with_lex, cpct);
    let mut fails: Vec<String> = Vec::new();
    if let Some(e) = CT_FAIL.lock().unwrap().take() {
        fails.push(e);
    }
    // the generator's counts are the source counts: cross-check with the AST
    {
        let a = ASTWithValidityInfo::new(g.yk, &g.text);
        if !a.is_valid() {
            fails.push(format!("harness: generated grammar is invalid: {:?}", a.errors().first().map(|e| e.to_string())));
        } else {
            let ast = a.ast();
            if ast.rules.len() != src.nrules || ast.tokens.len() != src.ntokens || ast.prods.len() != src.nprods() {
                fails.push(format!(
                    "harness: generator counts {}/{}/{} differ from the AST's {}/{}/{}",
                    src.nrules,
                    src.ntokens,
                    src.nprods(),
                    ast.rules.len(),
                    ast.tokens.len(),
                    ast.prods.len()
                ));
            }
        }
    }
    let nstates = match &r32.sg {
        Some(Ok(n)) if *n != usize::MAX => *n,
        _ => 0,
    };
    let terr = matches!(r32.t, Some(Ok(Some(_))));
    let stages_eff = if stages >= 2 && !matches!(r32.sg, Some(Ok(_))) {
        // the reference width itself was refused: nothing to compare the tables with
        if matches!(r32.g, Some(Ok(_))) {
            fails.push(format!("u32 refused the state graph: {:?}", r32.sg));
        }
        1
    } else {
        stages
    };
    let id = out.id();
    let runs: Vec<String> = src.prods.iter().map(|(c, n, t)| format!("{} {} {}", c, n, t)).collect();
    let payload = format!(
        "0 {} {} {} {} {} {} {} {} {} {} {} {} {} {}",
        d.fam,
        d.p.iter().map(|x| x.to_string()).collect::<Vec<_>>().join(" "),
        src.eco as u8,
        src.has_impl as u8,
        src.k,
        src.nrules,
        src.ntokens,
        if runs.is_empty() { "0".to_string() } else { format!("{} {}", runs.len(), runs.join(" ")) },
        stages_eff,
        nstates,
        terr as u8,
        r8.acc().min(stages_eff),
        r16.acc().min(stages_eff),
        r32.acc().min(stages_eff),
    );
    out.case("C20", id, &payload);
    out.imp(
        id,
        "I",
        &format!("{} {} {}", fmt_width(8, &r8, stages_eff), fmt_width(16, &r16, stages_eff), fmt_width(32, &r32, stages_eff)),
    );
    // harness-side verdict: every width that accepts agrees with u32 in everything observable
    let mut refusals = Vec::new();
    for (w, r) in [(8usize, &r8), (16, &r16), (32, &r32)] {
        if let Some(m) = &r.invalid {
            fails.push(format!("harness: u{} rejected the grammar text: {}", w, m));
        }
        if let Some(m) = &r.late_panic {
            fails.push(format!("u{}: {}", w, m));
        }
        for (stage, m) in [
            ("grammar", r.g.as_ref().and_then(|x| x.as_ref().err())),
            ("stategraph", r.sg.as_ref().and_then(|x| x.as_ref().err())),
            ("table", r.t.as_ref().and_then(|x| x.as_ref().err())),
        ] {
            if let Some(m) = m {
                out.count(&format!("refusal.u{}.{}.{}", w, stage, refusal_kind(m)));
                refusals.push(format!("u{} {} refused: {:?}", w, stage, m.lines().next().unwrap_or("")));
            }
        }
    }
    for (w, r, wider) in [(8usize, &r8, &r16), (16, &r16, &r32)] {
        if r.acc() > wider.acc() && stages_eff > 0 {
            fails.push(format!("u{} accepted {} stage(s) but the next wider width only {}", w, r.acc(), wider.acc()));
        }
    }
    if let Some(Ok(g32)) = &r32.g {
        for (w, r) in [(8usize, &r8), (16, &r16)] {
            if let Some(Ok(gw)) = &r.g {
                if (gw.rl, gw.tl, gw.pl, gw.eof, gw.sp, gw.ml, gw.sl) != (g32.rl, g32.tl, g32.pl, g32.eof, g32.sp, g32.ml, g32.sl) {
                    fails.push(format!(
                        "u{} sizes rules_len/tokens_len/prods_len/eof/start_prod/maxlen/sumlen {:?} differ from u32's {:?}",
                        w,
                        (gw.rl, gw.tl, gw.pl, gw.eof, gw.sp, gw.ml, gw.sl),
                        (g32.rl, g32.tl, g32.pl, g32.eof, g32.sp, g32.ml, g32.sl)
                    ));
                }
                for (what, a, b) in [
                    ("rule names/rule->productions/rule_idx", gw.d_rules, g32.d_rules),
                    ("token names/precedences/token_idx/tokens_map", gw.d_toks, g32.d_toks),
                    ("productions (symbols, owner rule, precedence)", gw.d_prods, g32.d_prods),
                    ("start rule/implicit rule/FIRST sets", gw.d_misc, g32.d_misc),
                ] {
                    if a != b {
                        fails.push(format!("u{} numbering differs from u32 in: {}", w, what));
                    }
                }
            }
            if r.acc() >= 2 && r32.acc() >= 2 {
                if let (Some(Ok(a)), Some(Ok(b))) = (&r.sg, &r32.sg) {
                    if *a != usize::MAX && a != b {
                        fails.push(format!("u{} has {} states, u32 has {}", w, a, b));
                    }
                }
            }
            if stages_eff >= 3 && r.acc() >= 3 && r32.acc() >= 3 {
                match (&r.t, &r32.t) {
                    (Some(Ok(a)), Some(Ok(b))) if a != b => fails.push(format!("u{} table outcome {:?} differs from u32's {:?}", w, a, b)),
                    _ => {}
                }
                if r.d_table != r32.d_table {
                    // Pager's merging follows hash-map orders that legitimately differ per build:
                    // alarm only if rebuilding never reproduces a common table
                    let mut seen32: BTreeSet<u64> = BTreeSet::new();
                    seen32.insert(r32.d_table);
                    let mut seenw: BTreeSet<u64> = BTreeSet::new();
                    seenw.insert(r.d_table);
                    for _ in 0..6 {
                        seen32.insert(build_width::<u32>(&g, shared_ast.as_ref(), 3, false, false).d_table);
                        seenw.insert(if w == 8 {
                            build_width::<u8>(&g, shared_ast.as_ref(), 3, false, false).d_table
                        } else {
                            build_width::<u16>(&g, shared_ast.as_ref(), 3, false, false).d_table
                        });
                        if seen32.intersection(&seenw).next().is_some() {
                            break;
                        }
                    }
                    if seen32.intersection(&seenw).next().is_some() {
                        out.count("table_order_dependent");
                    } else {
                        fails.push(format!("u{} table (canonically renumbered actions/gotos/items) differs from u32's", w));
                    }
                } else {
                    if r.d_numbering != r32.d_numbering {
                        fails.push(format!("u{} numbers the states of the (otherwise equal) table differently from u32", w));
                    }
                    // a recovery that may have hit CPCT+'s wall-clock budget is inconclusive
                    let differs = |a: &String, b: &String| a != b && a != "slow-recovery" && b != "slow-recovery";
                    if r.parses.len() != r32.parses.len() || r.parses.iter().zip(&r32.parses).any(|(a, b)| differs(a, b)) {
                        let i = r.parses.iter().zip(&r32.parses).position(|(a, b)| differs(a, b)).unwrap_or(0);
                        fails.push(format!(
                            "u{} parse result {:?} differs from u32's {:?} (input #{})",
                            w,
                            r.parses.get(i),
                            r32.parses.get(i),
                            i
                        ));
                    }
                    if r.lex != r32.lex && !r.lex.as_deref().unwrap_or("").starts_with("refused") {
                        fails.push(format!("u{} lexer pipeline {:?} differs from u32's {:?}", w, r.lex, r32.lex));
                    }
                }
            }
        }
    } else if !big {
        fails.push(format!("u32 refused the grammar: {:?}", r32.g));
    }
    if fails.is_empty() {
        out.imp(id, "H", "ok");
    } else {
        out.imp(id, "H", &format!("fail {}", fails.join("; ")));
    }
    out.imp(
        id,
        "D",
        &format!(
            "{} | source counts rules={} tokens={} prods={} maxsyms={} | stages={} states(u32)={} | {}",
            describe_desc(d),
            src.nrules,
            src.ntokens,
            src.nprods(),
            src.maxsyms(),
            stages_eff,
            nstates,
            if refusals.is_empty() { "no refusals".to_string() } else { refusals.join(", ") }
        ),
    );
    // distribution
    out.count(if d.fam == FAM_LAYOUT { "fam.layout" } else if d.fam == FAM_TWOLONG { "fam.twolong" } else if d.fam == FAM_CONTEXTS { "fam.contexts" } else { "fam.random" });
    if !g.parse_ok {
        out.count("parse_skipped.hidden_left_recursion");
    }
    out.count(&format!("stages.{}", stages_eff));
    if src.eco {
        out.count(if src.has_impl { "eco.implicit" } else { "eco.plain" });
    }
    for (what, n) in [("rules", src.nrules), ("tokens", src.ntokens), ("prods", src.nprods()), ("maxsyms", src.maxsyms()), ("states", nstates)] {
        if (250..=260).contains(&n) {
            out.count(&format!("boundary.u8.{}.{}", what, n));
        } else if (65530..=65540).contains(&n) {
            out.count(&format!("boundary.u16.{}.{}", what, n));
        }
    }
    for (w, r) in [(8usize, &r8), (16, &r16), (32, &r32)] {
        out.count(&format!("accepted.u{}.{}", w, r.acc().min(stages_eff)));
    }
    for r in [&r8, &r16, &r32] {
        if r.parses.iter().any(|p| p == "slow-recovery") {
            out.count("inconclusive_slow_recovery");
            break;
        }
    }
    if r8.acc() >= 3 && !r8.parses.is_empty() {
        out.count("u8_full_pipeline");
        if r8.parses.iter().any(|p| p.starts_with("tree")) {
            out.count("u8_parse_with_tree");
        }
    }
    if r8.lex.is_some() {
        out.count("with_lexer");
    }
    out.max("max_states", nstates as u64);
    if out.next_id % 23 == 1 || !fails.is_empty() {
        out.sample(format!("{} -> {}", describe_desc(d), fmt_width(8, &r8, stages_eff)));
    }
}

fn lexer_width<T>(n: usize, unnamed_from: usize) -> Result<(usize, usize), String>
where
    T: 'static + PrimInt + Unsigned + Hash + Debug + TryFrom<usize>,
    usize: AsPrimitive<T>,
{
    let mut l = String::from("%%\n");
    for i in 0..n {
        if i >= unnamed_from {
            // rules without a name (`;`) count towards the ids like any other
            l.push_str(&format!("k{}, ;\n", i));
        } else {
            l.push_str(&format!("k{}, \"K{}\"\n", i, i));
        }
    }
    guarded(AssertUnwindSafe(|| {
        let ld = LRNonStreamingLexerDef::<Lx<T>>::from_str(&l).map_err(|e| format!("{:?}", e.first().map(|x| x.to_string()))).unwrap();
        let cnt = ld.iter_rules().count();
        let last = ld.iter_rules().last().and_then(|r| r.tok_id()).map(|t| num_traits::cast::<T, usize>(t).unwrap()).unwrap_or(0);
        // every id is its rule's position
        for (i, r) in ld.iter_rules().enumerate() {
            let id = r.tok_id().map(|t| num_traits::cast::<T, usize>(t).unwrap());
            if id != Some(i) {
                panic!("HARNESS-MISMATCH rule {} has token id {:?}", i, id);
            }
        }
        (cnt, last)
    }))
}

fn run_lexer_case(out: &mut Out, n: usize) {
    run_lexer_case_with(out, n, usize::MAX);
    // the same number of rules with the last ones unnamed
    if n >= 20 {
        run_lexer_case_with(out, n, n - n.min(12));
    }
}

fn run_lexer_case_with(out: &mut Out, n: usize, unnamed_from: usize) {
    let rs = [(8usize, lexer_width::<u8>(n, unnamed_from)), (16, lexer_width::<u16>(n, unnamed_from)), (32, lexer_width::<u32>(n, unnamed_from))];
    let id = out.id();
    let acc: Vec<String> = rs.iter().map(|(_, r)| (r.is_ok() as u8).to_string()).collect();
    out.case("C20", id, &format!("1 {} {}", n, acc.join(" ")));
    let mut parts = Vec::new();
    let mut fails = Vec::new();
    let mut refusals = Vec::new();
    for (w, r) in &rs {
        match r {
            Ok((cnt, last)) => parts.push(format!("w{} l:ok {} {}", w, cnt, last)),
            Err(m) => {
                if m.contains("HARNESS-MISMATCH") {
                    fails.push(format!("u{}: {}", w, m));
                }
                out.count(&format!("refusal.u{}.lexer.{}", w, refusal_kind(m)));
                refusals.push(format!("u{} lexer refused: {:?}", w, m.lines().next().unwrap_or("")));
                parts.push(format!("w{} l:refused", w));
            }
        }
    }
    out.imp(id, "I", &parts.join(" "));
    out.imp(id, "H", &if fails.is_empty() { "ok".to_string() } else { format!("fail {}", fails.join("; ")) });
    out.imp(id, "D", &format!("lexer with {} rules{} | {}", n, if unnamed_from < n { format!(" (the last {} unnamed)", n - unnamed_from) } else { String::new() }, if refusals.is_empty() { "no refusals".to_string() } else { refusals.join(", ") }));
    out.count("fam.lexer");
    if (250..=260).contains(&n) {
        out.count(&format!("boundary.u8.lexrules.{}", n));
    } else if (65530..=65540).contains(&n) {
        out.count(&format!("boundary.u16.lexrules.{}", n));
    }
}

// ------------------------------------------------------------------------------------------------
// case lists

fn layout(eco: u64, k: u64, nu: u64, nt: u64, np: u64, ls: u64, ch: u64, m: u64) -> Desc {
    Desc { fam: FAM_LAYOUT, p: [eco, k, nu, nt, np, ls, ch, m] }
}

enum Case {
    Grammar(Desc, usize),
    Lexer(usize),
    /// tie to the source text: tools/extract.py copied the guard conditions into Extracted.lean;
    /// the driver compares them with the shapes Model/Width.lean transcribes
    Shape,
}

fn run_shape_case(out: &mut Out) {
    let id = out.id();
    out.case("C20", id, "2");
    out.imp(id, "I", "shape ok");
    out.imp(id, "D", "guard conditions in grammar.rs/pager.rs/stategraph.rs/statetable.rs/lrlex parser.rs vs the shapes transcribed by Model/Width.lean");
    out.count("shape_check");
}

fn case_list(a: &Args) -> Vec<Case> {
    let mut v = Vec::new();
    // u8 boundaries, each dimension on its own: source counts 250..=258
    for n in 250..=258u64 {
        // rules: S + (n-1) fillers
        v.push(Case::Grammar(layout(0, 0, n - 1, 0, 0, 0, 1, 1), 3));
        // tokens: c0 + (n-1) declared
        v.push(Case::Grammar(layout(0, 0, 0, n - 1, 0, 0, 1, 1), 3));
        // productions: S (1) + P (n-1 alternatives); rules stay at 2
        v.push(Case::Grammar(layout(0, 0, 0, 0, n - 1, 0, 1, 1), 3));
        // symbols of one production (unreachable rule, so few states)
        v.push(Case::Grammar(layout(0, 0, 0, 0, 0, n, 1, 1), 3));
        // states: a chain of c symbols gives c + 2 states (measured, not assumed): 249..=257 states
        v.push(Case::Grammar(layout(0, 0, 0, 0, 0, 0, n - 3, 3), 3));
        // Eco with implicit tokens: two more rules, k + 2 more productions, doubled token symbols
        v.push(Case::Grammar(layout(1, 2, n - 4, 0, 0, 0, 1, 1), 3));
        v.push(Case::Grammar(layout(1, 1, 0, 0, n - 5, 0, 1, 1), 3));
        v.push(Case::Grammar(layout(1, 1, 0, 0, 0, n / 2, 1, 1), 3));
        v.push(Case::Grammar(layout(1, 1, 0, 0, 0, (n + 1) / 2, 1, 1), 3));
        v.push(Case::Grammar(layout(1, 3, 0, n - 5, 0, 0, 1, 1), 3));
        // Eco without implicit tokens behaves like the plain kind
        v.push(Case::Grammar(layout(1, 0, n - 1, 0, 0, 0, 1, 1), 3));
        // two long productions: the one that is longest in the source is not the one that is longest
        // after the Eco rewrite
        v.push(Case::Grammar(Desc { fam: FAM_TWOLONG, p: [1, 1, n / 2 + 4, n / 2, 0, 0, 0, 0] }, 3));
        v.push(Case::Grammar(Desc { fam: FAM_TWOLONG, p: [1, 2, n - 60, (n + 1) / 2, 0, 0, 0, 0] }, 3));
        v.push(Case::Grammar(Desc { fam: FAM_TWOLONG, p: [0, 0, n - 100, n, 0, 0, 0, 0] }, 3));
        // several dimensions at once
        v.push(Case::Grammar(layout(0, 0, n - 3, n - 1, 0, 0, 1, 1), 3));
        v.push(Case::Grammar(layout(0, 0, n - 3, n - 1, 0, n, 1, 1), 3));
        v.push(Case::Lexer(n as usize));
    }
    // u16 boundaries
    let u16_stages = if a.thorough { 3 } else { 1 };
    for n in 65533..=65537u64 {
        v.push(Case::Grammar(layout(0, 0, n - 1, 0, 0, 0, 1, 1), u16_stages));
        v.push(Case::Grammar(layout(0, 0, 0, n - 1, 0, 0, 1, 1), u16_stages));
        v.push(Case::Grammar(layout(0, 0, 0, 0, n - 1, 0, 1, 1), u16_stages));
        v.push(Case::Grammar(layout(0, 0, 0, 0, 0, n, 1, 1), u16_stages));
        v.push(Case::Grammar(layout(1, 2, n - 4, 0, 0, 0, 1, 1), u16_stages));
        v.push(Case::Grammar(layout(1, 1, 0, 0, 0, (n + 1) / 2, 1, 1), u16_stages));
        if a.thorough {
            v.push(Case::Grammar(layout(0, 0, 0, 0, 0, 0, n - 6, 29), 3));
            v.push(Case::Lexer(n as usize));
        }
    }
    // mid-range sanity (neither boundary)
    for n in [1u64, 2, 17, 100, 200, 300, 1000] {
        v.push(Case::Grammar(layout(0, 0, n, n, n, n, n.min(120), 5), 3));
        v.push(Case::Lexer(n as usize));
    }
    // random small grammars: the "same results" half
    let nrand = if a.thorough { 4000 } else { 500 };
    for c in 0..nrand {
        v.push(Case::Grammar(Desc { fam: FAM_RANDOM, p: [a.seed, c, 0, 0, 0, 0, 0, 0] }, 3));
    }
    // merge contexts: the states Pager merges must not depend on the width
    let nctx = if a.thorough { 400 } else { 40 };
    for c in 0..nctx {
        v.push(Case::Grammar(Desc { fam: FAM_CONTEXTS, p: [a.seed, c, 0, 0, 0, 0, 0, 0] }, 3));
    }
    // random layouts around the u8 boundary (several dimensions near the edge at once)
    let nlay = if a.thorough { 600 } else { 80 };
    for c in 0..nlay {
        let mut rng = Rng::for_case(a.seed, 2020, c);
        let near = |rng: &mut Rng| -> u64 {
            if rng.chance(1, 3) {
                rng.range(0, 6) as u64
            } else {
                rng.range(247, 258) as u64
            }
        };
        let eco = rng.chance(1, 3) as u64;
        let k = if eco == 1 { rng.range(0, 3) as u64 } else { 0 };
        let d = layout(eco, k, near(&mut rng), near(&mut rng), near(&mut rng), near(&mut rng), if rng.chance(1, 2) { near(&mut rng) } else { rng.range(0, 8) as u64 }, rng.range(1, 6) as u64);
        v.push(Case::Grammar(d, 3));
    }
    v
}

fn parse_request(p: &str) -> Option<Case> {
    let v: Vec<u64> = p.split_whitespace().map(|t| t.parse().ok()).collect::<Option<_>>()?;
    match *v.first()? {
        1 => Some(Case::Lexer(*v.get(1)? as usize)),
        2 => Some(Case::Shape),
        0 => {
            let fam = *v.get(1)?;
            let mut p8 = [0u64; 8];
            p8.copy_from_slice(v.get(2..10)?);
            // eco hasImpl k nrules ntokens nruns (3 each) stages ...
            let nruns = *v.get(15)? as usize;
            let stages = *v.get(16 + 3 * nruns)? as usize;
            Some(Case::Grammar(Desc { fam, p: p8 }, stages.clamp(1, 3)))
        }
        _ => None,
    }
}

static CT_FAIL: std::sync::Mutex<Option<String>> = std::sync::Mutex::new(None);

/// `CTParserBuilder` on a grammar with 300 tokens, in ONE process: 8-bit storage is refused (the documented
/// panic), and that refusal must leave the builder usable: the same grammar then builds with 16-bit storage,
/// and a small grammar with 8-bit storage. `None` = as the property demands.
fn ct_width_sequence(tmp: &std::path::Path) -> Option<String> {
    use lrpar::CTParserBuilder;
    let dir = tmp.join("c20ct");
    let _ = std::fs::remove_dir_all(&dir);
    std::fs::create_dir_all(&dir).ok()?;
    let names: Vec<String> = (0..300).map(|i| format!("'T{}'", i)).collect();
    let big = format!("%start S\n%%\nS: {};\n", names.join(" | "));
    let small = "%start S\n%%\nS: 'a' | S 'b';\n";
    let (gp, sp) = (dir.join("big.y"), dir.join("small.y"));
    std::fs::write(&gp, &big).ok()?;
    std::fs::write(&sp, small).ok()?;
    macro_rules! build {
        ($t:ty, $g:expr, $o:expr) => {
            guarded(AssertUnwindSafe(|| {
                CTParserBuilder::<DefaultLexerTypes<$t>>::new()
                    .yacckind(YaccKind::Original(YaccOriginalActionKind::NoAction))
                    .grammar_path($g)
                    .output_path($o)
                    .build()
                    .map(|_| ())
                    .map_err(|e| e.to_string())
            }))
        };
    }
    let r8: Result<Result<(), String>, String> = build!(u8, &gp, &dir.join("big8.rs"));
    let verdict = match &r8 {
        Err(m) if m.contains("big enough") => {
            let r16: Result<Result<(), String>, String> = build!(u16, &gp, &dir.join("big16.rs"));
            let s8: Result<Result<(), String>, String> = build!(u8, &sp, &dir.join("small8.rs"));
            match (r16, s8) {
                (Ok(Ok(())), Ok(Ok(()))) => None,
                (r16, s8) => Some(format!(
                    "ct-builder-after-refusal: after `CTParserBuilder` refused a 300-token grammar with 8-bit storage ({}), in the same process the 16-bit build of that grammar gives {:?} and the 8-bit build of a two-token grammar gives {:?}",
                    m, r16, s8
                )),
            }
        }
        other => Some(format!("ct-builder-refusal: `CTParserBuilder` with 8-bit storage on a grammar with 300 tokens gives {:?}, not the documented refusal", other)),
    };
    let _ = std::fs::remove_dir_all(&dir);
    verdict
}

pub fn run(a: &Args) {
    if a.extra.first().map(|s| s.as_str()) == Some("--dump-contexts") {
        let seed = a.extra.get(1).and_then(|x| x.parse().ok()).unwrap_or(1);
        let case = a.extra.get(2).and_then(|x| x.parse().ok()).unwrap_or(0);
        let g = gen_contexts(&[seed, case, 0, 0, 0, 0, 0, 0]);
        println!("{}", g.text);
        return;
    }
    // debugging aid: `vharness C20 --dump-random SEED CASE` prints the generated text and inputs
    if a.extra.first().map(|s| s.as_str()) == Some("--dump-random") {
        let seed = a.extra.get(1).and_then(|x| x.parse().ok()).unwrap_or(1);
        let case = a.extra.get(2).and_then(|x| x.parse().ok()).unwrap_or(0);
        let g = gen_random(&[seed, case, 0, 0, 0, 0, 0, 0]);
        println!("{}\ninputs: {:?}\nsrc: {:?} parse_ok {}", g.text, g.inputs, g.src, g.parse_ok);
        fn dbg<T>(g: &Gen)
        where
            T: 'static + PrimInt + Unsigned + Hash + Debug + TryFrom<usize>,
            usize: AsPrimitive<T>,
        {
            let grm = YaccGrammar::<T>::new_with_storaget(g.yk, &g.text).unwrap();
            let (_, st) = from_yacc(&grm, Minimiser::Pager).unwrap();
            for inp in &g.inputs {
                for rk in [RecoveryKind::None, RecoveryKind::CPCTPlus] {
                    println!("parsing {:?} with recovery={}", inp, !matches!(rk, RecoveryKind::None));
                    let t0 = std::time::Instant::now();
                    println!("  -> {} ({} ms)", parse_outcome(&grm, &st, inp, rk), t0.elapsed().as_millis());
                }
            }
        }
        match a.extra.get(3).map(|s| s.as_str()) {
            Some("8") => dbg::<u8>(&g),
            Some("16") => dbg::<u16>(&g),
            Some("32") => dbg::<u32>(&g),
            _ => {}
        }
        return;
    }
    let mut out = Out::new(&a.out);
    let cur = a.out.join("current_case.txt");
    // watchdog: a single case that runs for more than 25 minutes is a hang of the code under test;
    // the orchestrator reports the dead process together with current_case.txt
    let tick = std::sync::Arc::new(std::sync::atomic::AtomicU64::new(0));
    {
        let tick = tick.clone();
        std::thread::spawn(move || {
            let mut last = u64::MAX;
            let mut since = std::time::Instant::now();
            loop {
                std::thread::sleep(std::time::Duration::from_secs(5));
                let t = tick.load(std::sync::atomic::Ordering::Relaxed);
                if t != last {
                    last = t;
                    since = std::time::Instant::now();
                } else if since.elapsed().as_secs() > 900 {
                    eprintln!("C20 watchdog: case did not finish within 900 s");
                    std::process::exit(3);
                }
            }
        });
    }
    if a.replay.is_some() || a.shard == 0 {
        // the compile-time builder at two widths in one process (rides on the first grammar case)
        out.count("ct_builder_width_sequences");
        *CT_FAIL.lock().unwrap() = ct_width_sequence(&a.out);
    }
    if let Some(rp) = &a.replay {
        let txt = std::fs::read_to_string(rp).unwrap_or_default();
        for line in txt.lines() {
            let mut it = line.splitn(3, ' ');
            if it.next() != Some("C20") {
                continue;
            }
            let _ = it.next();
            match it.next().and_then(parse_request) {
                Some(Case::Grammar(d, stages)) => run_grammar_case(&mut out, &d, stages),
                Some(Case::Lexer(n)) => run_lexer_case(&mut out, n),
                Some(Case::Shape) => run_shape_case(&mut out),
                None => {}
            }
        }
        out.finish(&a.out);
        return;
    }
    // corpus first (cwd is the framework root): request lines of minimised past failures
    let mut cases: Vec<Case> = Vec::new();
    if let Ok(rd) = std::fs::read_dir("corpus/C20") {
        let mut files: Vec<_> = rd.filter_map(|e| e.ok()).map(|e| e.path()).filter(|p| p.extension().map(|x| x == "case").unwrap_or(false)).collect();
        files.sort();
        for f in files {
            for line in std::fs::read_to_string(&f).unwrap_or_default().lines() {
                let mut it = line.splitn(3, ' ');
                if it.next() != Some("C20") {
                    continue;
                }
                let _ = it.next();
                if let Some(c) = it.next().and_then(parse_request) {
                    cases.push(c);
                    if a.shard == 0 {
                        out.count("corpus_cases");
                    }
                }
            }
        }
    }
    cases.push(Case::Shape);
    cases.extend(case_list(a));
    for (i, c) in cases.into_iter().enumerate() {
        if i % a.shards.max(1) != a.shard {
            continue;
        }
        tick.fetch_add(1, std::sync::atomic::Ordering::Relaxed);
        match c {
            Case::Grammar(d, stages) => {
                let _ = std::fs::write(&cur, format!("C20 case in progress: {} stages={}\n", describe_desc(&d), stages));
                run_grammar_case(&mut out, &d, stages)
            }
            Case::Lexer(n) => {
                let _ = std::fs::write(&cur, format!("C20 case in progress: lexer with {} rules\n", n));
                run_lexer_case(&mut out, n)
            }
            Case::Shape => run_shape_case(&mut out),
        }
    }
    out.finish(&a.out);
}
