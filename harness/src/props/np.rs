//! End-to-end glue check through the `nimbleparse` binary (used by C04): the command-line tool is built
//! from the same tree, run on grammar/lexer/input files, and what it prints — the position of every
//! parse error, whether repair sequences were found and what their first steps are — is compared with
//! what the library API answers for the same sources and the same settings. The settings are given on
//! the command line (`-r`, `-y`) with and without a `%grmtools` section in the grammar that says
//! something else: the command line wins.
use crate::out::guarded;
use cfgrammar::yacc::{YaccGrammar, YaccKind, YaccOriginalActionKind};
use lrlex::{DefaultLexerTypes, LRNonStreamingLexerDef, LexerDef};
use lrpar::{LexParseError, Lexeme, NonStreamingLexer, ParseRepair, RTParserBuilder, RecoveryKind};
use lrtable::{from_yacc, Minimiser};
use std::path::{Path, PathBuf};
use std::process::Command;

type LT = DefaultLexerTypes<u32>;

const LEXER: &str = "%%\n[0-9]+ \"n\"\n\\+ \"+\"\n\\* \"*\"\n\\( \"(\"\n\\) \")\"\n[a-z]+ \"id\"\n; \";\"\n= \"=\"\n[ \\t\\n]+ ;\n";

/// (grammar body without header, inputs)
fn cases() -> Vec<(&'static str, Vec<&'static str>)> {
    vec![
        ("%start E\n%%\nE: E '+' T | T;\nT: T '*' F | F;\nF: '(' E ')' | 'n';\n", vec!["1 + + 2", "1 +\n+ 2", "1 1", "(1 + 2", "1 + 2 ) * 3\n+ * 4", "1 + 2", "\u{e9}"]),
        ("%start S\n%%\nS: | S A;\nA: 'id' '=' 'n' ';';\n", vec!["a = 1;\nb 2;\nc = 3;", "a = 1\nb = 2;", "a = ;", "= = =", "a = 1; b = 2;"]),
    ]
}

fn repo_of_manifest() -> String {
    let manifest = std::fs::read_to_string(Path::new(env!("CARGO_MANIFEST_DIR")).join("Cargo.toml")).unwrap_or_default();
    for line in manifest.lines() {
        if line.trim_start().starts_with("cfgrammar") {
            if let Some(i) = line.find("path = \"") {
                let rest = &line[i + 8..];
                if let Some(j) = rest.find("/cfgrammar\"") {
                    return rest[..j].to_string();
                }
            }
        }
    }
    "/repo".to_string()
}

/// build `nimbleparse` from the tree the harness is built against; the target directory lives beside the
/// harness's own (so the build is incremental between runs)
fn build_np() -> Result<PathBuf, String> {
    let repo = repo_of_manifest();
    let target = Path::new(env!("CARGO_MANIFEST_DIR")).join("target").join("np");
    let o = Command::new("cargo")
        .args(["build", "--release", "--offline", "-q", "--manifest-path"])
        .arg(format!("{}/nimbleparse/Cargo.toml", repo))
        .arg("--target-dir")
        .arg(&target)
        .env("CARGO_NET_OFFLINE", "true")
        .output()
        .map_err(|e| format!("cannot run cargo: {}", e))?;
    if !o.status.success() {
        return Err(format!("nimbleparse does not build: {}", String::from_utf8_lossy(&o.stderr).lines().last().unwrap_or("")));
    }
    let bin = target.join("release").join("nimbleparse");
    if bin.exists() {
        Ok(bin)
    } else {
        Err("nimbleparse binary not found after the build".to_string())
    }
}

/// what the library answers: per error (line, column, number of repair sequences, first step of each
/// sequence as `Insert`/`Delete`/`Shift`), or `LEX` for a lexing error
fn api_answer(y: &str, input: &str, rk: RecoveryKind) -> Result<Vec<String>, String> {
    let grm = YaccGrammar::<u32>::new(YaccKind::Original(YaccOriginalActionKind::NoAction), y).map_err(|e| format!("grammar: {:?}", e.iter().map(|x| x.to_string()).collect::<Vec<_>>()))?;
    let (_, st) = from_yacc(&grm, Minimiser::Pager).map_err(|e| format!("table: {}", e))?;
    let mut ld = LRNonStreamingLexerDef::<LT>::from_str(LEXER).map_err(|e| format!("lexer: {:?}", e.iter().map(|x| x.to_string()).collect::<Vec<_>>()))?;
    let ids: std::collections::HashMap<&str, u32> = grm.tokens_map().iter().map(|(k, v)| (*k, usize::from(*v) as u32)).collect();
    ld.set_rule_ids(&ids);
    let lexer = ld.lexer(input);
    let (_, errs) = RTParserBuilder::new(&grm, &st).recoverer(rk).parse_map(&lexer, &|_| (), &|_, _| ());
    let mut v = Vec::new();
    for e in errs {
        match e {
            LexParseError::LexError(_) => v.push("LEX".to_string()),
            LexParseError::ParseError(pe) => {
                let ((l, c), _) = lexer.line_col(pe.lexeme().span());
                let firsts: Vec<&str> = pe
                    .repairs()
                    .iter()
                    .map(|s| match s.first() {
                        Some(ParseRepair::Insert(_)) => "Insert",
                        Some(ParseRepair::Delete(_)) => "Delete",
                        Some(ParseRepair::Shift(_)) => "Shift",
                        None => "-",
                    })
                    .collect();
                v.push(format!("{}:{} {} [{}]", l, c, pe.repairs().len(), firsts.join(",")));
            }
        }
    }
    Ok(v)
}

/// the same from nimbleparse's output
fn np_answer(out: &str) -> Vec<String> {
    let mut v: Vec<String> = Vec::new();
    let mut cur: Option<(String, Vec<String>)> = None;
    let flush = |cur: &mut Option<(String, Vec<String>)>, v: &mut Vec<String>| {
        if let Some((pos, firsts)) = cur.take() {
            v.push(format!("{} {} [{}]", pos, firsts.len(), firsts.join(",")));
        }
    };
    for line in out.lines() {
        let t = line.trim();
        if let Some(rest) = t.strip_prefix("Parsing error at line ") {
            flush(&mut cur, &mut v);
            // `L column C. …`
            let mut it = rest.split(' ');
            let l = it.next().unwrap_or("?");
            let _ = it.next();
            let c = it.next().unwrap_or("?").trim_end_matches('.');
            cur = Some((format!("{}:{}", l, c), Vec::new()));
        } else if t.starts_with("Lexing error") {
            flush(&mut cur, &mut v);
            v.push("LEX".to_string());
        } else if let Some((_, firsts)) = cur.as_mut() {
            // `   1: Insert n, Shift +`
            if let Some((num, rest)) = t.split_once(": ") {
                if num.chars().all(|ch| ch.is_ascii_digit()) && !num.is_empty() {
                    firsts.push(rest.split(|ch| ch == ' ' || ch == ',').next().unwrap_or("-").to_string());
                }
            }
        }
    }
    flush(&mut cur, &mut v);
    v
}

/// `None`: the command-line tool and the library agree on every case; `Some(why)` otherwise
pub fn check(tmp: &Path) -> Option<String> {
    let bin = match build_np() {
        Ok(b) => b,
        Err(e) => return Some(format!("nimbleparse-end-to-end: {}", e)),
    };
    let dir = tmp.join("np");
    let _ = std::fs::remove_dir_all(&dir);
    if std::fs::create_dir_all(&dir).is_err() {
        return Some("nimbleparse-end-to-end: cannot create a scratch directory".to_string());
    }
    let lp = dir.join("l.l");
    let _ = std::fs::write(&lp, LEXER);
    let mut verdict = None;
    'all: for (gi, (body, inputs)) in cases().into_iter().enumerate() {
        // the grammar as it is, and with a %grmtools section that asks for the OTHER recoverer
        for (hi, header) in ["", "%grmtools{yacckind: Original(NoAction), recoverer: RecoveryKind::CPCTPlus}\n", "%grmtools{yacckind: Original(NoAction), recoverer: RecoveryKind::None}\n"].iter().enumerate() {
            let ytext = format!("{}{}", header, body);
            let yp = dir.join(format!("g{}_{}.y", gi, hi));
            let _ = std::fs::write(&yp, &ytext);
            for (ii, input) in inputs.iter().enumerate() {
                let ip = dir.join(format!("in{}_{}.txt", gi, ii));
                let _ = std::fs::write(&ip, input);
                for (flag, rk) in [("none", RecoveryKind::None), ("cpctplus", RecoveryKind::CPCTPlus)] {
                    // the header decides nothing here: `-r` is given; `-y` only when there is no header
                    let mut cmd = Command::new(&bin);
                    cmd.arg("-q").arg("-r").arg(flag);
                    if header.is_empty() {
                        cmd.arg("-y").arg("original");
                    }
                    cmd.arg(&lp).arg(&yp).arg(&ip);
                    let o = match cmd.output() {
                        Ok(o) => o,
                        Err(e) => {
                            verdict = Some(format!("nimbleparse-end-to-end: cannot run the binary: {}", e));
                            break 'all;
                        }
                    };
                    let text = format!("{}{}", String::from_utf8_lossy(&o.stdout), String::from_utf8_lossy(&o.stderr));
                    let got = np_answer(&text);
                    let want = match guarded(std::panic::AssertUnwindSafe(|| api_answer(body, input, rk))) {
                        Ok(Ok(w)) => w,
                        Ok(Err(e)) => {
                            verdict = Some(format!("nimbleparse-end-to-end: the library rejects the sources: {}", e));
                            break 'all;
                        }
                        Err(e) => {
                            verdict = Some(format!("nimbleparse-end-to-end: the library panics: {}", e));
                            break 'all;
                        }
                    };
                    // several input files: the tool names the files that parse and stops at the first that does
                    // not, reporting its errors as it does for one file and a failing exit status
                    if hi == 0 {
                        if let Some(good) = inputs.iter().position(|x| matches!(guarded(std::panic::AssertUnwindSafe(|| api_answer(body, x, rk))), Ok(Ok(ref v)) if v.is_empty())) {
                            let gp = dir.join(format!("in{}_{}.txt", gi, good));
                            let _ = std::fs::write(&gp, inputs[good]);
                            let mut cmd = Command::new(&bin);
                            cmd.arg("-q").arg("-r").arg(flag).arg("-y").arg("original").arg(&lp).arg(&yp).arg(&gp).arg(&ip);
                            if let Ok(o2) = cmd.output() {
                                let text2 = format!("{}{}", String::from_utf8_lossy(&o2.stdout), String::from_utf8_lossy(&o2.stderr));
                                let got2 = np_answer(&text2);
                                let named = |p: &Path| text2.contains(&format!("parsed: {}", p.display()));
                                let lexerr = want.iter().any(|x| x == "LEX");
                                let bad = if !named(&gp) {
                                    Some("does not name the first file, which parses, as parsed".to_string())
                                } else if want.is_empty() && (!named(&ip) || !o2.status.success() || ii == good && text2.matches("parsed: ").count() != 2) {
                                    Some("does not name the second file, which parses too, as parsed with a successful exit status".to_string())
                                } else if !want.is_empty() && (named(&ip) || o2.status.success()) {
                                    Some(format!("presents the second file as parsed (exit status {:?}); the library reports {:?} for it", o2.status.code(), want))
                                } else if !lexerr && got2 != want {
                                    Some(format!("reports {:?} for the second file; the library reports {:?}", got2, want))
                                } else {
                                    None
                                };
                                if let Some(why) = bad {
                                    verdict = Some(format!(
                                        "nimbleparse-end-to-end: `nimbleparse -r {} -y original` on grammar [{}] with the two input files {:?} and {:?} {}",
                                        flag,
                                        body.replace('\n', " ").trim(),
                                        inputs[good],
                                        input,
                                        why
                                    ));
                                    break 'all;
                                }
                            }
                        }
                    }
                    // a lexing error ends both; the tool prints it its own way: compare up to it
                    let cut = |v: &Vec<String>| -> Vec<String> { v.iter().take_while(|x| *x != "LEX").cloned().collect() };
                    if cut(&got) != cut(&want) || (want.is_empty() != !text.contains("error")) && !want.iter().any(|x| x == "LEX") {
                        verdict = Some(format!(
                            "nimbleparse-end-to-end: `nimbleparse -r {}{}` on grammar [{}]{} and input {:?} reports {:?}; the library with the same settings reports {:?}",
                            flag,
                            if header.is_empty() { " -y original" } else { "" },
                            body.replace('\n', " ").trim(),
                            if header.is_empty() { String::new() } else { format!(" with header [{}]", header.trim()) },
                            input,
                            got,
                            want
                        ));
                        break 'all;
                    }
                }
            }
        }
    }
    let _ = std::fs::remove_dir_all(&dir);
    verdict
}
