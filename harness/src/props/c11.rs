//! C11: a lexer definition is a faithful image of its `.l` source.
//!
//! Case kinds (the first request line of every case is a *descriptor* `0 <kind> …` from which the
//! case is re-run on `--replay`; corpus files are replay files):
//!   1 text   `0 1 <n cp…>`            a literal `.l` text: every span must spell what it names
//!   2 esc    `0 2 posix prefix hdr <n cp…>`  one written regex in a one-rule specification
//!   3 spec   `0 3 seed caseno`        generated abstract specification, rendered with random layout
//!   4 flags  `0 4 <hdr9> <bld9>`      flags of the %grmtools section x builder flags, observed by behaviour
//!   5 error  `0 5 seed caseno`        generated specification with one injected error
//!   6 class  `0 6 start count`        the white-space classes the parser splits on
//!   8 ctflags `0 8 <hdr9> <bld9>`     like 4, through the real CTLexerBuilder and the code it generates
//!   7 behaviour `0 7 len+1|0 <n cp…> <n cp…>`  a literal text, a sample, what its first rule must match
//!   9 wspec  `0 9 seed caseno`        generated specification with 1-4 random edits (lines duplicated,
//!                                     deleted, swapped, inserted from a menu of troublemakers; characters
//!                                     inserted/deleted): the whole result of the real parser
//!
//! Kinds 1, 2, 3, 5 and 9 also emit, for their text, the request `9 …` (see `whole`): the real
//! parser's WHOLE result (start states with ids/flags/spans, rules with ids, names, spans, start-state
//! ids, targets, re_str — or the error list with kinds and spans) as an `IW` line, compared with the
//! Lean model of the parse loops (`MW`, Model/LexSpecParse.lean) and its line specification (`SW`).
use crate::out::{guarded, plist, Out};
use crate::rng::Rng;
use crate::Args;
use cfgrammar::header::{GrmtoolsSectionParser, Header, HeaderValue, Value};
use cfgrammar::markmap::MergeBehavior;
use cfgrammar::{Location, Span, Spanned};
use lrlex::{
    DefaultLexerTypes, LRNonStreamingLexerDef, LexBuildError, LexFlags, LexerDef, StartState, StartStateOperation,
    DEFAULT_LEX_FLAGS,
};
use lrpar::{Lexeme, Lexer};
use regex::{Regex, RegexBuilder};
use std::panic::AssertUnwindSafe;

type Def = LRNonStreamingLexerDef<DefaultLexerTypes<u32>>;

/// boolean fields of `LexFlags` in declaration order (= `Extracted.LEX_FLAG_NAMES`)
const FLAGS: [&str; 9] = [
    "dot_matches_new_line",
    "multi_line",
    "octal",
    "posix_escapes",
    "allow_wholeline_comments",
    "case_insensitive",
    "swap_greed",
    "ignore_whitespace",
    "unicode",
];
const F_DOT: usize = 0;
const F_ML: usize = 1;
const F_OCTAL: usize = 2;
const F_POSIX: usize = 3;
const F_COMMENTS: usize = 4;
const F_CI: usize = 5;
const F_GREED: usize = 6;
const F_IWS: usize = 7;
const F_UNICODE: usize = 8;

type Fl = [Option<bool>; 9];
const UNSET: Fl = [None; 9];

fn defaults() -> Fl {
    let d = DEFAULT_LEX_FLAGS;
    [
        d.dot_matches_new_line,
        d.multi_line,
        d.octal,
        d.posix_escapes,
        d.allow_wholeline_comments,
        d.case_insensitive,
        d.swap_greed,
        d.ignore_whitespace,
        d.unicode,
    ]
}

/// defaults of the `regex` crate for the flags grmtools leaves alone, measured on the crate itself
fn regex_defaults() -> [bool; 9] {
    let m = |p: &str, s: &str| Regex::new(p).unwrap().find(s).map(|m| m.end());
    [
        m(r"\A.", "\n").is_some(),
        m(r"\Aa$", "a\nb").is_some(),
        RegexBuilder::new(r"\101").build().is_ok(),
        false, // posix_escapes and allow_wholeline_comments are grmtools' own; both have a default
        false,
        m(r"\Aa", "A").is_some(),
        m(r"\Aa+", "aaa") == Some(1),
        m(r"\Aa b", "ab").is_some(),
        m(r"\A\w", "\u{e9}").is_some(),
    ]
}

/// the generator's expectation of the flags in force
fn expected_flags(hdr: &Fl, bld: &Fl) -> [bool; 9] {
    let d = defaults();
    let r = regex_defaults();
    let mut o = [false; 9];
    for i in 0..9 {
        o[i] = bld[i].or(hdr[i]).or(d[i]).unwrap_or(r[i]);
    }
    o
}

fn fl_list(f: &Fl) -> String {
    let v: Vec<u32> = f.iter().map(|x| match x { Some(false) => 0, Some(true) => 1, None => 2 }).collect();
    plist(&v)
}

fn cps(s: &str) -> String {
    let v: Vec<u32> = s.chars().map(|c| c as u32).collect();
    plist(&v)
}

fn err_kind(e: &LexBuildError) -> String {
    let s = format!("{}", e);
    let k = match s.as_str() {
        "Verbatim code not supported" => "Verbatim",
        "File ends prematurely" => "PrematureEnd",
        "Routines not currently supported" => "Routines",
        "Unknown declaration" => "UnknownDeclaration",
        "Rule is missing a space" => "MissingSpace",
        "Invalid rule name" => "InvalidName",
        "Start state not known" => "UnknownStartState",
        "Start state already exists" => "DuplicateStartState",
        "Invalid start state" => "InvalidStartState",
        "Invalid start state name" => "InvalidStartStateName",
        "Rule name already exists" => "DuplicateName",
        x if x.starts_with("Invalid regular expression") => "RegexError",
        x if x.starts_with("In '%grmtools' section") => "Header",
        _ => "Other",
    };
    k.to_string()
}

fn err_desc(es: &[LexBuildError]) -> String {
    es.iter()
        .map(|e| format!("{}@{:?}", err_kind(e), e.spans().iter().map(|s| (s.start(), s.end())).collect::<Vec<_>>()))
        .collect::<Vec<_>>()
        .join(";")
}

/// The two ways a definition is obtained from a text. `bld = None`: `LexerDef::from_str`.
/// `bld = Some(flags)`: what `CTLexerBuilder::build` does with flags set through the builder — a
/// header with `MergeBehavior::Ours` holding the builder's values, `merge_from` the parsed section,
/// `LexFlags::try_from`, `new_with_options`.
fn build(src: &str, bld: Option<&Fl>) -> Result<Result<Def, Vec<LexBuildError>>, String> {
    guarded(AssertUnwindSafe(|| match bld {
        None => Def::from_str(src),
        Some(b) => {
            let mut header: Header<Location> = Header::new();
            header.set_default_merge_behavior(MergeBehavior::Ours);
            for i in 0..9 {
                if let Some(v) = b[i] {
                    header.insert(
                        FLAGS[i].to_string(),
                        HeaderValue(
                            Location::Other("CTLexerBuilder".to_string()),
                            Value::Flag(v, Location::Other("CTLexerBuilder".to_string())),
                        ),
                    );
                }
            }
            let (parsed, _) = match GrmtoolsSectionParser::new(src, false).parse() {
                Ok(x) => x,
                Err(mut es) => return Err(es.drain(..).map(LexBuildError::from).collect()),
            };
            if header.merge_from(parsed).is_err() {
                panic!("merge_from failed");
            }
            let flags = match LexFlags::try_from(&mut header) {
                Ok(f) => f,
                Err(_) => panic!("LexFlags::try_from failed"),
            };
            Def::new_with_options(src, flags)
        }
    }))
}

// ------------------------------------------------------------------------------------------------
// harness copy of the one-pass specification: used ONLY to ask the regex engine whether the text the
// specification denotes compiles; it is compared with the Lean `unescapeSpec` on every case (`rs`)

fn is_meta(c: char) -> bool {
    regex_syntax_meta(c)
}
fn regex_syntax_meta(c: char) -> bool {
    // behavioural: a character is a meta character iff regex::escape puts a backslash before it
    let mut b = [0u8; 4];
    regex::escape(c.encode_utf8(&mut b)).starts_with('\\')
}

fn esc_literal(s: &[char]) -> bool {
    let c = s[0];
    if "xuU".contains(c) {
        if let Some(d) = s.get(1) {
            if d.is_ascii_hexdigit() {
                return true;
            }
        }
    }
    c.is_ascii_digit() || "afnrtv\\pPdDsSwWAz".contains(c)
}

fn rust_spec(re: &[char], posix: bool) -> String {
    let mut o = String::new();
    let mut i = 0;
    while i < re.len() {
        if re[i] == '\\' && i + 1 < re.len() {
            let c = re[i + 1];
            if c == 'b' {
                o.push_str(if posix { "\\x08" } else { "\\b" });
            } else if is_meta(c) || esc_literal(&re[i + 1..]) {
                o.push('\\');
                o.push(c);
            } else {
                o.push(c);
            }
            i += 2;
        } else {
            o.push(re[i]);
            i += 1;
        }
    }
    o
}

fn builder_for(re: &str, fl: &[bool; 9], anchored: bool) -> Result<Regex, regex::Error> {
    let pat = if anchored { format!("\\A(?:{})", re) } else { re.to_string() };
    RegexBuilder::new(&pat)
        .octal(fl[F_OCTAL])
        .multi_line(fl[F_ML])
        .dot_matches_new_line(fl[F_DOT])
        .case_insensitive(fl[F_CI])
        .swap_greed(fl[F_GREED])
        .ignore_whitespace(fl[F_IWS])
        .unicode(fl[F_UNICODE])
        .build()
}

// ------------------------------------------------------------------------------------------------
// kind 1: literal text, self-consistency of every span

fn spans_consistent(src: &str, r: &Result<Def, Vec<LexBuildError>>) -> Vec<String> {
    let mut fails = Vec::new();
    match r {
        Ok(d) => {
            for (k, rule) in d.iter_rules().enumerate() {
                let sp = rule.name_span();
                match (rule.name(), src.get(sp.start()..sp.end())) {
                    (Some(n), Some(t)) if n == t => {}
                    (None, Some("")) => {}
                    (n, t) => fails.push(format!("rule {} name {:?}: span {}..{} of the source spells {:?}", k, n, sp.start(), sp.end(), t)),
                }
            }
            for st in d.iter_start_states().skip(1) {
                let sp = st.name_span();
                if src.get(sp.start()..sp.end()) != Some(st.name()) {
                    fails.push(format!("start state {:?}: span {}..{} of the source spells {:?}", st.name(), sp.start(), sp.end(), src.get(sp.start()..sp.end())));
                }
            }
        }
        Err(es) => {
            for e in es {
                let k = err_kind(e);
                let texts: Vec<Option<&str>> = e.spans().iter().map(|s| src.get(s.start()..s.end())).collect();
                if texts.iter().any(|t| t.is_none()) {
                    fails.push(format!("{} error: a span does not index the source: {:?}", k, e.spans()));
                } else if (k == "DuplicateName" || k == "DuplicateStartState") && (texts.len() < 2 || texts.iter().any(|t| *t != texts[0] || t.unwrap().is_empty())) {
                    fails.push(format!("{} error: the spans spell {:?}, not one repeated name", k, texts));
                }
            }
        }
    }
    fails
}

fn case_text(out: &mut Out, src: &str, tag: &str) {
    let id = out.id();
    out.case("C11", id, &format!("0 1 {}", cps(src)));
    out.imp(id, "D", &format!("kind=text {} src={:?}", tag, src));
    out.count("kind.text");
    let r = build(src, None);
    whole(out, id, src, None, &r);
    match r {
        Err(p) => out.imp(id, "H", &format!("fail panic in from_str: {}", p)),
        Ok(r) => {
            let f = spans_consistent(src, &r);
            if f.is_empty() {
                out.imp(id, "H", "ok");
            } else {
                out.imp(id, "H", &format!("fail {}", f[0]));
            }
        }
    }
}

// ------------------------------------------------------------------------------------------------
// kind 2: one written regex

fn case_esc(out: &mut Out, re: &str, posix: bool, prefix: bool, hdr: bool, tag: &str) {
    let id = out.id();
    out.case("C11", id, &format!("0 2 {} {} {} {}", posix as u8, prefix as u8, hdr as u8, cps(re)));
    let mut src = String::new();
    let mut bld = UNSET;
    if hdr {
        src.push_str(if posix { "%grmtools{posix_escapes}\n" } else { "%grmtools {\n}\n" });
    } else if posix {
        bld[F_POSIX] = Some(true);
    }
    if prefix {
        src.push_str("%x ST\n");
    }
    src.push_str("%%\n");
    let line_start = src.len();
    if prefix {
        src.push_str("<ST>");
    }
    src.push_str(re);
    src.push_str(" 'X'\n");
    let chars: Vec<char> = re.chars().collect();
    let spec = rust_spec(&chars, posix);
    let mut fl = expected_flags(&UNSET, &UNSET);
    fl[F_POSIX] = posix;
    let alone = builder_for(&spec, &fl, false).is_ok();
    let wrapped = builder_for(&spec, &fl, true).is_ok();
    let r = build(&src, if hdr || !posix { None } else { Some(&bld) });
    whole(out, id, &src, if hdr || !posix { None } else { Some(&bld) }, &r);
    // The text the specification denotes is asked of the regex engine on its own AND as the parser
    // embeds it (`\A(?:..)`). Texts like `a)b\` are not regular expressions but complete the
    // group: for that class (flagged below) the bit follows the implementation.
    let odd_class = wrapped && !alone;
    let impl_ok = matches!(&r, Ok(Ok(_)));
    let compiles = if odd_class { impl_ok } else { alone && wrapped };
    out.case("C11", id, &format!("1 {} {} {}", posix as u8, compiles as u8, cps(re)));
    let mut d = format!("kind=esc {} posix={} prefix={} hdr={} written={:?}", tag, posix, prefix, hdr, re);
    if odd_class {
        d.push_str(" class=accepted-only-inside-anchor-group");
        out.count("esc.class_only_inside_group");
    }
    out.imp(id, "D", &d);
    out.count("kind.esc");
    if prefix {
        out.count("esc.with_state_prefix");
    }
    if posix {
        out.count("esc.posix");
    }
    if re.chars().any(|c| c.len_utf8() > 1) {
        out.count("esc.multibyte");
    }
    if re.ends_with('\\') && !re.ends_with("\\\\") {
        out.count("esc.ends_in_backslash");
    }
    if !compiles {
        out.count("esc.not_compiling");
    }
    let ans = match &r {
        Err(p) => format!("PANIC {}", p.replace(' ', "_")),
        Ok(Ok(def)) => match def.iter_rules().next() {
            Some(rule) => format!("ok {}", cps(rule.re_str())),
            None => "norule".to_string(),
        },
        Ok(Err(es)) => {
            if es.len() == 1 && err_kind(&es[0]) == "RegexError" {
                "E".to_string()
            } else {
                format!("X{}", err_desc(es).replace(' ', ""))
            }
        }
    };
    out.imp(id, "I", &format!("re {} rs {}", ans, cps(&spec)));
    // a regex error must point at the rule
    if let Ok(Err(es)) = &r {
        if es.len() == 1 && err_kind(&es[0]) == "RegexError" {
            let sp = es[0].spans();
            if sp.len() != 1 || sp[0].start() != line_start {
                out.imp(id, "H", &format!("fail regex error reported at {:?}, the rule starts at byte {}", sp, line_start));
                return;
            }
        }
    }
    if let Ok(r) = &r {
        let f = spans_consistent(&src, r);
        if !f.is_empty() {
            out.imp(id, "H", &format!("fail {}", f[0]));
            return;
        }
    }
    if odd_class && impl_ok {
        if let Ok(Ok(def)) = &r {
            if def.iter_rules().next().map(|x| x.re_str() == spec).unwrap_or(false) {
                out.imp(id, "H", &format!("fail accepted-only-inside-anchor-group: {:?} is not a regular expression on its own ({}) but the rule is accepted because it completes the group it is embedded in", spec, builder_for(&spec, &fl, false).err().map(|e| e.to_string().lines().last().unwrap_or("").to_string()).unwrap_or_default()));
                return;
            }
        }
    }
    out.imp(id, "H", "ok");
}

// ------------------------------------------------------------------------------------------------
// kind 3: generated abstract specifications

#[derive(Clone, Debug)]
struct Atom {
    written: String,
    intended: String,
    samples: Vec<String>,
}

fn hexlit(c: char) -> String {
    format!("\\x{{{:x}}}", c as u32)
}

fn atom(rng: &mut Rng, fl: &[bool; 9], depth: usize) -> Atom {
    let lit = |c: char, w: String| Atom { written: w, intended: hexlit(c), samples: vec![c.to_string()] };
    let plain: Vec<char> = "abcxyz019_=:,@%!/\u{e9}\u{2764}\u{1F600}".chars().collect();
    let nonspecial: Vec<char> = "!\"'/<>,:;=@%_ \u{e9}\u{2764}\u{1F600}ceghijklmoqy".chars().collect();
    let metas: Vec<char> = "\\.+*?()|[]{}^$#&-~".chars().collect();
    let base = match rng.below(if depth == 0 { 13 } else { 11 }) {
        0 | 1 => {
            let c = *rng.pick(&plain);
            // a plain space or `#` would be layout / a comment to the regex engine under ignore_whitespace
            lit(c, c.to_string())
        }
        2 | 3 => {
            let c = *rng.pick(&nonspecial);
            lit(c, format!("\\{}", c))
        }
        4 => {
            let c = *rng.pick(&metas);
            lit(c, format!("\\{}", c))
        }
        5 => match rng.below(7) {
            0 => Atom { written: "\\n".into(), intended: "\\x{a}".into(), samples: vec!["\n".into()] },
            1 => Atom { written: "\\t".into(), intended: "\\x{9}".into(), samples: vec!["\t".into()] },
            2 => Atom { written: "\\x41".into(), intended: "\\x{41}".into(), samples: vec!["A".into()] },
            3 => Atom { written: "\\d".into(), intended: "\\d".into(), samples: vec!["7".into(), "0".into()] },
            4 => Atom { written: "\\w".into(), intended: "\\w".into(), samples: vec!["q".into(), "_".into(), "\u{e9}".into()] },
            5 => Atom { written: "\\u00e9".into(), intended: "\\x{e9}".into(), samples: vec!["\u{e9}".into()] },
            _ => {
                if fl[F_OCTAL] {
                    Atom { written: "\\101".into(), intended: "\\x{41}".into(), samples: vec!["A".into()] }
                } else {
                    Atom { written: "\\x2a".into(), intended: "\\x{2a}".into(), samples: vec!["*".into()] }
                }
            }
        },
        6 => match rng.below(5) {
            0 => Atom { written: "[a-c]".into(), intended: "[a-c]".into(), samples: vec!["a".into(), "c".into()] },
            1 => Atom { written: "[^a\\n]".into(), intended: "[^a\\x{a}]".into(), samples: vec!["b".into(), "\u{e9}".into(), " ".into()] },
            2 => Atom { written: "[\\<x\\\"]".into(), intended: "[<x\"]".into(), samples: vec!["<".into(), "x".into(), "\"".into()] },
            3 => Atom { written: "[\\]\\-z]".into(), intended: "[\\x{5d}\\x{2d}z]".into(), samples: vec!["]".into(), "-".into(), "z".into()] },
            _ => Atom { written: "[\u{e9}\\\u{2764}0-9]".into(), intended: "[\u{e9}\u{2764}0-9]".into(), samples: vec!["\u{e9}".into(), "\u{2764}".into(), "5".into()] },
        },
        7 => Atom { written: ".".into(), intended: ".".into(), samples: vec!["q".into(), "\n".into(), "\u{2764}".into()] },
        8 => {
            // `\b`: backspace under posix_escapes, a word boundary otherwise
            if fl[F_POSIX] {
                Atom { written: "\\b".into(), intended: "\\x{8}".into(), samples: vec!["\u{8}".into()] }
            } else {
                Atom { written: "\\b".into(), intended: "\\b".into(), samples: vec!["".into()] }
            }
        }
        9 => Atom { written: "\\\\".into(), intended: "\\x{5c}".into(), samples: vec!["\\".into()] },
        10 => {
            // a tab written after a backslash
            lit('\t', "\\\t".into())
        }
        _ => {
            let a = seq(rng, fl, depth + 1, 2);
            let b = seq(rng, fl, depth + 1, 2);
            let mut s = a.samples.clone();
            s.extend(b.samples.clone());
            Atom { written: format!("({}|{})", a.written, b.written), intended: format!("(?:{}|{})", a.intended, b.intended), samples: s }
        }
    };
    let unsafe_without_unicode = !base.written.is_ascii() || base.written.contains('.') || base.written.contains("[^") || base.written.contains("\\u");
    let base = if !fl[F_UNICODE] && unsafe_without_unicode {
        // with unicode disabled the engine refuses what could match part of a character
        lit('q', "q".to_string())
    } else {
        base
    };
    if base.written == "\\b" && !fl[F_POSIX] {
        // `\b{` starts the engine's `\b{start}` syntax, and assertions cannot be repeated
        return base;
    }
    match rng.below(8) {
        0 => Atom { written: format!("{}*", base.written), intended: format!("(?:{})*", base.intended), samples: vec!["".into(), base.samples[0].clone(), base.samples[0].repeat(3)] },
        1 => Atom { written: format!("{}+", base.written), intended: format!("(?:{})+", base.intended), samples: vec![base.samples[0].clone(), base.samples[0].repeat(2)] },
        2 => Atom { written: format!("{}?", base.written), intended: format!("(?:{})?", base.intended), samples: vec!["".into(), base.samples[0].clone()] },
        3 => Atom { written: format!("{}{{1,2}}", base.written), intended: format!("(?:{}){{1,2}}", base.intended), samples: vec![base.samples[0].clone(), base.samples[0].repeat(2)] },
        _ => base,
    }
}

fn seq(rng: &mut Rng, fl: &[bool; 9], depth: usize, maxlen: usize) -> Atom {
    let n = rng.range(1, maxlen);
    let atoms: Vec<Atom> = (0..n).map(|_| atom(rng, fl, depth)).collect();
    let mut samples = Vec::new();
    for _ in 0..3 {
        let mut s = String::new();
        for a in &atoms {
            let t: &String = rng.pick(&a.samples[..]);
            s.push_str(t);
        }
        samples.push(s);
    }
    Atom {
        written: atoms.iter().map(|a| a.written.clone()).collect(),
        intended: atoms.iter().map(|a| a.intended.clone()).collect(),
        samples,
    }
}

#[derive(Clone, Debug)]
struct RuleA {
    states: Vec<usize>, // indices into the declared list, 0 = INITIAL
    re: Atom,
    name: Option<String>,
    quote: char, // '\'' '"' or ';' for the `;` spelling of "no name"
    target: Option<(usize, u8)>,
    // filled by the renderer
    line_start: usize,
    line_end: usize,
    name_off: usize,
}

#[derive(Clone, Debug)]
struct StateA {
    name: String,
    exclusive: bool,
    off: usize,
}

#[derive(Clone, Debug)]
struct DeclA {
    line_start: usize,
    line_end: usize,
    exclusive: bool,
    first: usize, // index of the first state declared on the line
    count: usize,
}

struct SpecA {
    decls: Vec<DeclA>,
    hdr: Fl,
    bld: Option<Fl>,
    states: Vec<StateA>, // declared ones; INITIAL is implicit at id 0
    rules: Vec<RuleA>,
    text: String,
}

const STATE_NAMES: [&str; 8] = ["ST", "s1", "Str.ing", "a_b", "X", "comment", "Q9", "in.x_y"];
const RULE_NAMES: [&str; 14] = ["ID", "X", "int", "a+b", "\u{e9}t\u{e9}", "\u{2764}", "k_w", "x\"y", "x'y", "<", ">", "if", "T1", "A.B"];

fn render_header(rng: &mut Rng, hdr: &Fl, force: bool) -> String {
    let set: Vec<usize> = (0..9).filter(|i| hdr[*i].is_some()).collect();
    if set.is_empty() && !force {
        return String::new();
    }
    let ws = |rng: &mut Rng| -> String { (*rng.pick(&["", " ", "\n", "  ", "\n\t", " \n "])).to_string() };
    let mut s = String::new();
    s.push_str(&ws(rng));
    s.push_str("%grmtools");
    s.push_str(&ws(rng));
    s.push('{');
    s.push_str(&ws(rng));
    let mut order = set.clone();
    for i in (1..order.len()).rev() {
        let j = rng.below(i + 1);
        order.swap(i, j);
    }
    for (k, i) in order.iter().enumerate() {
        let mut key = FLAGS[*i].to_string();
        if rng.chance(1, 4) {
            key = key.to_uppercase();
        }
        if hdr[*i] == Some(false) {
            s.push('!');
        }
        s.push_str(&key);
        s.push_str(&ws(rng));
        if k + 1 < order.len() || rng.chance(1, 3) {
            s.push(',');
            s.push_str(&ws(rng));
        }
    }
    s.push('}');
    s
}

fn nl(rng: &mut Rng) -> &'static str {
    *rng.pick(&["\n", "\n", "\n", "\r\n", "\n\n", "\n\u{b}\n", "\u{2028}", "\n \n", "\n\t\u{c}\n"])
}

/// between rule lines: only line separators (a line of blanks is "verbatim code" to the parser)
fn rnl(rng: &mut Rng) -> &'static str {
    *rng.pick(&["\n", "\n", "\n", "\r\n", "\n\n", "\n\u{b}\n", "\u{2028}", "\u{2029}\n"])
}

fn hspace(rng: &mut Rng) -> String {
    (*rng.pick(&[" ", " ", "\t", "  ", " \t", "\t\t ", "   "])).to_string()
}

fn gen_spec(rng: &mut Rng, allow_iws: bool) -> SpecA {
    // flags
    let mut hdr = UNSET;
    let mut bld: Option<Fl> = None;
    let with_hdr = rng.chance(3, 5);
    if with_hdr {
        for i in 0..9 {
            if (i != F_IWS || allow_iws) && rng.chance(1, 4) {
                hdr[i] = Some(rng.chance(1, 2));
            }
        }
    }
    if rng.chance(1, 3) {
        let mut b = UNSET;
        for i in 0..9 {
            if (i != F_IWS || allow_iws) && rng.chance(1, 4) {
                b[i] = Some(rng.chance(1, 2));
            }
        }
        bld = Some(b);
    }
    let fl = expected_flags(&hdr, &bld.unwrap_or(UNSET));
    let comments = fl[F_COMMENTS];
    let mut text = String::new();
    text.push_str(&render_header(rng, &hdr, with_hdr));
    if with_hdr {
        text.push_str(nl(rng));
    } else if rng.chance(1, 3) {
        text.push_str(nl(rng));
    }
    // declarations
    let nstates = rng.below(4);
    let mut names: Vec<&str> = STATE_NAMES.to_vec();
    let mut states = Vec::new();
    let mut decls = Vec::new();
    let mut k = 0;
    while k < nstates {
        if comments && rng.chance(1, 3) {
            text.push_str("// a comment ' \" <x>");
            text.push_str(nl(rng));
        }
        let exclusive = rng.chance(1, 2);
        let kw = if exclusive { *rng.pick(&["%x", "%X", "%xstate", "%x1"]) } else { *rng.pick(&["%s", "%S", "%start", "%s2"]) };
        let decl_start = text.len();
        let first = states.len();
        text.push_str(kw);
        let on_line = rng.range(1, nstates - k);
        for _ in 0..on_line {
            text.push_str(*rng.pick(&[" ", "\t", " ", "\u{c}", "  ", " \t"]));
            let i = rng.below(names.len());
            let n = names.remove(i);
            states.push(StateA { name: n.to_string(), exclusive, off: text.len() });
            text.push_str(n);
            k += 1;
        }
        if rng.chance(1, 4) {
            text.push_str(&hspace(rng));
        }
        decls.push(DeclA { line_start: decl_start, line_end: text.len(), exclusive, first, count: on_line });
        text.push_str(nl(rng));
    }
    if comments && rng.chance(1, 3) {
        text.push_str("//%% not the separator");
        text.push_str(nl(rng));
    }
    text.push_str("%%");
    if rng.chance(1, 4) {
        text.push_str(&hspace(rng));
    }
    text.push_str(rnl(rng));
    // rules
    let nrules = rng.range(1, 6);
    let mut rnames: Vec<&str> = RULE_NAMES.to_vec();
    let mut rules = Vec::new();
    for _ in 0..nrules {
        if comments && rng.chance(1, 4) {
            text.push_str("// \"comment\" 'not a rule'");
            text.push_str(rnl(rng));
        }
        let mut st = Vec::new();
        if rng.chance(2, 5) {
            let n = rng.range(1, 2);
            for _ in 0..n {
                let s = rng.below(states.len() + 1);
                if !st.contains(&s) {
                    st.push(s);
                }
            }
        }
        let mut re = seq(rng, &fl, 0, 4);
        // a rule must not look like a comment, a section separator, or start with a state list
        if re.written.starts_with('<') || re.written.starts_with("%%") || (comments && re.written.starts_with("//")) {
            re.written = format!("(){}", re.written);
            re.intended = format!("(?:){}", re.intended);
        }
        let skip = rng.chance(1, 4);
        let (name, quote) = if skip {
            (None, *rng.pick(&['\'', '"', ';']))
        } else {
            let i = rng.below(rnames.len());
            let n = rnames.remove(i);
            let q = if n.contains('\'') { '"' } else if n.contains('"') { '\'' } else { *rng.pick(&['\'', '"']) };
            (Some(n.to_string()), q)
        };
        let target = if rng.chance(1, 3) { Some((rng.below(states.len() + 1), rng.below(3) as u8)) } else { None };
        let line_start = text.len();
        if !st.is_empty() {
            text.push('<');
            for (j, s) in st.iter().enumerate() {
                if j > 0 {
                    text.push(',');
                }
                if rng.chance(1, 5) {
                    text.push(' ');
                }
                text.push_str(if *s == 0 { "INITIAL" } else { &states[*s - 1].name });
                if rng.chance(1, 6) {
                    text.push('\t');
                }
            }
            text.push('>');
        }
        text.push_str(&re.written);
        text.push_str(&hspace(rng));
        if let Some((s, op)) = target {
            text.push('<');
            text.push_str(["", "+", "-"][op as usize]);
            text.push_str(if s == 0 { "INITIAL" } else { &states[s - 1].name });
            text.push('>');
        }
        let name_off;
        match &name {
            None => {
                name_off = text.len();
                text.push_str(match quote { ';' => ";", '"' => "\"\"", _ => "''" });
            }
            Some(n) => {
                text.push(quote);
                name_off = text.len();
                text.push_str(n);
                text.push(quote);
            }
        }
        if rng.chance(1, 4) {
            text.push_str(*rng.pick(&[" ", "\t", " \u{c}", "\u{85}", "  "]));
        }
        let line_end = text.len();
        rules.push(RuleA { states: st, re, name, quote, target, line_start, line_end, name_off });
        text.push_str(rnl(rng));
    }
    match rng.below(4) {
        0 => text.push_str("%%\n"),
        1 => text.push_str("%%"),
        _ => {}
    }
    SpecA { decls, hdr, bld, states, rules, text }
}

fn op_code(op: &StartStateOperation) -> u8 {
    match op {
        StartStateOperation::ReplaceStack => 0,
        StartStateOperation::Push => 1,
        StartStateOperation::Pop => 2,
    }
}

/// length of the longest match of parsed rule `k` at the start of `s`, observed through the lexer
#[allow(deprecated)]
fn impl_match_len(def: &Def, k: usize, s: &str) -> Option<usize> {
    let mut r = def.get_rule(k).unwrap().clone();
    r.name = Some("x".to_string());
    r.start_states = vec![];
    r.target_state = None;
    let one = Def::from_rules(vec![StartState::new(0, "INITIAL", false, Span::new(0, 0))], vec![r]);
    let lx = one.lexer(s);
    let first = {
        let mut it = lx.iter();
        let f = it.next();
        drop(it);
        f
    };
    let res = match first {
        Some(Ok(l)) => Some(l.span().len()),
        _ => None,
    };
    drop(lx);
    res
}

fn mutate(rng: &mut Rng, s: &str) -> String {
    let mut v: Vec<char> = s.chars().collect();
    let alpha: Vec<char> = "aAbcxXzZ0 9\n\t\u{8}!<\\.\u{e9}\u{c9}\u{2764}*]-".chars().collect();
    match rng.below(4) {
        0 if !v.is_empty() => {
            let i = rng.below(v.len());
            v.remove(i);
        }
        1 => {
            let i = rng.below(v.len() + 1);
            v.insert(i, *rng.pick(&alpha));
        }
        2 if !v.is_empty() => {
            let i = rng.below(v.len());
            v[i] = *rng.pick(&alpha);
        }
        _ => {
            // flip the case
            v = v.iter().map(|c| if c.is_lowercase() { c.to_uppercase().next().unwrap() } else { c.to_lowercase().next().unwrap() }).collect();
        }
    }
    v.into_iter().collect()
}

fn case_spec(out: &mut Out, seed: u64, caseno: u64) {
    let mut rng = Rng::for_case(seed, 11, caseno);
    let sp = gen_spec(&mut rng, caseno % 5 == 4);
    let id = out.id();
    out.case("C11", id, &format!("0 3 {} {}", seed, caseno));
    let bldf = sp.bld.unwrap_or(UNSET);
    let fl = expected_flags(&sp.hdr, &bldf);
    out.imp(id, "D", &format!("kind=spec seed={} case={} builder={:?} src={:?}", seed, caseno, sp.bld.map(|b| fl_list(&b)), sp.text));
    out.count("kind.spec");
    out.count(&format!("spec.rules.{}", sp.rules.len()));
    out.count(&format!("spec.states.{}", sp.states.len()));
    if sp.text.contains("%grmtools") {
        out.count("spec.with_grmtools_section");
    }
    if sp.bld.is_some() {
        out.count("spec.with_builder_flags");
    }
    if fl[F_IWS] {
        out.count("spec.ignore_whitespace_in_force");
    }
    if fl[F_COMMENTS] && sp.text.contains("//") {
        out.count("spec.with_comments");
    }
    if out.next_id % 53 == 1 {
        out.sample(format!("{:?}", sp.text));
    }
    let mut fails: Vec<String> = Vec::new();
    let mut known_class: Vec<String> = Vec::new();
    let r = build(&sp.text, sp.bld.as_ref());
    whole(out, id, &sp.text, sp.bld.as_ref(), &r);
    let def = match r {
        Err(p) => {
            out.imp(id, "H", &format!("fail panic while parsing a valid specification: {}", p));
            return;
        }
        Ok(Err(es)) => {
            let blank = sp.rules.iter().any(|r| r.re.written.contains("\\ ") || r.re.written.contains("\\\t"));
            if fl[F_IWS] && blank && es.len() == 1 && err_kind(&es[0]) == "RegexError" {
                out.imp(id, "H", &format!("fail class=escaped-blank-under-ignore-whitespace valid specification rejected: {}", err_desc(&es)));
            } else {
                out.imp(id, "H", &format!("fail valid specification rejected: {}", err_desc(&es)));
            }
            return;
        }
        Ok(Ok(d)) => d,
    };
    let src = sp.text.as_str();
    // start states
    let got: Vec<&StartState> = def.iter_start_states().collect();
    if got.len() != sp.states.len() + 1 || got[0].name() != "INITIAL" {
        fails.push(format!("start states {:?}, declared {:?}", got.iter().map(|s| s.name()).collect::<Vec<_>>(), sp.states.iter().map(|s| &s.name).collect::<Vec<_>>()));
    } else {
        for (g, e) in got.iter().skip(1).zip(&sp.states) {
            let span = g.name_span();
            // `exclusive` is not readable from outside the crate; its Debug rendering is
            let excl = format!("{:?}", g).contains("exclusive: true");
            if g.name() != e.name || excl != e.exclusive {
                fails.push(format!("start state {:?} exclusive={} but declared {:?} exclusive={}", g.name(), excl, e.name, e.exclusive));
            }
            if (span.start(), span.end()) != (e.off, e.off + e.name.len()) {
                fails.push(format!("start state {:?}: span {}..{} spells {:?}; it is declared at {}..{}", e.name, span.start(), span.end(), src.get(span.start()..span.end()), e.off, e.off + e.name.len()));
            }
        }
    }
    // every declaration line against the Lean model / specification
    if got.len() == sp.states.len() + 1 {
        for d in &sp.decls {
            let line = &src[d.line_start..d.line_end];
            out.case("C11", id, &format!("5 {}", cps(line)));
            let mut parts = vec![format!("d {} {}", d.exclusive as u8, d.count)];
            for g in got.iter().skip(1 + d.first).take(d.count) {
                let span = g.name_span();
                parts.push(format!("{} {} {}", cps(g.name()), span.start() as i64 - d.line_start as i64, span.end() as i64 - d.line_start as i64));
            }
            out.imp(id, "I", &parts.join(" "));
            out.count("spec.decl_lines");
        }
    }
    let state_name = |i: usize| -> String { if i == 0 { "INITIAL".to_string() } else { sp.states[i - 1].name.clone() } };
    let id_name = |sid: usize| -> String { got.iter().enumerate().find(|(k, _)| *k == sid).map(|(_, s)| s.name().to_string()).unwrap_or(format!("?{}", sid)) };
    // rules
    let rules: Vec<_> = def.iter_rules().collect();
    if rules.len() != sp.rules.len() {
        fails.push(format!("{} rules parsed, {} written", rules.len(), sp.rules.len()));
    } else {
        for (k, (g, e)) in rules.iter().zip(&sp.rules).enumerate() {
            if g.name() != e.name.as_deref() {
                fails.push(format!("rule {}: name {:?}, written {:?}", k, g.name(), e.name));
            }
            let span = g.name_span();
            match &e.name {
                Some(n) => {
                    if (span.start(), span.end()) != (e.name_off, e.name_off + n.len()) {
                        fails.push(format!("rule {} {:?}: name span {}..{} spells {:?}; the name is written at {}..{}", k, n, span.start(), span.end(), src.get(span.start()..span.end()), e.name_off, e.name_off + n.len()));
                    }
                }
                None => {
                    if span.start() != span.end() || span.start() < e.line_start || span.end() > e.line_end {
                        fails.push(format!("rule {} (no name): span {}..{} is not an empty span inside its line {}..{}", k, span.start(), span.end(), e.line_start, e.line_end));
                    }
                }
            }
            let gs: Vec<String> = g.start_states().iter().map(|s| id_name(*s)).collect();
            let es: Vec<String> = e.states.iter().map(|s| state_name(*s)).collect();
            if gs != es {
                fails.push(format!("rule {}: start states {:?}, written {:?}", k, gs, es));
            }
            let gt = g.target_state().map(|(s, op)| (id_name(s), op_code(&op)));
            let et = e.target.map(|(s, op)| (state_name(s), op));
            if gt != et {
                fails.push(format!("rule {}: target {:?}, written {:?}", k, gt, et));
            }
            if g.tok_id() != Some(k as u32) {
                fails.push(format!("rule {}: token id {:?}", k, g.tok_id()));
            }
            // meaning of the regular expression, with the flags that should be in force
            match builder_for(&e.re.intended, &fl, true) {
                Err(err) => fails.push(format!("generator: intended regex {:?} does not compile: {}", e.re.intended, err)),
                Ok(reference) => {
                    let mut samples = e.re.samples.clone();
                    for s in e.re.samples.clone() {
                        samples.push(mutate(&mut rng, &s));
                        samples.push(format!("{}{}", s, rng.pick(&["a", "\n", "A", " ", "\u{e9}"])));
                    }
                    for s in samples {
                        let want = reference.find(&s).map(|m| m.end()).filter(|l| *l > 0);
                        let gotl = impl_match_len(&def, k, &s);
                        out.add("spec.regex_samples", 1);
                        if want.is_some() {
                            out.add("spec.regex_samples_matching", 1);
                        }
                        if want != gotl && fl[F_IWS] && (e.re.written.contains("\\ ") || e.re.written.contains("\\\t")) {
                            // known class, reported only if nothing else is wrong with this case
                            known_class.push(format!("class=escaped-blank-under-ignore-whitespace rule {}: written {:?} (re_str {:?}) matches {:?} of {:?}, the regex it denotes ({:?}) matches {:?}", k, e.re.written, g.re_str(), gotl, s, e.re.intended, want));
                            break;
                        }
                        if want != gotl {
                            fails.push(format!("rule {}: written {:?} (re_str {:?}) matches {:?} of {:?}, the regex it denotes ({:?}, flags {:?}) matches {:?}", k, e.re.written, g.re_str(), gotl, s, e.re.intended, fl, want));
                            break;
                        }
                    }
                }
            }
            // the rule line against the Lean model / specification
            let line = &src[e.line_start..e.line_end];
            out.case("C11", id, &format!("2 {} 1 {}", fl[F_POSIX] as u8, cps(line)));
            let rel = |x: usize| -> i64 { x as i64 - e.line_start as i64 };
            let st: Vec<String> = std::iter::once(gs.len().to_string()).chain(gs.iter().map(|n| cps(n))).collect();
            let tgt = match &gt { None => "N".to_string(), Some((n, op)) => format!("{} {}", op, cps(n)) };
            let name = match g.name() { None => "N".to_string(), Some(n) => cps(n) };
            out.imp(id, "I", &format!("st {} re {} tgt {} name {} span {} {}", st.join(" "), cps(g.re_str()), tgt, name, rel(span.start()), rel(span.end())));
            if !e.states.is_empty() {
                out.count("spec.rule.with_start_states");
            }
            if e.target.is_some() {
                out.count("spec.rule.with_target");
            }
            if e.name.is_none() {
                out.count("spec.rule.skip");
            }
            if e.quote == '"' {
                out.count("spec.rule.double_quoted");
            }
            if e.re.written.contains('\\') {
                out.count("spec.rule.with_escape");
            }
        }
    }
    if !fails.is_empty() {
        out.imp(id, "H", &format!("fail {}", fails[0]));
    } else if !known_class.is_empty() {
        out.imp(id, "H", &format!("fail {}", known_class[0]));
    } else {
        out.imp(id, "H", "ok");
    }
}

// ------------------------------------------------------------------------------------------------
// whole specification: the real parser's whole result against the Lean model of the parse loops

fn is_pws(c: char) -> bool {
    matches!(c as u32, 9..=13 | 32 | 0x85 | 0x200E | 0x200F | 0x2028 | 0x2029)
}
fn is_line_sep(c: char) -> bool {
    matches!(c as u32, 10 | 11 | 13 | 0x2028 | 0x2029)
}

/// harness copy of where the line specification finds the regular expression of a rule line and
/// what it rewrites it to; used ONLY to ask the regex engine which of the texts the model may look
/// up do not compile (a text the model looks up and that is wrongly listed, or wrongly missing,
/// shows as a disagreement of `IW` and `MW`)
fn line_re(line: &str, posix: bool) -> Option<String> {
    let l = line.trim_end_matches(is_pws);
    let rspace = l.rfind(|c| c == ' ' || c == '\t')?;
    let before = &l[..rspace];
    let trimmed = before.trim_end_matches(is_pws);
    let t = if trimmed.len() == before.len() {
        before
    } else if trimmed.chars().rev().take_while(|&c| c == '\\').count() % 2 == 1 {
        let n = before[trimmed.len()..].chars().next().unwrap().len_utf8();
        &before[..trimmed.len() + n]
    } else {
        trimmed
    };
    let re = if t.starts_with('<') {
        match t.find('>') {
            Some(j) => &t[j + 1..],
            None => return None,
        }
    } else {
        t
    };
    let chars: Vec<char> = re.chars().collect();
    Some(rust_spec(&chars, posix))
}

/// the flags `from_str` / the builder's merge hand to the parser (defaults filled in as
/// `new_with_lex_flags` does) and the offset at which the real `%grmtools` parser stops
fn flags_for(src: &str, bld: Option<&Fl>) -> Option<(LexFlags, usize)> {
    let r = guarded(AssertUnwindSafe(|| -> Option<(LexFlags, usize)> {
        let (mut parsed, pos) = GrmtoolsSectionParser::new(src, false).parse().ok()?;
        let mut f = match bld {
            None => LexFlags::try_from(&mut parsed).ok()?,
            Some(b) => {
                let mut header: Header<Location> = Header::new();
                header.set_default_merge_behavior(MergeBehavior::Ours);
                for i in 0..9 {
                    if let Some(v) = b[i] {
                        header.insert(
                            FLAGS[i].to_string(),
                            HeaderValue(
                                Location::Other("CTLexerBuilder".to_string()),
                                Value::Flag(v, Location::Other("CTLexerBuilder".to_string())),
                            ),
                        );
                    }
                }
                header.merge_from(parsed).ok()?;
                LexFlags::try_from(&mut header).ok()?
            }
        };
        let d = DEFAULT_LEX_FLAGS;
        f.octal = f.octal.or(d.octal);
        f.multi_line = f.multi_line.or(d.multi_line);
        f.dot_matches_new_line = f.dot_matches_new_line.or(d.dot_matches_new_line);
        f.posix_escapes = f.posix_escapes.or(d.posix_escapes);
        f.allow_wholeline_comments = f.allow_wholeline_comments.or(d.allow_wholeline_comments);
        f.case_insensitive = f.case_insensitive.or(d.case_insensitive);
        f.ignore_whitespace = f.ignore_whitespace.or(d.ignore_whitespace);
        f.swap_greed = f.swap_greed.or(d.swap_greed);
        f.unicode = f.unicode.or(d.unicode);
        f.size_limit = f.size_limit.or(d.size_limit);
        f.dfa_size_limit = f.dfa_size_limit.or(d.dfa_size_limit);
        f.nest_limit = f.nest_limit.or(d.nest_limit);
        Some((f, pos))
    }));
    r.ok().flatten()
}

/// does the regex engine accept `re` compiled the way `Rule::new` compiles it
fn compiles_as_rule(re: &str, f: &LexFlags) -> bool {
    let mut b = RegexBuilder::new(&format!("\\A(?:{})", re));
    b.octal(f.octal.unwrap_or(false))
        .multi_line(f.multi_line.unwrap_or(false))
        .dot_matches_new_line(f.dot_matches_new_line.unwrap_or(false));
    if let Some(x) = f.ignore_whitespace {
        b.ignore_whitespace(x);
    }
    if let Some(x) = f.unicode {
        b.unicode(x);
    }
    if let Some(x) = f.case_insensitive {
        b.case_insensitive(x);
    }
    if let Some(x) = f.swap_greed {
        b.swap_greed(x);
    }
    if let Some(x) = f.size_limit {
        b.size_limit(x);
    }
    if let Some(x) = f.dfa_size_limit {
        b.dfa_size_limit(x);
    }
    if let Some(x) = f.nest_limit {
        b.nest_limit(x);
    }
    b.build().is_ok()
}

fn debug_field(dbg: &str, key: &str) -> Option<String> {
    let at = dbg.find(key)? + key.len();
    let rest = &dbg[at..];
    let end = rest.find(|c: char| c == ',' || c == ' ' || c == '}').unwrap_or(rest.len());
    Some(rest[..end].to_string())
}

/// the whole result in the format of the driver's `MW`/`SW` reply; `None` = not comparable (an error
/// that is not the lex parser's)
fn fmt_whole(r: &Result<Result<Def, Vec<LexBuildError>>, String>) -> Option<String> {
    match r {
        Err(_) => Some("P".to_string()),
        Ok(Err(es)) => {
            let mut parts = vec![format!("err {}", es.len())];
            for e in es {
                let k = err_kind(e);
                if k == "Header" || k == "Other" {
                    return None;
                }
                parts.push(format!("{} {}", k, e.spans().len()));
                for sp in e.spans() {
                    parts.push(format!("{} {}", sp.start(), sp.end()));
                }
            }
            Some(parts.join(" "))
        }
        Ok(Ok(def)) => {
            let sts: Vec<&StartState> = def.iter_start_states().collect();
            let mut parts = vec![format!("ok S {}", sts.len())];
            for s in &sts {
                // `id` and `exclusive` are not readable from outside the crate; the Debug rendering is
                // (it starts `StartState { id: N, name: ..`; names cannot contain blanks)
                let dbg = format!("{:?}", s);
                let id = debug_field(&dbg, "{ id: ").unwrap_or_else(|| "?".to_string());
                let excl = dbg.ends_with("exclusive: true }");
                let sp = s.name_span();
                parts.push(format!("{} {} {} {} {}", id, excl as u8, sp.start(), sp.end(), cps(s.name())));
            }
            let rules: Vec<_> = def.iter_rules().collect();
            parts.push(format!("R {}", rules.len()));
            for r in rules {
                let sp = r.name_span();
                let tok = r.tok_id().map(|t| t.to_string()).unwrap_or_else(|| "N".to_string());
                let name = match r.name() { None => "N".to_string(), Some(n) => cps(n) };
                let st: Vec<String> = r.start_states().iter().map(|x| x.to_string()).collect();
                let mut item = format!("{} {} {} {} {}", tok, name, sp.start(), sp.end(), st.len());
                for x in st {
                    item.push(' ');
                    item.push_str(&x);
                }
                match r.target_state() {
                    None => item.push_str(" N"),
                    Some((sid, op)) => item.push_str(&format!(" {} {}", sid, op_code(&op))),
                }
                item.push(' ');
                item.push_str(&cps(r.re_str()));
                parts.push(item);
            }
            Some(parts.join(" "))
        }
    }
}

/// request `9 …` + `IW` line for the text `src` whose real result is `r`
fn whole(out: &mut Out, id: u64, src: &str, bld: Option<&Fl>, r: &Result<Result<Def, Vec<LexBuildError>>, String>) {
    let (flags, pos) = match flags_for(src, bld) {
        Some(x) => x,
        None => {
            out.count("whole.skipped_header_error");
            return;
        }
    };
    let ans = match fmt_whole(r) {
        Some(a) => a,
        None => {
            out.count("whole.skipped_foreign_error");
            return;
        }
    };
    let posix = flags.posix_escapes == Some(true);
    let comments = flags.allow_wholeline_comments.unwrap_or(false);
    // every line of the text after the section (and what follows `%%` on a line): the re_str the
    // line specification would hand to the regex engine, if it is refused
    let mut bad: Vec<String> = Vec::new();
    if let Some(body) = src.get(pos..) {
        for line in body.split(is_line_sep) {
            let mut cands = vec![line];
            let t = line.trim_start_matches(is_pws);
            if let Some(rest) = t.strip_prefix("%%") {
                cands.push(rest.trim_start_matches(|c| c == ' ' || c == '\t'));
            }
            for c in cands {
                if let Some(re) = line_re(c, posix) {
                    if !compiles_as_rule(&re, &flags) && !bad.contains(&re) {
                        bad.push(re);
                    }
                }
            }
        }
    }
    let mut req = format!("9 {} {} {} {} {}", posix as u8, comments as u8, pos, cps(src), bad.len());
    for b in &bad {
        req.push(' ');
        req.push_str(&cps(b));
    }
    out.case("C11", id, &req);
    out.imp(id, "IW", &ans);
    out.count("whole.cases");
    if ans.starts_with("ok") {
        out.count("whole.accepted");
    } else if ans.starts_with("err") {
        out.count("whole.rejected");
        for k in ["DuplicateName", "DuplicateStartState", "UnknownStartState", "Verbatim", "Routines", "PrematureEnd", "RegexError", "UnknownDeclaration", "InvalidStartStateName", "InvalidStartState", "InvalidName", "MissingSpace"] {
            if ans.contains(k) {
                out.count(&format!("whole.err.{}", k));
            }
        }
        if ans.starts_with("err 2") || ans.starts_with("err 3") || ans.starts_with("err 4") {
            out.count("whole.several_errors");
        }
    }
    if pos > 0 {
        out.count("whole.after_grmtools_section");
    }
    if comments && src.contains("//") {
        out.count("whole.with_comments");
    }
}

// ------------------------------------------------------------------------------------------------
// kind 9: a generated specification with random edits; only the whole result is compared

const TROUBLE_LINES: [&str; 26] = [
    "%s INITIAL", "%x ST ST", "%s a_b  a_b Q9", "%x s1", "%S X X", "// c", " indented 'X'", "\tverb ;", "%%", "%% ", "%%\u{c}",
    "<NOPE>x 'N'", "x <+NOPE>'N'", "y <ST>;", "<ST,s1>z <-s1>'Z'", "a 'ID'", "b \"ID\"", "c 'X'", "( 'P'", "%q", "%s", "<ST x 'A'",
    "nospace", "d <ST'A'", "e A", "\u{e9} '\u{e9}t\u{e9}'",
];

fn mutate_text(rng: &mut Rng, text: &str) -> String {
    let seps = ["\n", "\n", "\n", "\r\n", "\u{2028}", "\u{b}"];
    let mut t = text.to_string();
    let n = rng.range(1, 4);
    for _ in 0..n {
        // lines with their separators kept apart
        let mut lines: Vec<String> = Vec::new();
        let mut cur = String::new();
        for c in t.chars() {
            cur.push(c);
            if is_line_sep(c) {
                lines.push(std::mem::take(&mut cur));
            }
        }
        if !cur.is_empty() {
            lines.push(cur);
        }
        if lines.is_empty() {
            lines.push(String::new());
        }
        match rng.below(9) {
            0 | 1 => {
                // duplicate a line somewhere later (or earlier)
                let i = rng.below(lines.len());
                let mut l = lines[i].clone();
                if !l.ends_with(is_line_sep) {
                    l.push('\n');
                    let last = lines.len() - 1;
                    if !lines[last].ends_with(is_line_sep) {
                        lines[last].push('\n');
                    }
                }
                let j = rng.below(lines.len() + 1);
                lines.insert(j, l);
            }
            2 => {
                let i = rng.below(lines.len());
                lines.remove(i);
            }
            3 => {
                let i = rng.below(lines.len());
                let j = rng.below(lines.len());
                lines.swap(i, j);
            }
            4 | 5 => {
                let l = format!("{}{}", rng.pick(&TROUBLE_LINES[..]), rng.pick(&seps[..]));
                let j = rng.below(lines.len() + 1);
                lines.insert(j, l);
            }
            6 => {
                let i = rng.below(lines.len());
                lines[i] = format!("{}{}", rng.pick(&[" ", "\t", "\u{c}", "\u{85}"]), lines[i]);
            }
            7 => {
                let mut v: Vec<char> = lines.concat().chars().collect();
                let alpha: Vec<char> = " \t\n\r<>%/'\";,\\+-a(I\u{e9}\u{2028}\u{85}\u{c}\u{200e}".chars().collect();
                let i = rng.below(v.len() + 1);
                v.insert(i, *rng.pick(&alpha));
                lines = vec![v.into_iter().collect()];
            }
            _ => {
                let mut v: Vec<char> = lines.concat().chars().collect();
                if !v.is_empty() {
                    let i = rng.below(v.len());
                    v.remove(i);
                }
                lines = vec![v.into_iter().collect()];
            }
        }
        t = lines.concat();
    }
    t
}

fn case_wspec(out: &mut Out, seed: u64, caseno: u64) {
    let mut rng = Rng::for_case(seed, 1109, caseno);
    let sp = gen_spec(&mut rng, caseno % 5 == 4);
    let text = mutate_text(&mut rng, &sp.text);
    let id = out.id();
    out.case("C11", id, &format!("0 9 {} {}", seed, caseno));
    out.imp(id, "D", &format!("kind=wspec seed={} case={} builder={:?} src={:?}", seed, caseno, sp.bld.map(|b| fl_list(&b)), text));
    out.count("kind.wspec");
    let r = build(&text, sp.bld.as_ref());
    whole(out, id, &text, sp.bld.as_ref(), &r);
    match &r {
        Err(p) => out.imp(id, "H", &format!("fail panic: {}", p)),
        Ok(_) => out.imp(id, "H", "ok"),
    }
}

// ------------------------------------------------------------------------------------------------
// kind 4: flags in force, observed through behaviour

fn observe_flags(hdr: &Fl, bld: Option<&Fl>) -> Result<[bool; 9], String> {
    let h = {
        let mut s = String::from("%grmtools{");
        let mut first = true;
        for i in 0..9 {
            if let Some(v) = hdr[i] {
                if !first {
                    s.push_str(", ");
                }
                first = false;
                if !v {
                    s.push('!');
                }
                s.push_str(FLAGS[i]);
            }
        }
        s.push_str("}\n");
        s
    };
    let parse = |rules: &str| -> Result<Def, String> {
        match build(&format!("{}%%\n{}", h, rules), bld) {
            Err(p) => Err(format!("panic {}", p)),
            Ok(Err(es)) => Err(err_desc(&es)),
            Ok(Ok(d)) => Ok(d),
        }
    };
    let mlen = |rules: &str, s: &str| -> Result<Option<usize>, String> { parse(rules).map(|d| impl_match_len(&d, 0, s)) };
    let mut o = [false; 9];
    // `(?u:.)`: with unicode disabled a bare `.` could match any byte and the engine refuses it
    o[F_DOT] = mlen("(?u:.) 'X'\n", "\n")?.is_some();
    o[F_ML] = mlen("a$ 'X'\n", "a\nb")?.is_some();
    o[F_OCTAL] = match parse("\\101 'X'\n") {
        Ok(d) => impl_match_len(&d, 0, "A").is_some(),
        Err(e) if e.starts_with("RegexError") => false,
        Err(e) => return Err(e),
    };
    o[F_POSIX] = mlen("\\b 'X'\n", "\u{8}")?.is_some();
    o[F_COMMENTS] = match parse("// c 'C'\na 'X'\n") {
        Ok(d) => d.get_rule_by_name("C").is_none(),
        Err(e) => return Err(e),
    };
    o[F_CI] = mlen("a 'X'\n", "A")?.is_some();
    o[F_GREED] = mlen("a+ 'X'\n", "aaa")? == Some(1);
    o[F_IWS] = mlen("a b 'X'\n", "ab")?.is_some();
    o[F_UNICODE] = mlen("\\w 'X'\n", "\u{e9}")?.is_some();
    Ok(o)
}

fn case_flags(out: &mut Out, hdr: &Fl, bld: Option<&Fl>) {
    let id = out.id();
    let b = bld.copied().unwrap_or(UNSET);
    out.case("C11", id, &format!("0 4 {} {} {}", bld.is_some() as u8, fl_list(hdr), fl_list(&b)));
    let rd: Vec<u32> = regex_defaults().iter().map(|x| *x as u32).collect();
    out.case("C11", id, &format!("4 {} {} {}", plist(&rd), fl_list(hdr), fl_list(&b)));
    out.imp(id, "D", &format!("kind=flags header={} builder={}", fl_list(hdr), if bld.is_some() { fl_list(&b) } else { "none(from_str)".to_string() }));
    out.count("kind.flags");
    if bld.is_some() {
        out.count("flags.through_builder");
    }
    // unicode off makes `.`-with-newline patterns unbuildable; the probes avoid that, see observe_flags
    match observe_flags(hdr, bld) {
        Ok(o) => {
            let v: Vec<String> = o.iter().map(|x| (*x as u8).to_string()).collect();
            out.imp(id, "I", &format!("f {}", v.join(" ")));
            out.imp(id, "H", "ok");
        }
        Err(e) => {
            out.imp(id, "I", "f unobservable");
            out.imp(id, "H", &format!("fail probe specification rejected: {}", e));
        }
    }
}

/// the same question asked of the real `CTLexerBuilder`: flags set through its methods, the
/// `.l` file on disk, the flags read back from the code it generates
fn case_ctflags(out: &mut Out, hdr: &Fl, bld: &Fl) {
    let id = out.id();
    out.case("C11", id, &format!("0 8 {} {}", fl_list(hdr), fl_list(bld)));
    let rd: Vec<u32> = regex_defaults().iter().map(|x| *x as u32).collect();
    out.case("C11", id, &format!("4 {} {} {}", plist(&rd), fl_list(hdr), fl_list(bld)));
    out.imp(id, "D", &format!("kind=ctflags header={} CTLexerBuilder={}", fl_list(hdr), fl_list(bld)));
    out.count("kind.ctflags");
    let dir = CT_DIR.get().cloned().unwrap_or_else(|| std::path::PathBuf::from("work/C11/ct"));
    let _ = std::fs::create_dir_all(&dir);
    let lp = dir.join(format!("c{}.l", id));
    let op = dir.join(format!("c{}.rs", id));
    let mut src = render_header(&mut Rng::for_case(id, 1108, 0), hdr, true);
    src.push_str("\n%%\na 'A'\n");
    if std::fs::write(&lp, &src).is_err() {
        out.imp(id, "H", "ok");
        return;
    }
    let r = guarded(AssertUnwindSafe(|| {
        let mut b = lrlex::CTLexerBuilder::<DefaultLexerTypes<u32>>::new().lexer_path(&lp).output_path(&op);
        if let Some(v) = bld[F_DOT] { b = b.dot_matches_new_line(v); }
        if let Some(v) = bld[F_ML] { b = b.multi_line(v); }
        if let Some(v) = bld[F_OCTAL] { b = b.octal(v); }
        if let Some(v) = bld[F_POSIX] { b = b.posix_escapes(v); }
        if let Some(v) = bld[F_COMMENTS] { b = b.allow_wholeline_comments(v); }
        if let Some(v) = bld[F_CI] { b = b.case_insensitive(v); }
        if let Some(v) = bld[F_GREED] { b = b.swap_greed(v); }
        if let Some(v) = bld[F_IWS] { b = b.ignore_whitespace(v); }
        if let Some(v) = bld[F_UNICODE] { b = b.unicode(v); }
        b.build().map(|_| ()).map_err(|e| e.to_string())
    }));
    match r {
        Err(p) => out.imp(id, "H", &format!("fail CTLexerBuilder panicked: {}", p)),
        Ok(Err(e)) => out.imp(id, "H", &format!("fail CTLexerBuilder rejected a valid file: {}", e.replace('\n', " "))),
        Ok(Ok(())) => {
            let code: String = std::fs::read_to_string(&op).unwrap_or_default().chars().filter(|c| !c.is_whitespace()).collect();
            let d = defaults();
            let rdf = regex_defaults();
            let mut bits = Vec::new();
            for i in 0..9 {
                let key = format!("lex_flags.{}=::std::option::Option::", FLAGS[i]);
                let v = match code.find(&key) {
                    None => "missing".to_string(),
                    Some(at) => {
                        let rest = &code[at + key.len()..];
                        let o = if rest.starts_with("Some(true)") { Some(true) } else if rest.starts_with("Some(false)") { Some(false) } else { None };
                        // the generated code continues `.or(::lrlex::DEFAULT_LEX_FLAGS.<flag>)`
                        if !rest.contains(&format!(".or(::lrlex::DEFAULT_LEX_FLAGS.{})", FLAGS[i])) {
                            "nodefault".to_string()
                        } else {
                            (o.or(d[i]).unwrap_or(rdf[i]) as u8).to_string()
                        }
                    }
                };
                bits.push(v);
            }
            out.imp(id, "I", &format!("f {}", bits.join(" ")));
            out.imp(id, "H", "ok");
        }
    }
    let _ = std::fs::remove_file(&lp);
    let _ = std::fs::remove_file(&op);
}

static CT_DIR: std::sync::OnceLock<std::path::PathBuf> = std::sync::OnceLock::new();

// ------------------------------------------------------------------------------------------------
// kind 5: one injected error, located in the text the user wrote

fn case_error(out: &mut Out, seed: u64, caseno: u64) {
    let mut rng = Rng::for_case(seed, 1105, caseno);
    let id = out.id();
    out.case("C11", id, &format!("0 5 {} {}", seed, caseno));
    let mut text = String::new();
    let with_hdr = rng.chance(1, 2);
    if with_hdr {
        let mut hdr = UNSET;
        for i in [F_CI, F_ML, F_DOT] {
            if rng.chance(1, 2) {
                hdr[i] = Some(rng.chance(1, 2));
            }
        }
        text.push_str(&render_header(&mut rng, &hdr, true));
        text.push_str(nl(&mut rng));
    }
    let which = rng.below(13);
    let mut decl_line: Option<(usize, usize)> = None;
    let mut rule_line: Option<(usize, usize, bool)> = None;
    let want_kind;
    let mut want: Vec<(usize, usize)> = Vec::new();
    let pad = |rng: &mut Rng, t: &mut String| {
        if rng.chance(1, 2) {
            t.push_str("%s \u{e9}ok\n".replace('\u{e9}', "e").as_str());
        }
    };
    match which {
        0 => {
            // duplicate rule name, three occurrences
            want_kind = "DuplicateName";
            text.push_str("%%\n");
            let n = *rng.pick(&["ID", "\u{e9}t\u{e9}", "x\"y"]);
            for (k, re) in ["a", "\\!b", "[c-d]+"].iter().enumerate() {
                if k == 1 {
                    text.push_str("z 'other'\n");
                }
                text.push_str(re);
                text.push_str(&hspace(&mut rng));
                text.push('\'');
                want.push((text.len(), text.len() + n.len()));
                text.push_str(n);
                text.push_str("'\n");
            }
        }
        1 => {
            want_kind = "DuplicateStartState";
            let n = *rng.pick(&["ST", "a_b", "Q9"]);
            text.push_str("%s ");
            want.push((text.len(), text.len() + n.len()));
            text.push_str(n);
            text.push_str("\n%x other ");
            want.push((text.len(), text.len() + n.len()));
            text.push_str(n);
            text.push_str("\n%%\na 'A'\n");
        }
        2 => {
            want_kind = "UnknownStartState";
            pad(&mut rng, &mut text);
            text.push_str("%%\nb 'B'\n");
            want.push((text.len(), text.len()));
            text.push_str("<NOPE>a 'A'\n");
        }
        3 => {
            want_kind = "UnknownStartState";
            pad(&mut rng, &mut text);
            text.push_str("%%\nb 'B'\n");
            text.push_str("a\u{e9}");
            text.push_str(&hspace(&mut rng));
            want.push((text.len(), text.len()));
            text.push_str("<+NOPE>'A'\n");
        }
        4 => {
            want_kind = "InvalidName";
            text.push_str("%%\nb 'B'\n");
            let ls = text.len();
            text.push_str(*rng.pick(&["\u{2764}+", "<INITIAL>\\\u{e9}", "a b"]));
            text.push_str(&hspace(&mut rng));
            want.push((text.len(), text.len()));
            text.push_str(*rng.pick(&["'A", "A", "A'", "\"A'", "'", "<+INITIAL>A", "<INITIAL>'"]));
            rule_line = Some((ls, text.len(), true));
            text.push('\n');
        }
        5 => {
            want_kind = "MissingSpace";
            text.push_str("%%\nb 'B'\n");
            want.push((text.len(), text.len()));
            let ls = text.len();
            text.push_str(*rng.pick(&["abc'A'", "abc'A'\u{c}", "a\u{2003}'A'"]));
            rule_line = Some((ls, text.len(), true));
            text.push('\n');
        }
        6 => {
            want_kind = "RegexError";
            text.push_str("%%\nb 'B'\n");
            want.push((text.len(), text.len()));
            let ls = text.len();
            text.push_str(*rng.pick(&["a( 'A'", "\\!a\\ 'A'", "[z-a] 'A'", "a\\ 'A'", "\\p{Nope} 'A'"]));
            rule_line = Some((ls, text.len(), false));
            text.push('\n');
        }
        7 => {
            want_kind = "UnknownDeclaration";
            pad(&mut rng, &mut text);
            want.push((text.len(), text.len()));
            let ls = text.len();
            text.push_str(*rng.pick(&["%q foo\n", "%s\n", "foo\n", "// c\n", "%s\u{e9} a\n", "%x \n"]));
            decl_line = Some((ls, text.len() - 1));
            text.push_str("%%\na 'A'\n");
        }
        8 => {
            want_kind = "InvalidStartStateName";
            let ls = text.len();
            text.push_str(*rng.pick(&["%x ok ", "%x  ok\t ", "%S "]));
            want.push((text.len(), text.len()));
            text.push_str(*rng.pick(&["1a", "_x", "a-b", "\u{e9}", "a\u{2003}b"]));
            text.push_str(*rng.pick(&["", " z", "\t"]));
            decl_line = Some((ls, text.len()));
            text.push_str("\n%%\na 'A'\n");
        }
        9 => {
            want_kind = "InvalidStartState";
            text.push_str("%x ST\n%%\nb 'B'\n");
            want.push((text.len(), text.len()));
            let ls = text.len();
            text.push_str("<ST a 'A'");
            rule_line = Some((ls, text.len(), true));
            text.push('\n');
        }
        10 => {
            want_kind = "InvalidStartState";
            text.push_str("%x ST\n%%\nb 'B'\n");
            let ls = text.len();
            text.push_str("a\u{2764}");
            want.push((text.len(), text.len()));
            text.push_str(" <ST'A'");
            rule_line = Some((ls, text.len(), true));
            text.push('\n');
        }
        11 => {
            want_kind = "Verbatim";
            text.push_str("%%\nb 'B'\n");
            let s = text.len();
            text.push_str(" a 'A'");
            want.push((s, text.len()));
            text.push_str("\nc 'C'\n");
        }
        _ => {
            want_kind = "PrematureEnd";
            pad(&mut rng, &mut text);
            want.push((text.len(), text.len()));
        }
    }
    out.imp(id, "D", &format!("kind=error expect={}@{:?} src={:?}", want_kind, want, text));
    out.count("kind.error");
    out.count(&format!("error.{}", want_kind));
    if with_hdr {
        out.count("error.with_grmtools_section");
    }
    let r = build(&text, None);
    whole(out, id, &text, None, &r);
    match r {
        Err(p) => out.imp(id, "H", &format!("fail panic: {}", p)),
        Ok(Ok(_)) => out.imp(id, "H", &format!("fail accepted, expected {}", want_kind)),
        Ok(Err(es)) => {
            if let Some((ls, le)) = decl_line {
                // the declaration line against the Lean model / specification
                out.case("C11", id, &format!("5 {}", cps(&text[ls..le])));
                let e = &es[0];
                out.imp(id, "I", &format!("err {} {}", err_kind(e), e.spans()[0].start() as i64 - ls as i64));
            }
            if let Some((ls, le, compiles)) = rule_line {
                // the rule line against the Lean model / specification
                out.case("C11", id, &format!("2 0 {} {}", compiles as u8, cps(&text[ls..le])));
                let e = &es[0];
                out.imp(id, "I", &format!("err {} {}", err_kind(e), e.spans()[0].start() as i64 - ls as i64));
            }
            let hit = es.iter().find(|e| err_kind(e) == want_kind);
            match hit {
                None => out.imp(id, "H", &format!("fail expected {} at {:?}, reported {}", want_kind, want, err_desc(&es))),
                Some(e) => {
                    let got: Vec<(usize, usize)> = e.spans().iter().map(|s| (s.start(), s.end())).collect();
                    if got != want {
                        let spell: Vec<Option<&str>> = got.iter().map(|(a, b)| text.get(*a..*b)).collect();
                        out.imp(id, "H", &format!("fail {} reported at {:?} (spelling {:?}); in the text the user wrote it is at {:?}", want_kind, got, spell, want));
                    } else if es.len() != 1 {
                        out.imp(id, "H", &format!("fail extra errors: {}", err_desc(&es)));
                    } else {
                        out.imp(id, "H", "ok");
                    }
                }
            }
        }
    }
}

// ------------------------------------------------------------------------------------------------
// kind 6: the classes the parser splits on, tabulated from the regex engine with the parser's patterns

fn case_class(out: &mut Out, start: u32, count: u32) {
    let id = out.id();
    out.case("C11", id, &format!("0 6 {} {}", start, count));
    let ws = Regex::new(r"\p{Pattern_White_Space}").unwrap();
    let sp = Regex::new(r"[\p{Pattern_White_Space}&&[\p{Zs}\t]]").unwrap();
    let ls = Regex::new(r"[\p{Pattern_White_Space}&&[\p{Zl}\p{Zp}\n\r\v]]").unwrap();
    let chars: Vec<char> = (start..start + count).filter_map(char::from_u32).collect();
    let v: Vec<u32> = chars.iter().map(|c| *c as u32).collect();
    out.case("C11", id, &format!("3 {}", plist(&v)));
    let mut b = [0u8; 4];
    let bits: Vec<String> = chars
        .iter()
        .map(|c| {
            let s = c.encode_utf8(&mut b);
            format!("{}{}{}", ws.is_match(s) as u8, sp.is_match(s) as u8, ls.is_match(s) as u8)
        })
        .collect();
    out.imp(id, "I", &bits.join(" "));
    out.imp(id, "D", &format!("kind=class chars {:#x}..{:#x}", start, start + count));
    out.imp(id, "H", "ok");
    out.count("kind.class");
}

// ------------------------------------------------------------------------------------------------
// kind 7: a literal text, a sample input and the length its first rule must match at the start

fn case_behaviour(out: &mut Out, src: &str, sample: &str, want: Option<usize>) {
    let id = out.id();
    out.case("C11", id, &format!("0 7 {} {} {}", want.map(|x| x + 1).unwrap_or(0), cps(src), cps(sample)));
    out.imp(id, "D", &format!("kind=behaviour src={:?} sample={:?} expect={:?}", src, sample, want));
    out.count("kind.behaviour");
    match build(src, None) {
        Err(p) => out.imp(id, "H", &format!("fail panic: {}", p)),
        Ok(Err(es)) => out.imp(id, "H", &format!("fail rejected: {}", err_desc(&es))),
        Ok(Ok(d)) => {
            let got = impl_match_len(&d, 0, sample);
            if got == want {
                out.imp(id, "H", "ok");
            } else {
                let cls = if src.contains("ignore_whitespace") && (src.contains("\\ ") || src.contains("\\\t")) { "class=escaped-blank-under-ignore-whitespace " } else { "" };
                out.imp(id, "H", &format!("fail {}rule 0 (re_str {:?}) matches {:?} of {:?}, expected {:?}", cls, d.get_rule(0).map(|r| r.re_str().to_string()), got, sample, want));
            }
        }
    }
}

// ------------------------------------------------------------------------------------------------

fn run_descriptor(out: &mut Out, v: &[u64]) -> Option<()> {
    let list = |v: &[u64], at: usize| -> Option<(Vec<u64>, usize)> {
        let n = *v.get(at)? as usize;
        Some((v.get(at + 1..at + 1 + n)?.to_vec(), at + 1 + n))
    };
    let text = |l: &[u64]| -> Option<String> { l.iter().map(|c| char::from_u32(*c as u32)).collect() };
    let fl = |l: &[u64]| -> Fl {
        let mut f = UNSET;
        for (i, x) in l.iter().enumerate().take(9) {
            f[i] = match x { 0 => Some(false), 1 => Some(true), _ => None };
        }
        f
    };
    match *v.first()? {
        1 => {
            let (l, _) = list(v, 1)?;
            case_text(out, &text(&l)?, "replay");
        }
        2 => {
            let (l, _) = list(v, 4)?;
            case_esc(out, &text(&l)?, v[1] == 1, v[2] == 1, v[3] == 1, "replay");
        }
        3 => case_spec(out, v[1], v[2]),
        4 => {
            let (h, at) = list(v, 2)?;
            let (b, _) = list(v, at)?;
            let bf = fl(&b);
            case_flags(out, &fl(&h), if v[1] == 1 { Some(&bf) } else { None });
        }
        5 => case_error(out, v[1], v[2]),
        6 => case_class(out, v[1] as u32, v[2] as u32),
        9 => case_wspec(out, v[1], v[2]),
        8 => {
            let (h, at) = list(v, 1)?;
            let (b, _) = list(v, at)?;
            case_ctflags(out, &fl(&h), &fl(&b));
        }
        7 => {
            let (a, at) = list(v, 2)?;
            let (b, _) = list(v, at)?;
            case_behaviour(out, &text(&a)?, &text(&b)?, if v[1] == 0 { None } else { Some(v[1] as usize - 1) });
        }
        _ => return None,
    }
    Some(())
}

fn run_file(out: &mut Out, path: &std::path::Path) {
    let txt = std::fs::read_to_string(path).unwrap_or_default();
    for line in txt.lines() {
        let mut it = line.split_whitespace();
        if it.next() != Some("C11") {
            continue;
        }
        let _ = it.next();
        if it.next() != Some("0") {
            continue;
        }
        let v: Option<Vec<u64>> = it.map(|t| t.parse().ok()).collect();
        if let Some(v) = v {
            let _ = run_descriptor(out, &v);
        }
    }
}

const ESC_ALPHA: [&str; 40] = [
    "\\", "\\", "\\", "\\", "\\", "\\", "b", "x", "u", "9", "4", "f", "n", "d", "p", "A", "z", "a", "e", "!", "<", ">", "\"", "'", "/", " ", ".", "*", "(", ")", "[", "]", "{", "-", "#", "|", "\u{e9}", "\u{2764}", "\u{1F600}", "~",
];

pub fn run(a: &Args) {
    let mut out = Out::new(&a.out);
    let _ = CT_DIR.set(a.out.join("ct"));
    if let Some(rp) = &a.replay {
        run_file(&mut out, rp);
        out.finish(&a.out);
        return;
    }
    let shard = a.shard as u64;
    let shards = a.shards.max(1) as u64;
    // corpus: witnesses of past failures and the test suite's own examples
    if shard == 0 {
        let dir = std::path::Path::new("corpus/C11");
        if let Ok(rd) = std::fs::read_dir(dir) {
            let mut files: Vec<_> = rd.filter_map(|e| e.ok()).map(|e| e.path()).collect();
            files.sort();
            for f in files {
                run_file(&mut out, &f);
            }
        }
        // classes: everything up to U+3000 and the top of the range
        let mut s = 0u32;
        while s < 0x3000 {
            case_class(&mut out, s, 0x400);
            s += 0x400;
        }
        case_class(&mut out, 0xFE00, 0x200);
        case_class(&mut out, 0x10FF00, 0x100);
        // every pair `\c` for c in the alphabet, alone and followed by a hex digit / at the end
        for posix in [false, true] {
            for c in ESC_ALPHA.iter().skip(5) {
                for tail in ["", "4", "g", "\\"] {
                    for prefix in [false, true] {
                        let re = format!("\\{}{}", c, tail);
                        if re.ends_with(' ') {
                            continue;
                        }
                        case_esc(&mut out, &re, posix, prefix, false, "pairs");
                        case_esc(&mut out, &format!("\\!{}", re), posix, prefix, true, "pairs");
                    }
                }
            }
        }
        // flags: every single flag in the section, through the builder, and both disagreeing
        for i in 0..9 {
            for v in [false, true] {
                let mut h = UNSET;
                h[i] = Some(v);
                case_flags(&mut out, &h, None);
                case_flags(&mut out, &UNSET, Some(&h));
                let mut b = UNSET;
                b[i] = Some(!v);
                case_flags(&mut out, &h, Some(&b));
                case_ctflags(&mut out, &h, &b);
                case_ctflags(&mut out, &UNSET, &h);
            }
        }
        for case in 0..60u64 {
            let mut rng = Rng::for_case(a.seed, 1108, case);
            let mut h = UNSET;
            let mut b = UNSET;
            for i in 0..9 {
                if rng.chance(1, 3) {
                    h[i] = Some(rng.chance(1, 2));
                }
                if rng.chance(1, 3) {
                    b[i] = Some(rng.chance(1, 2));
                }
            }
            case_ctflags(&mut out, &h, &b);
        }
    }
    let scale: u64 = if a.thorough { 8 } else { 1 };
    // random escape strings
    for case in 0..30000 * scale {
        if case % shards != shard {
            continue;
        }
        let mut rng = Rng::for_case(a.seed, 1102, case);
        let n = rng.range(1, 8);
        let mut re = String::new();
        for _ in 0..n {
            let t: &&str = rng.pick(&ESC_ALPHA[..]);
            re.push_str(t);
        }
        let last = re.chars().last().unwrap();
        if re.starts_with('<') || re.starts_with(' ') || last == ' ' {
            re = format!("a{}a", re);
        }
        let posix = rng.chance(1, 3);
        let prefix = rng.chance(1, 4);
        let hdr = rng.chance(1, 3);
        case_esc(&mut out, &re, posix, prefix, hdr, "random");
    }
    // generated specifications
    for case in 0..12000 * scale {
        if case % shards != shard {
            continue;
        }
        case_spec(&mut out, a.seed, case);
    }
    // generated specifications with random edits: the whole result
    for case in 0..12000 * scale {
        if case % shards != shard {
            continue;
        }
        case_wspec(&mut out, a.seed, case);
    }
    // random flag combinations
    for case in 0..3000 * scale {
        if case % shards != shard {
            continue;
        }
        let mut rng = Rng::for_case(a.seed, 1104, case);
        let mut h = UNSET;
        let mut b = UNSET;
        for i in 0..9 {
            if rng.chance(1, 3) {
                h[i] = Some(rng.chance(1, 2));
            }
            if rng.chance(1, 3) {
                b[i] = Some(rng.chance(1, 2));
            }
        }
        case_flags(&mut out, &h, if rng.chance(1, 2) { Some(&b) } else { None });
    }
    // injected errors
    for case in 0..3000 * scale {
        if case % shards != shard {
            continue;
        }
        case_error(&mut out, a.seed, case);
    }
    out.finish(&a.out);
}
