pub mod c19;
pub mod c17;
pub mod c09;
