pub mod c19;
pub mod c17;
