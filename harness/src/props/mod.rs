pub mod c19;
pub mod c17;
pub mod c09;
pub mod c11;
pub mod c12;
pub mod c03;
pub mod c01;
pub mod c20;
