pub mod c19;
