//! C18: histories of {edit grammar, edit lexer, change a builder option, make the grammar invalid,
//! restore, build} replayed on the real `CTParserBuilder` / `CTLexerBuilder`.
//!
//! One subprocess per build step (`vharness C18 --child SRC OUT s0,s1,…`): the builders keep a static
//! `GENERATED_PATHS` set that forbids two builds to one path in a process. All files live under the
//! `--out` directory (`<out>/c18tmp/…`) and are removed at the end of the run. Source and output mtimes
//! are set explicitly (model clock `t` ↦ `BASE + t` seconds), so the run does not depend on wall time.
//!
//! Request (see `lean/GrmVerif/Drive/C18.lean`):
//!   `modeIdx g l nS s… nOps (code a b dt)… nRows (pcls pkey pcid lcls lcid)…`
//! `I` line: per build step `b<k>:pstatus,regenerated,pexists,ptext,pmtime,lstatus,lrewritten,lexists,ltext,lmtime`
//! — compared for equality with the driver's `M` line (model of the repaired builders).
//! `H` lines (harness-side specification checks on the real code, per build step):
//!   * state after the incremental build == state after a build of the same sources and settings into an
//!     empty directory (existence + text of each output, timestamp comment stripped);
//!   * a builder that reported an error / panicked has left no output file (`stale-after-failed-build`);
//!   * `regenerated()`: true after a grammar edit or when the clean text differs from what was there,
//!     false when nothing the parser builder reads has changed since the last successful build;
//!     `regenerated()` agrees with "the file was rewritten"; the lexer output is rewritten iff its text changes.
use crate::out::{guarded, Out};
use crate::rng::Rng;
use crate::Args;
use cfgrammar::yacc::{YaccKind, YaccOriginalActionKind};
use lrlex::{CTLexerBuilder, DefaultLexerTypes, LexerKind};
use lrpar::{CTParserBuilder, RecoveryKind, SerialisationFormat};
use std::collections::HashMap;
use std::io::Read;
use std::panic::AssertUnwindSafe;
use std::path::{Path, PathBuf};
use std::process::{Command, Stdio};
use std::sync::atomic::{AtomicBool, Ordering};
use std::sync::Arc;
use std::time::{Duration, Instant, SystemTime, UNIX_EPOCH};

const BASE: u64 = 1_600_000_000;

// ---------------------------------------------------------------------------------------------------
// builder options: (name, number of values, default value)
// ---------------------------------------------------------------------------------------------------
pub const OPTS: &[(&str, usize, usize)] = &[
    ("yacckind", 5, 1),              // 0 unset, 1 Original(NoAction), 2 Original(GenericParseTree), 3 Grmtools, 4 Original(UserAction)
    ("recoverer", 3, 0),             // 0 unset, 1 None, 2 CPCTPlus
    ("error_on_conflicts", 2, 1),
    ("warnings_are_errors", 2, 1),
    ("show_warnings", 2, 1),
    ("visibility", 7, 0),            // Private, Public, PublicCrate, PublicSuper, PublicSelf, PublicIn("crate"), PublicIn("super")
    ("rust_edition", 3, 2),          // 2015, 2018, 2021
    ("mod_name", 4, 0),              // unset, "pm_a", "pm_b", "1bad" (not an identifier)
    ("serialisation_format", 3, 0),  // unset, FixedSizeInteger, VariableSizedInteger
    ("pipeline", 3, 0),              // 0 two builders + rule_ids_map(token_map), 1 two builders without rule_ids_map, 2 lrpar_config
    ("lexerkind", 2, 0),             // unset, LRNonStreamingLexer
    ("lex_mod_name", 4, 0),
    ("lex_visibility", 7, 0),
    ("lex_rust_edition", 3, 2),
    ("allow_missing_terms_in_lexer", 2, 0),
    ("allow_missing_tokens_in_parser", 2, 0),
    ("lex_warnings_are_errors", 2, 0),
    ("lex_show_warnings", 2, 1),
    ("allow_wholeline_comments", 3, 0), // regex flags: 0 unset, 1 false, 2 true
    ("dot_matches_new_line", 3, 0),
    ("multi_line", 3, 0),
    ("posix_escapes", 3, 0),
    ("octal", 3, 0),
    ("swap_greed", 3, 0),
    ("ignore_whitespace", 3, 0),
    ("unicode", 3, 0),
    ("case_insensitive", 3, 0),
    ("size_limit", 3, 0),            // unset, 1 MiB, 2 MiB
    ("dfa_size_limit", 3, 0),
    ("nest_limit", 3, 0),            // unset, 50, 60
];
const N_PARSER_OPTS: usize = 9;
const MODE_IDX: usize = 9;

// ---------------------------------------------------------------------------------------------------
// source texts; id 0 = the file does not exist
// ---------------------------------------------------------------------------------------------------
const GRAMMARS: &[(&str, bool, &str)] = &[
    ("missing", false, ""),
    ("G1", true, "%start S\n%%\nS: 'A' S | 'B' ;\n"),
    ("G2", true, "%start S\n%%\nS: S 'A' | 'B' | 'C' ;\n"),
    ("G3hdr", true, "%grmtools{yacckind: Original(YaccOriginalActionKind::NoAction)}\n%start S\n%%\nS: 'B' T ;\nT: 'A' | ;\n"),
    ("G4expect", true, "%start E\n%expect 1\n%%\nE: E 'A' E | 'B' ;\n"),
    ("G5typed", true, "%start S\n%%\nS -> u64: 'A' S { 1 } | 'B' { 0 } ;\n"),
    ("X6syntax", false, "%start S\n%%\nS: 'A' S | ;;; %%% garbage(\n"),
    ("X7conflict", false, "%start E\n%%\nE: E 'A' E | 'B' ;\n"),
    ("X8expect", false, "%start E\n%expect 2\n%%\nE: E 'A' E | 'B' ;\n"),
    ("X9warn", false, "%start S\n%token Z\n%%\nS: 'A' S | 'B' ;\nU: 'A' ;\n"),
    ("X10badhdr", false, "%grmtools{yacckind: [\n%start S\n%%\nS: 'A' ;\n"),
    ("X11unknownrule", false, "%start S\n%%\nS: 'A' T | 'B' ;\n"),
    // 200 tokens: the builder's cache record (which lists every token) is several KiB long; text from `gtext`
    ("G12big", true, ""),
    // the tokens of G1 with other rules: the builder's cache record (settings + token map) is G1's
    ("G13sametokens", true, "%start S\n%%\nS: S 'A' | 'B' ;\n"),
];
const LEXERS: &[(&str, bool, &str)] = &[
    ("missing", false, ""),
    ("L1", true, "%%\na \"A\"\nb \"B\"\n[ \\t\\n]+ ;\n"),
    ("L2", true, "%%\na \"A\"\nb \"B\"\nc \"C\"\n[ \\t\\n]+ ;\n"),
    ("L3", true, "%%\na+ \"A\"\nb|B \"B\"\nc \"C\"\n[ \\t\\n]+ ;\n"),
    ("L4hdr", true, "%grmtools{case_insensitive}\n%%\na \"A\"\nb \"B\"\nc \"C\"\n[ \\t\\n]+ ;\n"),
    ("Y5regex", false, "%%\na( \"A\"\nb \"B\"\n"),
    ("Y6syntax", false, "%%\na \"A\nb \"B\"\n"),
    ("Y7badhdr", false, "%grmtools{nest_limit: 99999999999999999999999}\n%%\na \"A\"\nb \"B\"\n"),
    ("L8big", true, ""),
];

const BIG: usize = 200;

/// source text of grammar `g` (the table's, except for the generated big one)
fn gtext(g: usize) -> String {
    if GRAMMARS[g].0 == "G12big" {
        let alts: Vec<String> = (0..BIG).map(|i| format!("'K{}'", i)).collect();
        return format!("%start S\n%%\nS: S T | T ;\nT: {} ;\n", alts.join(" | "));
    }
    GRAMMARS[g].2.to_string()
}

fn ltext(l: usize) -> String {
    if LEXERS[l].0 == "L8big" {
        let mut s = String::from("%%\n");
        for i in (0..BIG).rev() {
            s.push_str(&format!("k{}; \"K{}\"\n", i, i));
        }
        s.push_str("[ \\t\\n]+ ;\n");
        return s;
    }
    LEXERS[l].2.to_string()
}
const VALID_G: &[usize] = &[1, 2, 3, 4, 5, 13, 1, 13];
const INVALID_G: &[usize] = &[0, 6, 7, 8, 9, 10, 11];
const VALID_L: &[usize] = &[1, 2, 3, 4];
const INVALID_L: &[usize] = &[0, 5, 6, 7];

#[derive(Clone, Debug, PartialEq)]
enum Op {
    EditG(usize),
    EditL(usize),
    Opt(usize, usize),
    Build,
}

// ---------------------------------------------------------------------------------------------------
// child: one run of the build script
// ---------------------------------------------------------------------------------------------------
fn p_mod(v: usize) -> Option<&'static str> {
    match v {
        1 => Some("pm_a"),
        2 => Some("pm_b"),
        3 => Some("1bad"),
        _ => None,
    }
}
fn l_mod(v: usize) -> Option<&'static str> {
    match v {
        1 => Some("lm_a"),
        2 => Some("lm_b"),
        3 => Some("1bad"),
        _ => None,
    }
}

fn cfg_parser<'a>(
    mut b: CTParserBuilder<'a, DefaultLexerTypes<u32>>,
    s: &[usize],
    gp: &Path,
    op: &Path,
) -> CTParserBuilder<'a, DefaultLexerTypes<u32>> {
    b = b.grammar_path(gp).output_path(op);
    match s[0] {
        1 => b = b.yacckind(YaccKind::Original(YaccOriginalActionKind::NoAction)),
        2 => b = b.yacckind(YaccKind::Original(YaccOriginalActionKind::GenericParseTree)),
        3 => b = b.yacckind(YaccKind::Grmtools),
        4 => b = b.yacckind(YaccKind::Original(YaccOriginalActionKind::UserAction)),
        _ => {}
    }
    match s[1] {
        1 => b = b.recoverer(RecoveryKind::None),
        2 => b = b.recoverer(RecoveryKind::CPCTPlus),
        _ => {}
    }
    b = b.error_on_conflicts(s[2] == 1).warnings_are_errors(s[3] == 1).show_warnings(s[4] == 1);
    b = b.visibility(match s[5] {
        1 => lrpar::Visibility::Public,
        2 => lrpar::Visibility::PublicCrate,
        3 => lrpar::Visibility::PublicSuper,
        4 => lrpar::Visibility::PublicSelf,
        5 => lrpar::Visibility::PublicIn("crate".to_string()),
        6 => lrpar::Visibility::PublicIn("super".to_string()),
        _ => lrpar::Visibility::Private,
    });
    b = b.rust_edition(match s[6] {
        0 => lrpar::RustEdition::Rust2015,
        1 => lrpar::RustEdition::Rust2018,
        _ => lrpar::RustEdition::Rust2021,
    });
    if let Some(m) = p_mod(s[7]) {
        b = b.mod_name(m);
    }
    match s[8] {
        1 => b = b.serialisation_format(SerialisationFormat::FixedSizeInteger),
        2 => b = b.serialisation_format(SerialisationFormat::VariableSizedInteger),
        _ => {}
    }
    b
}

fn cfg_lexer<'a>(
    mut b: CTLexerBuilder<'a, DefaultLexerTypes<u32>>,
    s: &[usize],
    lp: &Path,
    op: &Path,
) -> CTLexerBuilder<'a, DefaultLexerTypes<u32>> {
    b = b.lexer_path(lp).output_path(op);
    if s[10] == 1 {
        b = b.lexerkind(LexerKind::LRNonStreamingLexer);
    }
    if let Some(m) = l_mod(s[11]) {
        b = b.mod_name(m);
    }
    b = b.visibility(match s[12] {
        1 => lrlex::Visibility::Public,
        2 => lrlex::Visibility::PublicCrate,
        3 => lrlex::Visibility::PublicSuper,
        4 => lrlex::Visibility::PublicSelf,
        5 => lrlex::Visibility::PublicIn("crate".to_string()),
        6 => lrlex::Visibility::PublicIn("super".to_string()),
        _ => lrlex::Visibility::Private,
    });
    b = b.rust_edition(match s[13] {
        0 => lrlex::RustEdition::Rust2015,
        1 => lrlex::RustEdition::Rust2018,
        _ => lrlex::RustEdition::Rust2021,
    });
    b = b
        .allow_missing_terms_in_lexer(s[14] == 1)
        .allow_missing_tokens_in_parser(s[15] == 1)
        .warnings_are_errors(s[16] == 1)
        .show_warnings(s[17] == 1);
    macro_rules! flag {
        ($i:expr, $m:ident) => {
            if s[$i] > 0 {
                b = b.$m(s[$i] == 2);
            }
        };
    }
    flag!(18, allow_wholeline_comments);
    flag!(19, dot_matches_new_line);
    flag!(20, multi_line);
    flag!(21, posix_escapes);
    flag!(22, octal);
    flag!(23, swap_greed);
    flag!(24, ignore_whitespace);
    flag!(25, unicode);
    flag!(26, case_insensitive);
    if s[27] > 0 {
        b = b.size_limit(s[27] << 20);
    }
    if s[28] > 0 {
        b = b.dfa_size_limit(s[28] << 20);
    }
    if s[29] > 0 {
        b = b.nest_limit(40 + 10 * s[29] as u32);
    }
    b
}

fn one_line(s: &str) -> String {
    let t: String = s.chars().map(|c| if c.is_control() { ' ' } else { c }).collect();
    let t = t.split_whitespace().collect::<Vec<_>>().join(" ");
    t.chars().take(160).collect()
}

/// prints `P <invoked> <ok|err|panic> <regenerated: 0|1|?> <message>` and `L <invoked> <ok|err|panic> <message>`
pub fn child(src: &Path, outd: &Path, s: &[usize]) {
    let gp = src.join("g.y");
    let lp = src.join("l.l");
    let pout = outd.join("g.y.rs");
    let lout = outd.join("l.l.rs");
    let (mut pl, mut ll);
    if s[MODE_IDX] == 2 {
        let invoked = Arc::new(AtomicBool::new(false));
        let inv2 = invoked.clone();
        let (sv, gp2, pout2) = (s.to_vec(), gp.clone(), pout.clone());
        let r = guarded(AssertUnwindSafe(|| {
            let b = CTLexerBuilder::<DefaultLexerTypes<u32>>::new_with_lexemet();
            let b = cfg_lexer(b, s, &lp, &lout).lrpar_config(move |ctp| {
                inv2.store(true, Ordering::SeqCst);
                cfg_parser(ctp, &sv, &gp2, &pout2)
            });
            b.build().map(|_| ()).map_err(|e| e.to_string())
        }));
        let pinv = invoked.load(Ordering::SeqCst);
        match r {
            Ok(Ok(())) => {
                pl = format!("P 1 ok ? -");
                ll = format!("L 1 ok -");
            }
            Ok(Err(m)) => {
                let lexer_side = m.starts_with("Unused header values") || m.contains("CTLexerBuilder::mod_name(");
                if !pinv {
                    pl = format!("P 0 - ? -");
                    ll = format!("L 1 err {}", one_line(&m));
                } else if lexer_side {
                    pl = format!("P 1 ok ? -");
                    ll = format!("L 1 err {}", one_line(&m));
                } else {
                    pl = format!("P 1 err ? {}", one_line(&m));
                    ll = format!("L 1 err (parser build failed)");
                }
            }
            Err(m) => {
                // `panic!()` of the missing-token check (after the nested parser build) or a panic inside either builder
                if !pinv {
                    pl = format!("P 0 - ? -");
                } else {
                    pl = format!("P 1 ok? ? -");
                }
                ll = format!("L 1 panic {}", one_line(&m));
            }
        }
    } else {
        let r = guarded(AssertUnwindSafe(|| {
            let b = cfg_parser(CTParserBuilder::<DefaultLexerTypes<u32>>::new(), s, &gp, &pout);
            b.build().map(|p| (p.regenerated(), p.token_map().clone())).map_err(|e| e.to_string())
        }));
        ll = format!("L 0 - -");
        match r {
            Ok(Ok((regen, map))) => {
                pl = format!("P 1 ok {} -", regen as u8);
                let r2 = guarded(AssertUnwindSafe(|| {
                    let mut b = cfg_lexer(CTLexerBuilder::<DefaultLexerTypes<u32>>::new_with_lexemet(), s, &lp, &lout);
                    if s[MODE_IDX] == 0 {
                        b = b.rule_ids_map(&map);
                    }
                    b.build().map(|_| ()).map_err(|e| e.to_string())
                }));
                ll = match r2 {
                    Ok(Ok(())) => format!("L 1 ok -"),
                    Ok(Err(m)) => format!("L 1 err {}", one_line(&m)),
                    Err(m) => format!("L 1 panic {}", one_line(&m)),
                };
            }
            Ok(Err(m)) => pl = format!("P 1 err ? {}", one_line(&m)),
            Err(m) => pl = format!("P 1 panic ? {}", one_line(&m)),
        }
    }
    if pl.is_empty() {
        pl = "P 0 - ? -".to_string();
    }
    if ll.is_empty() {
        ll = "L 0 - -".to_string();
    }
    println!("{}\n{}", pl, ll);
}

/// one parser build with 8-bit storage (`--child8 SRC OUT`): prints `ok`, `err …` or `panic …`. The
/// documented panic "StorageT is not big enough" is a failing build like any other.
pub fn child8(src: &Path, outd: &Path) {
    let gp = src.join("g.y");
    let pout = outd.join("g.y.rs");
    let r = guarded(AssertUnwindSafe(|| {
        CTParserBuilder::<DefaultLexerTypes<u8>>::new()
            .yacckind(YaccKind::Original(YaccOriginalActionKind::NoAction))
            .grammar_path(&gp)
            .output_path(&pout)
            .build()
            .map(|_| ())
            .map_err(|e| e.to_string())
    }));
    match r {
        Ok(Ok(())) => println!("ok"),
        Ok(Err(m)) => println!("err {}", one_line(&m)),
        Err(m) => println!("panic {}", one_line(&m)),
    }
}

/// history "small grammar built, grammar outgrows the storage type, built again (the builder panics),
/// small grammar restored, built" with 8-bit storage: the panicking build must not leave the first
/// build's output behind. `None` = as the property demands.
fn narrow_storage_history(a: &Args) -> Option<String> {
    let root = a.out.join("c18tmp").join("narrow");
    let _ = std::fs::remove_dir_all(&root);
    let (src, inc) = (root.join("src"), root.join("inc"));
    std::fs::create_dir_all(&src).ok()?;
    std::fs::create_dir_all(&inc).ok()?;
    let gp = src.join("g.y");
    let pout = inc.join("g.y.rs");
    let run = || -> String {
        let exe = std::env::current_exe().unwrap();
        let o = Command::new(exe).arg("C18").arg("--child8").arg(&src).arg(&inc).env_remove("OUT_DIR").stdin(Stdio::null()).stderr(Stdio::null()).output();
        o.ok().map(|o| String::from_utf8_lossy(&o.stdout).trim().to_string()).unwrap_or_default()
    };
    let small = gtext(1);
    let alts: Vec<String> = (0..300).map(|i| format!("'K{}'", i)).collect();
    let wide = format!("%start S\n%%\nS: {} ;\n", alts.join(" | "));
    write_src(&gp, Some(&small[..]), 0);
    let r1 = run();
    let first = std::fs::read_to_string(&pout).ok();
    let mut verdict = None;
    if r1 != "ok" || first.is_none() {
        verdict = Some(format!("narrow-storage first build of the small grammar did not succeed: {}", r1));
    } else {
        write_src(&gp, Some(&wide[..]), 5);
        let r2 = run();
        if r2 == "ok" {
            verdict = Some("narrow-storage a 300-token grammar was built with 8-bit storage".to_string());
        } else if pout.exists() {
            let same = std::fs::read_to_string(&pout).ok().map(|t| strip_stamp(&t)) == first.as_ref().map(|t| strip_stamp(t));
            verdict = Some(format!(
                "stale-after-failed-build parser output exists after CTParserBuilder::build failed ({}) with 8-bit storage: history [build G1; grammar := 300 tokens; build]{}",
                r2,
                if same { " — it is the output of the earlier grammar" } else { "" }
            ));
        } else {
            write_src(&gp, Some(&small[..]), 9);
            let r3 = run();
            let third = std::fs::read_to_string(&pout).ok();
            if r3 != "ok" || third.as_ref().map(|t| strip_stamp(t)) != first.as_ref().map(|t| strip_stamp(t)) {
                verdict = Some(format!("differs-from-clean-build parser: after a panicking build the restored grammar builds to something else ({})", r3));
            }
        }
    }
    let _ = std::fs::remove_dir_all(&root);
    verdict
}

// ---------------------------------------------------------------------------------------------------
// parent
// ---------------------------------------------------------------------------------------------------
#[derive(Clone, Debug, Default)]
struct ChildRes {
    p_invoked: bool,
    p_status: String, // ok | err | panic | ok? | -
    p_regen: Option<bool>,
    p_msg: String,
    l_invoked: bool,
    l_status: String,
    l_msg: String,
    crashed: bool,
}

fn run_child(src: &Path, outd: &Path, s: &[usize]) -> ChildRes {
    let exe = std::env::current_exe().unwrap();
    let sv: Vec<String> = s.iter().map(|x| x.to_string()).collect();
    let mut ch = Command::new(exe)
        .arg("C18")
        .arg("--child")
        .arg(src)
        .arg(outd)
        .arg(sv.join(","))
        .env_remove("OUT_DIR")
        .stdin(Stdio::null())
        .stdout(Stdio::piped())
        .stderr(Stdio::null())
        .spawn()
        .unwrap();
    let t0 = Instant::now();
    let mut killed = false;
    loop {
        match ch.try_wait() {
            Ok(Some(_)) => break,
            Ok(None) => {
                if t0.elapsed() > Duration::from_secs(60) {
                    let _ = ch.kill();
                    let _ = ch.wait();
                    killed = true;
                    break;
                }
                std::thread::sleep(Duration::from_millis(1));
            }
            Err(_) => break,
        }
    }
    let mut o = String::new();
    if let Some(mut so) = ch.stdout.take() {
        let _ = so.read_to_string(&mut o);
    }
    let mut r = ChildRes::default();
    let mut seen = 0;
    for l in o.lines() {
        let f: Vec<&str> = l.splitn(5, ' ').collect();
        if f.len() >= 4 && f[0] == "P" {
            r.p_invoked = f[1] == "1";
            r.p_status = f[2].to_string();
            r.p_regen = match f[3] {
                "0" => Some(false),
                "1" => Some(true),
                _ => None,
            };
            r.p_msg = f.get(4).unwrap_or(&"").to_string();
            seen += 1;
        } else if f.len() >= 3 && f[0] == "L" {
            r.l_invoked = f[1] == "1";
            r.l_status = f[2].to_string();
            r.l_msg = l.splitn(4, ' ').nth(3).unwrap_or("").to_string();
            seen += 1;
        }
    }
    r.crashed = killed || seen != 2;
    r
}

fn set_mtime(p: &Path, t: u64) {
    let f = std::fs::OpenOptions::new().write(true).open(p).unwrap();
    f.set_modified(UNIX_EPOCH + Duration::from_secs(BASE + t)).unwrap();
}

fn get_mtime(p: &Path) -> Option<SystemTime> {
    std::fs::metadata(p).ok().and_then(|m| m.modified().ok())
}

fn write_src(p: &Path, text: Option<&str>, t: u64) {
    match text {
        None => {
            let _ = std::fs::remove_file(p);
        }
        Some(s) => {
            std::fs::write(p, s).unwrap();
            set_mtime(p, t);
        }
    }
}

/// the text with the build-time stamps removed ("timestamp comment aside")
fn strip_stamp(s: &str) -> String {
    let mut out = String::new();
    for l in s.lines() {
        if l.starts_with("// lrlex build time:") {
            continue;
        }
        if let Some(i) = l.find("BUILD_TIME = ") {
            // inside the cache comment the value is an escaped string literal: \"…\"
            let rest = &l[i + 13..];
            if let Some(j) = rest.find(" DERIVED_MOD_NAME") {
                out.push_str(&l[..i + 13]);
                out.push_str("<stamp>");
                out.push_str(&rest[j..]);
                out.push('\n');
                continue;
            }
        }
        out.push_str(l);
        out.push('\n');
    }
    out
}

fn cache_of(s: &str) -> Option<String> {
    let i = s.find("/* CACHE INFORMATION ")?;
    let j = s[i..].find(" */")?;
    Some(s[i + 21..i + j].to_string())
}

#[derive(Default)]
struct Interner {
    m: HashMap<String, u64>,
}
impl Interner {
    fn id(&mut self, s: &str) -> u64 {
        let n = self.m.len() as u64 + 1;
        *self.m.entry(s.to_string()).or_insert(n)
    }
}

/// what a build of (g, l, s) into an empty directory does
#[derive(Clone, Debug)]
struct Clean {
    pcls: u64, // 0 early, 1 late, 2 ok
    pkey: u64,
    ptext: u64,
    lcls: u64, // 0 pre, 1 post, 2 missing-token panic, 3 ok
    ltext: u64,
    pfile: Option<u64>, // what the clean build leaves
    lfile: Option<u64>,
    res: ChildRes,
}

fn late_error(msg: &str) -> bool {
    let m = msg.to_lowercase();
    m.contains("conflict") || m.contains("unused keys in header") || m.contains("required values were missing")
        || m.contains("ctparserbuilder::mod_name(") || m.contains("test_files")
}

struct Hist<'a> {
    /// name of the source directory under `root`
    srcname: &'static str,
    root: PathBuf,
    texts: &'a mut Interner,
    keys: &'a mut Interner,
    nclean: usize,
}

impl Hist<'_> {
    fn read_out(&mut self, p: &Path) -> Option<(u64, Option<String>)> {
        let s = std::fs::read_to_string(p).ok()?;
        let st = strip_stamp(&s);
        Some((self.texts.id(&st), cache_of(&st)))
    }

    fn clean(&mut self, s: &[usize]) -> Clean {
        self.nclean += 1;
        let d = self.root.join(format!("clean{}", self.nclean));
        std::fs::create_dir_all(&d).unwrap();
        let src = self.root.join(self.srcname);
        let res = run_child(&src, &d, s);
        let pf = self.read_out(&d.join("g.y.rs"));
        let lf = self.read_out(&d.join("l.l.rs"));
        let mut c = Clean { pcls: 0, pkey: 0, ptext: 0, lcls: 0, ltext: 0, pfile: pf.as_ref().map(|x| x.0), lfile: lf.as_ref().map(|x| x.0), res: res.clone() };
        let mut pres = res.clone();
        if !res.p_invoked {
            // lrpar_config pipeline, lexer failed before the parser builder was reached: measure the parser
            // generator separately (the model needs a row, although this build does not consult it)
            let d2 = self.root.join(format!("clean{}p", self.nclean));
            std::fs::create_dir_all(&d2).unwrap();
            let mut s2 = s.to_vec();
            s2[MODE_IDX] = 1;
            pres = run_child(&src, &d2, &s2);
            if let Some((t, k)) = self.read_out(&d2.join("g.y.rs")) {
                c.pcls = 2;
                c.ptext = t;
                c.pkey = self.keys.id(&k.unwrap_or_default());
            }
            let _ = std::fs::remove_dir_all(&d2);
        } else if let Some((t, k)) = &pf {
            c.pcls = 2;
            c.ptext = *t;
            c.pkey = self.keys.id(k.as_deref().unwrap_or(""));
        }
        if c.pcls != 2 {
            if late_error(&pres.p_msg) {
                c.pcls = 1;
                // the cache string of a configuration whose build fails after the up-to-date test is never
                // written anywhere: a fresh key (if the real key collided with an existing output's the build
                // would be skipped and `I` would differ from `M`)
                c.pkey = self.keys.id(&format!("<late:{}>", pres.p_msg));
            } else {
                c.pcls = 0;
            }
        }
        match res.l_status.as_str() {
            "ok" => {
                c.lcls = 3;
                c.ltext = lf.as_ref().map(|x| x.0).unwrap_or(0);
            }
            "panic" => c.lcls = 2,
            "err" => {
                c.lcls = if res.l_msg.starts_with("Unused header values") || res.l_msg.contains("CTLexerBuilder::mod_name(") { 1 } else { 0 };
                if s[MODE_IDX] == 2 && res.p_invoked && c.lcls == 0 {
                    // the parser builder was reached, so the lexer got past its first phase; the error is the parser's
                    c.lcls = 1;
                }
            }
            _ => {
                // two-builder pipeline, parser failed: the lexer builder was not run; measure it alone is not
                // possible without a token map — the model does not consult this entry either
                c.lcls = 0;
            }
        }
        let _ = std::fs::remove_dir_all(&d);
        c
    }
}

fn describe(init: &(usize, usize, Vec<usize>), ops: &[(Op, u64)]) -> String {
    let mut d = format!("init g={} l={} opts=[", GRAMMARS[init.0].0, LEXERS[init.1].0);
    let mut first = true;
    for (i, v) in init.2.iter().enumerate() {
        if *v != OPTS[i].2 {
            if !first {
                d.push(',');
            }
            first = false;
            d.push_str(&format!("{}={}", OPTS[i].0, v));
        }
    }
    d.push(']');
    for (op, dt) in ops {
        d.push_str("; ");
        match op {
            Op::EditG(g) => d.push_str(&format!("{} grammar:={}", if GRAMMARS[*g].1 { "edit" } else { "make-invalid" }, GRAMMARS[*g].0)),
            Op::EditL(l) => d.push_str(&format!("{} lexer:={}", if LEXERS[*l].1 { "edit" } else { "make-invalid" }, LEXERS[*l].0)),
            Op::Opt(i, v) => d.push_str(&format!("set {}={}", OPTS[*i].0, v)),
            Op::Build => d.push_str("BUILD"),
        }
        if *dt != 1 {
            d.push_str(&format!("(dt={})", dt));
        }
    }
    d
}

fn status_code(invoked: bool, st: &str) -> u64 {
    if !invoked {
        return 3;
    }
    match st {
        "ok" | "ok?" => 0,
        "err" => 1,
        "panic" => 2,
        _ => 3,
    }
}

#[allow(clippy::too_many_arguments)]
/// is this the first built-in witness of the run (corpus files come first and vary)
fn hid_is_first(hid: u64, a: &Args) -> bool {
    a.shard == 0 && FIRST_BUILTIN.load(Ordering::SeqCst) == hid
}
static FIRST_BUILTIN: std::sync::atomic::AtomicU64 = std::sync::atomic::AtomicU64::new(u64::MAX);

fn run_history(out: &mut Out, a: &Args, texts: &mut Interner, keys: &mut Interner, hid: u64, init: (usize, usize, Vec<usize>), ops: Vec<(Op, u64)>, origin: &str) {
    run_history_l(out, a, texts, keys, hid, init, ops, origin, hid % 4)
}

/// `layout`: 2 = the grammar is reached through a symbolic link, 3 = the source directory's name ends in `*`
fn run_history_l(out: &mut Out, a: &Args, texts: &mut Interner, keys: &mut Interner, hid: u64, init: (usize, usize, Vec<usize>), ops: Vec<(Op, u64)>, origin: &str, layout: u64) {
    let id = out.id();
    let root = a.out.join("c18tmp").join(format!("h{}", hid));
    let _ = std::fs::remove_dir_all(&root);
    // every fourth history keeps its sources in a directory whose name ends in `*` (the path, which the
    // builder records in a comment of the generated file, then contains `*/`); every fourth reaches the
    // grammar through a symbolic link (edits change the link's target, never the link)
    let srcname: &'static str = if layout == 3 { "src*" } else { "src" };
    let src = root.join(srcname);
    let inc = root.join("inc");
    std::fs::create_dir_all(&src).unwrap();
    std::fs::create_dir_all(&inc).unwrap();
    if layout == 2 {
        let real = root.join("real");
        std::fs::create_dir_all(&real).unwrap();
        let _ = std::fs::write(real.join("g.y"), "");
        let _ = std::os::unix::fs::symlink(real.join("g.y"), src.join("g.y"));
        out.count("histories_with_symlinked_grammar");
    }
    if layout == 3 {
        out.count("histories_with_comment_closer_in_path");
    }
    let _ = std::fs::write(a.out.join("current_case.txt"), describe(&init, &ops));
    let (mut g, mut l, mut s) = init.clone();
    let mut t: u64 = 0;
    let gp = src.join("g.y");
    let lp = src.join("l.l");
    let pout = inc.join("g.y.rs");
    let lout = inc.join("l.l.rs");
    { let tx = gtext(g); write_src(&gp, if g == 0 { None } else { Some(&tx[..]) }, t); }
    { let tx = ltext(l); write_src(&lp, if l == 0 { None } else { Some(&tx[..]) }, t); }
    let mut h = Hist { srcname, root: root.clone(), texts, keys, nclean: 0 };
    let mut memo: HashMap<(usize, usize, Vec<usize>), Clean> = HashMap::new();
    // model times of the output files as set by the harness
    let mut pmt: Option<u64> = None;
    let mut lmt: Option<u64> = None;
    let mut ptext_before: Option<u64> = None;
    let mut ltext_before: Option<u64> = None;
    // harness-side specification state for regenerated(): grammar version and parser settings at the
    // last successful parser build; time of the last grammar edit
    let mut gver = 0u64;
    let mut gmt_model = 0u64;
    let mut last_ok: Option<(u64, Vec<usize>)> = None;
    let mut rows: Vec<String> = Vec::new();
    let mut isteps: Vec<String> = Vec::new();
    let mut hfails: Vec<String> = Vec::new();
    let mut nbuild = 0;
    let mut prev_build_opts: Option<Vec<usize>> = None;
    for (op, dt) in &ops {
        t += dt;
        match op {
            Op::EditG(g2) => {
                g = *g2;
                gver += 1;
                gmt_model = t;
                { let tx = gtext(g); write_src(&gp, if g == 0 { None } else { Some(&tx[..]) }, t); }
                out.count(if GRAMMARS[g].1 { "op_edit_grammar" } else { "op_make_grammar_invalid" });
            }
            Op::EditL(l2) => {
                l = *l2;
                { let tx = ltext(l); write_src(&lp, if l == 0 { None } else { Some(&tx[..]) }, t); }
                out.count(if LEXERS[l].1 { "op_edit_lexer" } else { "op_make_lexer_invalid" });
            }
            Op::Opt(i, v) => {
                s[*i] = *v;
                out.count("op_change_option");
            }
            Op::Build => {
                nbuild += 1;
                let pmt_before = pmt;
                out.count("op_build");
                if let Some(po) = &prev_build_opts {
                    for i in 0..OPTS.len() {
                        if po[i] != s[i] {
                            out.count(&format!("toggled_between_builds_{}", OPTS[i].0));
                        }
                    }
                }
                prev_build_opts = Some(s.clone());
                let key = (g, l, s.clone());
                let c = match memo.get(&key) {
                    Some(c) => c.clone(),
                    None => {
                        let c = h.clean(&s);
                        memo.insert(key, c.clone());
                        c
                    }
                };
                rows.push(format!("{} {} {} {} {}", c.pcls, c.pkey, c.ptext, c.lcls, c.ltext));
                // the incremental build
                let r = run_child(&src, &inc, &s);
                let pf = h.read_out(&pout);
                let lf = h.read_out(&lout);
                let p_rewritten = match (get_mtime(&pout), pmt) {
                    (Some(m), Some(old)) => m != UNIX_EPOCH + Duration::from_secs(BASE + old),
                    (Some(_), None) => true,
                    _ => false,
                };
                let l_rewritten = match (get_mtime(&lout), lmt) {
                    (Some(m), Some(old)) => m != UNIX_EPOCH + Duration::from_secs(BASE + old),
                    (Some(_), None) => true,
                    _ => false,
                };
                if pf.is_some() {
                    if p_rewritten {
                        set_mtime(&pout, t);
                        pmt = Some(t);
                    }
                } else {
                    pmt = None;
                }
                if lf.is_some() {
                    if l_rewritten {
                        set_mtime(&lout, t);
                        lmt = Some(t);
                    }
                } else {
                    lmt = None;
                }
                let pst = status_code(r.p_invoked, &r.p_status);
                let lst = status_code(r.l_invoked, &r.l_status);
                let p_ok = pst == 0;
                let regen = if p_ok { r.p_regen.unwrap_or(p_rewritten) } else { false };
                // a parser panic is reported like an error return
                let pst_i = if pst == 2 { 1 } else { pst };
                isteps.push(format!(
                    "b{}:{},{},{},{},{},{},{},{},{},{}",
                    nbuild,
                    pst_i,
                    regen as u8,
                    pf.is_some() as u8,
                    pf.as_ref().map(|x| x.0).unwrap_or(0),
                    pmt.unwrap_or(0),
                    lst,
                    (lst == 0 && l_rewritten) as u8,
                    lf.is_some() as u8,
                    lf.as_ref().map(|x| x.0).unwrap_or(0),
                    lmt.unwrap_or(0)
                ));
                // ---- harness-side specification checks -------------------------------------------------
                let pcur = pf.as_ref().map(|x| x.0);
                let lcur = lf.as_ref().map(|x| x.0);
                let step = format!("step={} (build #{})", describe_step(&s, g, l), nbuild);
                if r.crashed {
                    hfails.push(format!("child-crashed {}", step));
                }
                if r.p_invoked {
                    if !p_ok && pcur.is_some() {
                        hfails.push(format!("stale-after-failed-build parser output exists after CTParserBuilder::build failed ({}) {}", r.p_msg, step));
                    } else if pcur != c.pfile || p_ok != (c.pcls == 2) {
                        hfails.push(format!("differs-from-clean-build parser: incremental {:?} ok={} vs clean {:?} {}", pcur, p_ok, c.pfile, step));
                    }
                } else if pcur.is_some() && pcur != c.pfile {
                    hfails.push(format!("uninvoked-builder-output-kept parser output of an earlier build remains: the failing build never reached CTParserBuilder (lexer: {}) {}", r.l_msg, step));
                }
                if r.l_invoked {
                    if lst != 0 && lcur.is_some() {
                        hfails.push(format!("stale-after-failed-build lexer output exists after CTLexerBuilder::build failed ({}) {}", r.l_msg, step));
                    } else if lcur != c.lfile || (lst == 0) != (c.res.l_status == "ok") {
                        hfails.push(format!("differs-from-clean-build lexer: incremental {:?} status={} vs clean {:?} {}", lcur, r.l_status, c.lfile, step));
                    }
                } else if lcur.is_some() && lcur != c.lfile {
                    hfails.push(format!("uninvoked-builder-output-kept lexer output of an earlier build remains: CTParserBuilder failed ({}) and the build script stopped {}", r.p_msg, step));
                }
                if p_ok && r.p_invoked {
                    if let Some(rg) = r.p_regen {
                        if rg != p_rewritten {
                            hfails.push(format!("regenerated-flag regenerated()={} but file rewritten={} {}", rg, p_rewritten, step));
                        }
                    }
                    let edited_since = last_ok.as_ref().map(|x| x.0 != gver).unwrap_or(true);
                    let same_cfg = last_ok.as_ref().map(|x| x.0 == gver && x.1[..] == s[..N_PARSER_OPTS]).unwrap_or(false);
                    let must = ptext_before.is_none() || edited_since || ptext_before != c.pfile;
                    if must && !regen {
                        hfails.push(format!("regenerated-flag changed configuration not regenerated {}", step));
                    } else if must {
                        out.count("spec_must_regenerate");
                    }
                    // unchanged: same grammar version and parser options as at the last successful parser build,
                    // and the output that was there was strictly newer than the grammar file
                    let strict = pmt_before.map(|p| p > gmt_model).unwrap_or(false);
                    if same_cfg && ptext_before.is_some() && strict {
                        if regen {
                            hfails.push(format!("regenerated-flag unchanged configuration regenerated {}", step));
                        } else {
                            out.count("spec_unchanged_not_regenerated");
                        }
                    } else if same_cfg && ptext_before.is_some() {
                        out.count("unchanged_but_equal_mtimes");
                    }
                }
                if lst == 0 {
                    let should = ltext_before != lcur;
                    if should != l_rewritten {
                        hfails.push(format!("lexer-rewrite lexer output rewritten={} but text changed={} {}", l_rewritten, should, step));
                    }
                    out.count(if l_rewritten { "lexer_rewritten" } else { "lexer_kept" });
                }
                // bookkeeping
                if p_ok && r.p_invoked {
                    last_ok = Some((gver, s[..N_PARSER_OPTS].to_vec()));
                    out.count(if regen { "parser_regenerated" } else { "parser_not_regenerated" });
                } else if r.p_invoked {
                    last_ok = None;
                    out.count(if c.pcls == 1 { "parser_failed_late" } else { "parser_failed_early" });
                } else {
                    out.count("parser_not_invoked");
                }
                if r.l_invoked && lst != 0 {
                    out.count(match c.lcls { 0 => "lexer_failed_pre", 1 => "lexer_failed_post", 2 => "lexer_missing_token_panic", _ => "lexer_failed_other" });
                } else if !r.l_invoked {
                    out.count("lexer_not_invoked");
                }
                ptext_before = pcur;
                ltext_before = lcur;
            }
        }
    }
    // request + answers
    let mut req = format!("{} {} {} {}", MODE_IDX, init.0, init.1, crate::out::plist(&init.2));
    req.push_str(&format!(" {}", ops.len()));
    for (op, dt) in &ops {
        match op {
            Op::EditG(g) => req.push_str(&format!(" 0 {} 0 {}", g, dt)),
            Op::EditL(l) => req.push_str(&format!(" 1 {} 0 {}", l, dt)),
            Op::Opt(i, v) => req.push_str(&format!(" 2 {} {} {}", i, v, dt)),
            Op::Build => req.push_str(&format!(" 3 0 0 {}", dt)),
        }
    }
    req.push_str(&format!(" {}", rows.len()));
    for r in &rows {
        req.push(' ');
        req.push_str(r);
    }
    if origin == "corpus" && hid_is_first(hid, a) {
        // the one history that needs a different storage type rides on the first built-in witness
        out.count("narrow_storage_histories");
        if let Some(f) = narrow_storage_history(a) {
            hfails.push(f);
        }
    }
    out.case("C18", id, &req);
    let desc = format!("{} history [layout={}]: {}", origin, ["plain", "plain", "symlinked-grammar", "source-dir-named-src*"][(layout % 4) as usize], describe(&init, &ops));
    out.imp(id, "D", &desc);
    out.imp(id, "I", &isteps.join(" "));
    if hfails.is_empty() {
        out.imp(id, "H", "ok");
    } else {
        let mut seen: Vec<String> = Vec::new();
        for f in &hfails {
            let class = f.split(' ').next().unwrap_or("").to_string();
            if seen.contains(&class) {
                continue;
            }
            seen.push(class);
            out.imp(id, "H", &format!("fail {}", f));
        }
    }
    out.count("histories");
    if out.next_id % 5 == 1 {
        out.sample(desc);
    }
    let _ = std::fs::remove_dir_all(&root);
}

fn describe_step(s: &[usize], g: usize, l: usize) -> String {
    let mut d = format!("g={} l={}", GRAMMARS[g].0, LEXERS[l].0);
    for (i, v) in s.iter().enumerate() {
        if *v != OPTS[i].2 {
            d.push_str(&format!(" {}={}", OPTS[i].0, v));
        }
    }
    d
}

fn gen_history(rng: &mut Rng, hidx: usize) -> ((usize, usize, Vec<usize>), Vec<(Op, u64)>) {
    let mut s: Vec<usize> = OPTS.iter().map(|o| o.2).collect();
    // a few random non-default starting options
    for _ in 0..rng.below(3) {
        let i = rng.below(OPTS.len());
        s[i] = rng.below(OPTS[i].1);
    }
    if rng.chance(1, 3) {
        s[MODE_IDX] = 2;
    }
    let g = *rng.pick(VALID_G);
    let l = *rng.pick(VALID_L);
    let mut ops: Vec<(Op, u64)> = Vec::new();
    let dt = |rng: &mut Rng| if rng.chance(1, 8) { 0 } else { rng.range(1, 2) as u64 };
    ops.push((Op::Build, 1));
    // forced: three options toggled between two builds (covers every option over the run)
    let mut cur = s.clone();
    for k in 0..3 {
        let i = (hidx * 3 + k) % OPTS.len();
        let mut v = rng.below(OPTS[i].1);
        if v == cur[i] {
            v = (v + 1) % OPTS[i].1;
        }
        cur[i] = v;
        ops.push((Op::Opt(i, v), dt(rng)));
        ops.push((Op::Build, dt(rng)));
        if rng.chance(1, 2) {
            // and back
            let v0 = s[i];
            cur[i] = v0;
            ops.push((Op::Opt(i, v0), dt(rng)));
            ops.push((Op::Build, dt(rng)));
        }
    }
    let n = rng.range(6, 14);
    for _ in 0..n {
        let d = dt(rng);
        match rng.below(11) {
            0 | 1 => ops.push((Op::EditG(*rng.pick(VALID_G)), d)),
            2 => ops.push((Op::EditG(*rng.pick(INVALID_G)), d)),
            3 | 10 => ops.push((Op::EditL(*rng.pick(VALID_L)), d)),
            4 => ops.push((Op::EditL(*rng.pick(INVALID_L)), d)),
            5 | 6 => {
                let i = rng.below(OPTS.len());
                ops.push((Op::Opt(i, rng.below(OPTS[i].1)), d));
            }
            _ => ops.push((Op::Build, d)),
        }
    }
    ops.push((Op::Build, 1));
    (( g, l, s), ops)
}

/// hand-written histories: the witnesses of the design-time observations, run first
fn corpus() -> Vec<((usize, usize, Vec<usize>), Vec<(Op, u64)>)> {
    let d: Vec<usize> = OPTS.iter().map(|o| o.2).collect();
    let mut nested = d.clone();
    nested[MODE_IDX] = 2;
    let b = (Op::Build, 1);
    vec![
        // valid grammar, build, make it unparsable, build, restore, build
        ((1, 1, d.clone()), vec![b.clone(), (Op::EditG(6), 1), b.clone(), (Op::EditG(1), 1), b.clone()]),
        // the same under lrpar_config
        ((1, 1, nested.clone()), vec![b.clone(), (Op::EditG(6), 1), b.clone(), (Op::EditG(1), 1), b.clone()]),
        // conflicts error, %expect mismatch, warnings as errors, unreadable grammar
        ((1, 1, d.clone()), vec![b.clone(), (Op::EditG(7), 1), b.clone(), (Op::EditG(8), 1), b.clone(), (Op::EditG(9), 1), b.clone(), (Op::EditG(0), 1), b.clone(), (Op::EditG(1), 1), b.clone()]),
        // lexer becomes unparsable / unreadable; missing token
        ((1, 1, d.clone()), vec![b.clone(), (Op::EditL(5), 1), b.clone(), (Op::EditL(0), 1), b.clone(), (Op::EditL(1), 1), b.clone(), (Op::EditG(2), 1), b.clone()]),
        ((1, 1, nested.clone()), vec![b.clone(), (Op::EditL(5), 1), b.clone(), (Op::EditL(1), 1), b.clone(), (Op::EditG(2), 1), b.clone(), (Op::Opt(14, 1), 1), b.clone()]),
        // a conflicting grammar built leniently, then strictly (and back): the second build must fail
        ((7, 1, { let mut x = d.clone(); x[2] = 0; x }), vec![b.clone(), (Op::Opt(2, 1), 1), b.clone(), (Op::Opt(2, 0), 1), b.clone()]),
        ((7, 1, { let mut x = nested.clone(); x[2] = 0; x }), vec![b.clone(), (Op::Opt(2, 1), 1), b.clone()]),
        // options that carry data: only the data changes between two builds (same variant / same setter)
        ((1, 1, { let mut x = d.clone(); x[5] = 5; x }), vec![b.clone(), (Op::Opt(5, 6), 1), b.clone(), (Op::Opt(5, 5), 1), b.clone()]),
        ((1, 1, { let mut x = d.clone(); x[12] = 5; x }), vec![b.clone(), (Op::Opt(12, 6), 1), b.clone(), (Op::Opt(12, 5), 1), b.clone()]),
        ((1, 1, { let mut x = nested.clone(); x[5] = 6; x[12] = 6; x }), vec![b.clone(), (Op::Opt(5, 5), 1), b.clone(), (Op::Opt(12, 5), 1), b.clone()]),
        ((1, 1, { let mut x = d.clone(); x[7] = 1; x[11] = 1; x }), vec![b.clone(), (Op::Opt(7, 2), 1), b.clone(), (Op::Opt(11, 2), 1), b.clone()]),
        // option changes that make the build fail early (warnings_are_errors, yacckind) and back
        ((9, 1, { let mut x = d.clone(); x[3] = 0; x }), vec![b.clone(), (Op::Opt(3, 1), 1), b.clone(), (Op::Opt(3, 0), 1), b.clone()]),
        ((1, 1, d.clone()), vec![b.clone(), (Op::Opt(0, 3), 1), b.clone(), (Op::Opt(0, 0), 1), b.clone(), (Op::Opt(0, 2), 1), b.clone(), (Op::Opt(7, 3), 1), b.clone()]),
        // unchanged rebuilds of a grammar whose cache record is long (200 tokens), then a real change
        ((12, 8, d.clone()), vec![b.clone(), b.clone(), b.clone(), (Op::EditL(1), 1), b.clone(), (Op::EditL(8), 1), b.clone(), b.clone()]),
        ((12, 8, nested.clone()), vec![b.clone(), b.clone(), b.clone()]),
        // an edit whose timestamp lies in the future of the machine's clock (the model clock starts in 2020;
        // + 400 000 000 s is 2033), then unchanged rebuilds at that time
        ((1, 1, d.clone()), vec![b.clone(), (Op::EditG(13), 400_000_000), b.clone(), b.clone(), (Op::EditG(1), 5), b.clone()]),
        ((1, 1, nested.clone()), vec![b.clone(), (Op::EditL(2), 400_000_000), (Op::EditG(13), 1), b.clone(), b.clone()]),
        // the same edit (same tokens, other rules) at ordinary and at equal timestamps
        ((1, 1, d.clone()), vec![b.clone(), (Op::EditG(13), 1), b.clone(), (Op::EditG(1), 0), b.clone(), b.clone()]),
        // unchanged rebuilds, equal timestamps
        ((2, 2, d.clone()), vec![b.clone(), b.clone(), (Op::EditG(2), 0), (Op::Build, 0), (Op::Build, 0), b.clone()]),
    ]
}

fn parse_request(line: &str) -> Option<((usize, usize, Vec<usize>), Vec<(Op, u64)>)> {
    let mut it = line.split_whitespace();
    if it.next()? != "C18" {
        return None;
    }
    let _id = it.next()?;
    let v: Vec<usize> = it.map(|x| x.parse().ok()).collect::<Option<Vec<usize>>>()?;
    let mut i = 1;
    let g = *v.get(i)?;
    let l = *v.get(i + 1)?;
    let ns = *v.get(i + 2)?;
    i += 3;
    let s = v.get(i..i + ns)?.to_vec();
    i += ns;
    let nops = *v.get(i)?;
    i += 1;
    let mut ops = Vec::new();
    for _ in 0..nops {
        let c = v.get(i..i + 4)?;
        ops.push((
            match c[0] {
                0 => Op::EditG(c[1]),
                1 => Op::EditL(c[1]),
                2 => Op::Opt(c[1], c[2]),
                _ => Op::Build,
            },
            c[3] as u64,
        ));
        i += 4;
    }
    if s.len() != OPTS.len() || g >= GRAMMARS.len() || l >= LEXERS.len() {
        return None;
    }
    Some(((g, l, s), ops))
}

pub fn run(a: &Args) {
    if let Some(i) = a.extra.iter().position(|x| x == "--child") {
        let src = PathBuf::from(a.extra.get(i + 1).cloned().unwrap_or_default());
        let outd = PathBuf::from(a.extra.get(i + 2).cloned().unwrap_or_default());
        let s: Vec<usize> = a.extra.get(i + 3).map(|x| x.split(',').filter_map(|y| y.parse().ok()).collect()).unwrap_or_default();
        if s.len() != OPTS.len() {
            eprintln!("bad option vector");
            std::process::exit(2);
        }
        child(&src, &outd, &s);
        return;
    }
    if let Some(i) = a.extra.iter().position(|x| x == "--child8") {
        let src = PathBuf::from(a.extra.get(i + 1).cloned().unwrap_or_default());
        let outd = PathBuf::from(a.extra.get(i + 2).cloned().unwrap_or_default());
        child8(&src, &outd);
        return;
    }
    let mut out = Out::new(&a.out);
    let mut texts = Interner::default();
    let mut keys = Interner::default();
    let tmp = a.out.join("c18tmp");
    let _ = std::fs::remove_dir_all(&tmp);
    if let Some(rp) = &a.replay {
        let txt = std::fs::read_to_string(rp).unwrap_or_default();
        let mut n = 0;
        for line in txt.lines() {
            if let Some((init, ops)) = parse_request(line) {
                n += 1;
                // a replay of the case the narrow-storage history rode on runs that history again
                let narrow = n == 1 && txt.contains("8-bit storage");
                if narrow {
                    FIRST_BUILTIN.store(1, Ordering::SeqCst);
                }
                let layout = if txt.contains("[layout=symlinked-grammar]") { 2 } else if txt.contains("[layout=source-dir-named-src*]") { 3 } else { 0 };
                run_history_l(&mut out, a, &mut texts, &mut keys, n, init, ops, if narrow { "corpus" } else { "replay" }, layout);
            }
        }
        let _ = std::fs::remove_dir_all(&tmp);
        out.finish(&a.out);
        return;
    }
    let mut hid = 0u64;
    // corpus files (request lines of past failures; cwd = the verification root), then the built-in witnesses
    if a.shard == 0 {
        let mut files: Vec<PathBuf> = std::fs::read_dir("corpus/C18").map(|d| d.filter_map(|e| e.ok().map(|e| e.path())).collect()).unwrap_or_default();
        files.sort();
        for f in files {
            for line in std::fs::read_to_string(&f).unwrap_or_default().lines() {
                if let Some((init, ops)) = parse_request(line) {
                    hid += 1;
                    run_history(&mut out, a, &mut texts, &mut keys, hid, init, ops, "corpus-file");
                }
            }
        }
    }
    for (k, (init, ops)) in corpus().into_iter().enumerate() {
        if k % a.shards != a.shard {
            continue;
        }
        hid += 1;
        if k == 0 {
            FIRST_BUILTIN.store(hid, Ordering::SeqCst);
        }
        run_history(&mut out, a, &mut texts, &mut keys, hid, init, ops, "corpus");
    }
    let n = if a.thorough { 1500 } else { 120 };
    for case in 0..n {
        if case % a.shards != a.shard {
            continue;
        }
        let mut rng = Rng::for_case(a.seed, 18, case as u64 + 1);
        let (init, ops) = gen_history(&mut rng, case);
        hid += 1;
        run_history(&mut out, a, &mut texts, &mut keys, hid, init, ops, "random");
    }
    let _ = std::fs::remove_dir_all(&tmp);
    out.finish(&a.out);
}
