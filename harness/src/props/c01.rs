//! C01 / C04: the validator (`Cert.check`) on every dumped automaton, and the LR driver model against
//! the real parser on generated inputs (sentences, near-sentences, all short strings).
use crate::gen::automaton::dump_automaton;
use crate::gen::grammar::{self, GenCfg};
use crate::gen::parse::{lr_terminates, parse_actions, parse_generic_shape};
use crate::gen::sentences::inputs_for;
use crate::gen::worker::{WResult, Worker};
use crate::out::{guarded, plist, Out};
use crate::rng::Rng;
use crate::Args;
use lrpar::RecoveryKind;
use lrtable::{from_yacc, Minimiser};

pub fn emit(out: &mut Out, worker: &mut Worker, text: &str, rng: &mut Rng, thorough: bool, kind: &str, prop: &str) {
    let g = match grammar::build(text) {
        Ok(g) => g,
        Err(_) => {
            out.count("rejected_grammars");
            return;
        }
    };
    let (sg, st) = match from_yacc(&g, Minimiser::Pager) {
        Ok(x) => x,
        Err(_) => {
            out.count("accept_reduce_conflict_grammars");
            return;
        }
    };
    let id = out.id();
    let inputs = inputs_for(&g, rng, thorough);
    let mut ilines = Vec::new();
    let mut accepted = Vec::new();
    let mut hfail: Option<String> = grammar::api_consistent(&g).err();
    if prop == "C04" {
        if let Some(e) = NP_FAIL.lock().unwrap().take() {
            hfail.get_or_insert(e);
        }
    }
    let mut n_acc = 0;
    let mut n_err = 0;
    let mut n_div = 0;
    let mut n_rec = 0u64;
    let mut n_slow = 0u64;
    let mut n_hang = 0u64;
    let mut n_cost = 0u64;
    let rec_budget: u64 = if thorough { 40 } else { 10 };
    for (k, w) in inputs.iter().enumerate() {
        if !lr_terminates(&g, &st, w, 400 * (w.len() + 2)) {
            // the plain LR loop does not terminate on this table/input (C07's finding); not parsed
            ilines.push(format!("{} div", k));
            accepted.push(2);
            n_div += 1;
            continue;
        }
        let r = guarded(std::panic::AssertUnwindSafe(|| parse_actions(&g, &st, w, RecoveryKind::None, None)));
        // C04: recovery stays switched off whatever else is set on the builder — token costs, in either
        // order of the two setters (the harness alternates it with the input's length); in the killable
        // worker, because a recoverer that runs against the setting has no bound of its own
        if prop == "C04" && w.len() <= 8 && n_cost < 2 * rec_budget {
            if let Ok(po) = &r {
                n_cost += 1;
                let unit: Vec<u8> = vec![1; usize::from(g.tokens_len())];
                match worker.parse(text, w, false, Some(&unit), std::time::Duration::from_millis(2500)) {
                    WResult::Ok(p2) => {
                        let same = p2.tree.is_some() == po.tree.is_some()
                            && p2.errors.len() == po.errors.len()
                            && p2.errors.iter().all(|e| e.repairs.is_empty());
                        if !same {
                            hfail.get_or_insert(format!(
                                "recovery off with token costs set: value={} errors={} repair sequences={} on {:?}; without costs value={} errors={}",
                                p2.tree.is_some(), p2.errors.len(), p2.errors.iter().map(|e| e.repairs.len()).sum::<usize>(), w, po.tree.is_some(), po.errors.len()));
                        }
                    }
                    WResult::Hang => { hfail.get_or_insert(format!("recovery off with token costs set: the parse does not return on {:?}", w)); }
                    WResult::Panic(m) => { hfail.get_or_insert(format!("recovery off with token costs set: panic on {:?}: {}", w, m)); }
                    WResult::NoGrammar => {}
                }
            }
        }
        match r {
            Err(e) => {
                ilines.push(format!("{} panic", k));
                accepted.push(0);
                hfail.get_or_insert(format!("parser panicked on input {:?}: {}", w, e));
            }
            Ok(po) => match (&po.tree, po.errors.len()) {
                (Some(t), 0) => {
                    ilines.push(format!("{} acc {}", k, t.to_text()));
                    accepted.push(1);
                    n_acc += 1;
                    // the generic parse-tree mode must give the same tree shape (C08's last sentence)
                    if let Some(shape) = parse_generic_shape(&g, &st, w, RecoveryKind::None) {
                        let mine = shape_of(&g, t);
                        if shape != mine {
                            hfail.get_or_insert(format!("parse_map tree differs from action tree on {:?}", w));
                        }
                    }
                }
                (None, 1) => {
                    let e = &po.errors[0];
                    ilines.push(format!("{} err {} {}", k, e.laidx(w.len()), e.state));
                    accepted.push(0);
                    n_err += 1;
                    // C01 asks only that a non-sentence is reported as one with recovery on too (a few
                    // inputs per grammar); C04 also where
                    let rec_cap = if prop == "C04" { rec_budget } else if prop == "C01" { rec_budget / 3 + 1 } else { 0 };
                    if w.len() <= 8 && n_rec < rec_cap && n_slow + n_hang < 2 {
                        // with recovery on, the first reported error is at that same lexeme, in that state
                        // (killable worker: the recovery loop has no bound of its own)
                        match worker.parse(text, w, true, None, std::time::Duration::from_millis(2500)) {
                            WResult::Ok(p2) if p2.errors.is_empty() => {
                                // however long the recoverer searched: no error at all for a non-sentence
                                hfail.get_or_insert(format!(
                                    "recovery on: no error is reported for the non-sentence {:?} (value={}); recovery off reports lexeme {} state {}",
                                    w, p2.tree.is_some(), e.laidx(w.len()), e.state));
                            }
                            WResult::Ok(p2) if p2.wall_ms < 450 => {
                                n_rec += 1;
                                match p2.errors.first() {
                                    Some(e2) if e2.laidx == e.laidx(w.len()) && e2.state == e.state => {}
                                    other => {
                                        hfail.get_or_insert(format!(
                                            "recovery on: first error {:?} but recovery off reports lexeme {} state {} on {:?}",
                                            other.map(|x| (x.laidx, x.state)), e.laidx(w.len()), e.state, w));
                                    }
                                }
                            }
                            WResult::Ok(_) => n_slow += 1,
                            WResult::Hang => n_hang += 1,
                            WResult::NoGrammar => {}
                            WResult::Panic(m) => { hfail.get_or_insert(format!("recovering parser panicked on {:?}: {}", w, m)); }
                        }
                    }
                }
                (t, n) => {
                    ilines.push(format!("{} odd value={} errors={}", k, t.is_some(), n));
                    accepted.push(0);
                    hfail.get_or_insert(format!("recovery off: value={} with {} errors on {:?}", t.is_some(), n, w));
                }
            },
        }
    }
    let mut payload = format!("{} {} {}", grammar::dump_grammar(&g), dump_automaton(&g, &sg, &st), inputs.len());
    for w in &inputs {
        payload.push(' ');
        payload.push_str(&plist(w));
    }
    payload.push(' ');
    payload.push_str(&crate::out::join(&accepted));
    out.case(prop, id, &payload);
    for l in &ilines {
        out.imp(id, "I", l);
    }
    if prop == "C04" {
        // position-only view, compared with the position the property prescribes (`Sp`)
        for l in &ilines {
            let f: Vec<&str> = l.split(' ').collect();
            let v = match f.get(1) {
                Some(&"acc") => format!("{} acc", f[0]),
                Some(&"err") => format!("{} err {}", f[0], f.get(2).unwrap_or(&"?")),
                Some(x) => format!("{} {}", f[0], x),
                None => l.clone(),
            };
            out.imp(id, "Ip", &v);
        }
    }
    match hfail {
        None => out.imp(id, "H", "ok"),
        Some(e) => out.imp(id, "H", &format!("fail {}", e)),
    }
    let desc = format!("grammar=[{}] inputs={}", text.replace('\n', " ").trim(), inputs.len());
    out.imp(id, "D", &desc);
    out.imp(id, "G", &text.replace('\n', "\\n"));
    out.count(&format!("kind.{}", kind));
    out.count(&format!("states.{}", (usize::from(sg.all_states_len()) / 5) * 5));
    out.count(if st.conflicts().is_some() { "with_conflicts" } else { "conflict_free" });
    out.add("inputs", inputs.len() as u64);
    out.add("inputs_accepted", n_acc);
    out.add("inputs_rejected", n_err);
    out.add("inputs_lr_diverges", n_div);
    out.add("recovering_parses_compared", n_rec);
    out.add("recovering_parses_inconclusive_slow", n_slow);
    out.add("recovering_parses_not_returning", n_hang);
    if out.next_id % 37 == 1 {
        out.sample(desc);
    }
}

fn shape_of(g: &cfgrammar::yacc::YaccGrammar<u32>, t: &crate::gen::parse::PTree) -> String {
    use crate::gen::parse::{PTree, STRIDE};
    match t {
        PTree::Leaf(tok, st, _, false) => format!("L {} {}", tok, st / STRIDE),
        PTree::Leaf(tok, st, _, true) => format!("L {} {}", tok, st + 1_000_000),
        PTree::Node(p, kids) => {
            let ks: Vec<String> = kids.iter().map(|k| shape_of(g, k)).collect();
            format!("R {} {} {}", usize::from(g.prod_to_rule(cfgrammar::PIdx(*p as u32))), kids.len(), ks.join(" ")).trim().to_string()
        }
    }
}

static NP_FAIL: std::sync::Mutex<Option<String>> = std::sync::Mutex::new(None);

pub fn run_prop(a: &Args, prop: &str, pnum: u64) {
    let mut out = Out::new(&a.out);
    let mut worker = Worker::new();
    if let Some(rp) = &a.replay {
        let txt = std::fs::read_to_string(rp).unwrap_or_default();
        let mut rng = Rng::for_case(a.seed, pnum, 0);
        for line in txt.lines() {
            if let Some(rest) = line.strip_prefix("# G ") {
                emit(&mut out, &mut worker, &rest.replace("\\n", "\n"), &mut rng, a.thorough, "replay", prop);
            }
        }
        out.finish(&a.out);
        return;
    }
    if a.shard == 0 && prop == "C04" {
        // the command-line tool against the library on the same sources (rides on the first case)
        out.count("nimbleparse_end_to_end_runs");
        *NP_FAIL.lock().unwrap() = super::np::check(&a.out);
    }
    if a.shard == 0 {
        let mut rng = Rng::for_case(a.seed, pnum, 0);
        for t in grammar::classics() {
            emit(&mut out, &mut worker, t, &mut rng, a.thorough, "classic", prop);
        }
    }
    let n = if a.thorough { 4000 } else { 300 };
    for case in 0..n {
        if case % a.shards != a.shard {
            continue;
        }
        let mut rng = Rng::for_case(a.seed, pnum, case as u64 + 1);
        let cfg = GenCfg { precs: rng.chance(1, 4), ..GenCfg::default() };
        if case % 8 == 5 {
            // same-core states that Pager must merge or keep apart (see C02)
            let t = match rng.below(8) { 0 => grammar::pager_orphan_family(&mut rng), 1 | 2 | 3 => grammar::nullable_tail_family(&mut rng), 4 | 5 => grammar::cascade_family(&mut rng), _ => grammar::general_contexts(&mut rng) };
            emit(&mut out, &mut worker, &t, &mut rng, a.thorough, "contexts", prop);
            continue;
        }
        let g = if case % 4 == 2 { grammar::layered_grammar(&mut rng) } else { grammar::random_grammar(&mut rng, &cfg) };
        if case % 16 == 7 || case % 16 == 10 {
            let t = grammar::with_many_tokens(&g.render(), &mut rng);
            emit(&mut out, &mut worker, &t, &mut rng, a.thorough, "many_tokens", prop);
            continue;
        }
        emit(&mut out, &mut worker, &g.render(), &mut rng, a.thorough, if case % 4 == 2 { "layered" } else { "random" }, prop);
    }
    out.finish(&a.out);
}

pub fn run(a: &Args) {
    run_prop(a, "C01", 1);
}
