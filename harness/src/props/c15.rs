//! C15: the same sources give the same grammar, state graph, table, conflicts (as a multiset) and
//! generated code in every process; first use of a generated parser from several threads gives each
//! thread the sequential result.
//!
//! For every grammar the full pipeline (text -> AST -> `YaccGrammar` -> `lrtable::from_yacc` -> through
//! `CTLexerBuilder`/`CTParserBuilder` the generated `.rs` text) is run in M separate child PROCESSES
//! (`vharness C15 --child LIST DIR`; fresh `RandomState` keys in each) and the complete digests are
//! compared section by section. A difference is an `H fail` with the grammar as replay.
//!
//! Request line for the Lean driver (one per grammar):
//!   `ntoks base nproc { has k o_1..o_k a a_1..a_a hasai }*nproc  nstates start { deg tgt* }*nstates`
//! with `o_i` the token indices of `ast.implicit_tokens` and `a_i` those of `ast.avoid_insert` in the
//! iteration order observed in that process. `I` = per process the implicit rule's productions and the
//! `avoid_insert` bits of the built grammar, in the format of the driver's `M` (model applied to the
//! observed order) and `S` (specification: numbering by token index, whatever the order) lines.
//! `V` = the verified reachability function on the dumped edges (the postcondition of pager.rs `gc`).
use crate::gen::grammar::{self, AGrammar, GenCfg, S};
use crate::out::{guarded, Out};
use crate::rng::Rng;
use crate::Args;
use cfgrammar::yacc::ast::ASTWithValidityInfo;
use cfgrammar::yacc::{YaccGrammar, YaccKind, YaccOriginalActionKind};
use cfgrammar::{RIdx, Symbol};
use lrlex::{CTLexerBuilder, DefaultLexerTypes, LRNonStreamingLexerDef, LexerDef};
use lrpar::{RTParserBuilder, RecoveryKind};
use lrtable::{from_yacc, Action, Minimiser};
use std::collections::{BTreeMap, HashMap};
use std::fmt::Write as _;
use std::io::Write as _;
use std::path::{Path, PathBuf};
use std::process::{Command, Stdio};
use std::sync::atomic::{AtomicUsize, Ordering};
use std::sync::{Arc, Barrier, OnceLock};
use std::time::{Duration, Instant};

const KINDS: [&str; 5] = ["original-gpt", "original-noaction", "original-useraction", "grmtools", "eco"];

fn kind_of(k: usize) -> YaccKind {
    match k {
        0 => YaccKind::Original(YaccOriginalActionKind::GenericParseTree),
        1 => YaccKind::Original(YaccOriginalActionKind::NoAction),
        2 => YaccKind::Original(YaccOriginalActionKind::UserAction),
        3 => YaccKind::Grmtools,
        _ => YaccKind::Eco,
    }
}

#[derive(Clone)]
struct Case {
    kind: usize,
    text: String,
    lex: String,
    origin: String,
}

fn esc(s: &str) -> String {
    s.replace('\\', "\\\\").replace('\n', "\\n").replace('\t', "\\t")
}

fn unesc(s: &str) -> String {
    let mut o = String::new();
    let mut it = s.chars();
    while let Some(c) = it.next() {
        if c == '\\' {
            match it.next() {
                Some('n') => o.push('\n'),
                Some('t') => o.push('\t'),
                Some(x) => o.push(x),
                None => {}
            }
        } else {
            o.push(c);
        }
    }
    o
}

/// a lexer that defines every `tN` the grammar text mentions (and blanks to skip)
fn lexer_for(text: &str) -> String {
    let mut names: Vec<String> = Vec::new();
    let b: Vec<char> = text.chars().collect();
    let mut i = 0;
    while i < b.len() {
        if b[i] == '\'' {
            let mut j = i + 1;
            while j < b.len() && b[j] != '\'' {
                j += 1;
            }
            let n: String = b[i + 1..j.min(b.len())].iter().collect();
            if !n.is_empty() && n.chars().all(|c| c.is_ascii_alphanumeric()) && !names.contains(&n) {
                names.push(n);
            }
            i = j + 1;
        } else {
            i += 1;
        }
    }
    // longest names first so that `t10` is not lexed as `t1` `0`
    names.sort_by(|a, b| b.len().cmp(&a.len()).then(a.cmp(b)));
    // start states that are never entered, and a rule conditioned on several of them: the list a rule
    // carries is written into the generated module and must come out in the order of the source
    let mut s = String::from("%s SA\n%x SB\n%s SC\n%s SD\n%%\n");
    for n in &names {
        s.push_str(&format!("{} \"{}\"\n", n, n));
    }
    s.push_str("<SC,SA,SD,SB>~ ;\n<SB,SD>~~ <SA>;\n");
    s.push_str("[ \\n]+ ;\n");
    s
}

/// render an abstract grammar for one of the five kinds; `implicit` = names of `%implicit_tokens` (Eco)
fn render(g: &AGrammar, kind: usize, implicit: &[String]) -> String {
    if kind <= 1 {
        return g.render();
    }
    if kind == 4 {
        let base = g.render();
        if implicit.is_empty() {
            return base;
        }
        // directives go before the `%%`
        let ts: Vec<String> = implicit.iter().map(|t| format!("'{}'", t)).collect();
        return base.replacen("%%\n", &format!("%implicit_tokens {}\n%%\n", ts.join(" ")), 1);
    }
    // kinds with user actions: re-render the rules with action code (and types)
    let base = g.render();
    let head = &base[..base.find("%%\n").unwrap()];
    let mut s = String::from(head);
    if kind == 2 {
        s.push_str("%actiontype u32\n");
    }
    s.push_str("%%\n");
    for (i, r) in g.rules.iter().enumerate() {
        let alts: Vec<String> = r
            .iter()
            .enumerate()
            .map(|(j, p)| {
                let mut v: Vec<String> = p
                    .syms
                    .iter()
                    .map(|x| match x {
                        S::T(t) => format!("'t{}'", t),
                        S::R(r) => format!("R{}", r),
                    })
                    .collect();
                if let Some(t) = p.prec {
                    v.push(format!("%prec 't{}'", t));
                }
                if kind == 2 {
                    v.push(format!("{{ {}u32 }}", i * 10 + j));
                } else {
                    v.push(format!("{{ Ok({}u32) }}", i * 10 + j));
                }
                v.join(" ")
            })
            .collect();
        if kind == 3 {
            s.push_str(&format!("R{} -> Result<u32, ()>: {};\n", i, alts.join(" | ")));
        } else {
            s.push_str(&format!("R{}: {};\n", i, alts.join(" | ")));
        }
    }
    s
}

fn fnv(bytes: &[u8]) -> u64 {
    let mut h: u64 = 0xcbf29ce484222325;
    for b in bytes {
        h ^= *b as u64;
        h = h.wrapping_mul(0x100000001b3);
    }
    h
}

fn sym_s(s: &Symbol<u32>) -> String {
    match s {
        Symbol::Token(t) => format!("t{}", usize::from(*t)),
        Symbol::Rule(r) => format!("r{}", usize::from(*r)),
    }
}

fn sym_key(s: &Symbol<u32>) -> (u8, usize) {
    match s {
        Symbol::Token(t) => (0, usize::from(*t)),
        Symbol::Rule(r) => (1, usize::from(*r)),
    }
}

/// every query of the grammar object, in a canonical textual form
fn digest_grammar(g: &YaccGrammar<u32>) -> String {
    let mut s = String::new();
    let _ = write!(
        s,
        "T{} R{} P{} eof{} sp{} sr{} ir{:?} ex{:?} exrr{:?}",
        usize::from(g.tokens_len()),
        usize::from(g.rules_len()),
        usize::from(g.prods_len()),
        usize::from(g.eof_token_idx()),
        usize::from(g.start_prod()),
        usize::from(g.start_rule_idx()),
        g.implicit_rule().map(usize::from),
        g.expect(),
        g.expectrr()
    );
    for r in g.iter_rules() {
        let ps: Vec<String> = g.rule_to_prods(r).iter().map(|p| usize::from(*p).to_string()).collect();
        let _ = write!(s, " |rule{} name={:?} prods=[{}] at={:?} span={:?}", usize::from(r), g.rule_name_str(r), ps.join(","), g.actiontype(r), g.rule_name_span(r));
    }
    for t in g.iter_tidxs() {
        let _ = write!(
            s,
            " |tok{} name={:?} epp={:?} prec={:?} ai={} span={:?}",
            usize::from(t),
            g.token_name(t),
            g.token_epp(t),
            g.token_precedence(t),
            g.avoid_insert(t),
            g.token_span(t)
        );
    }
    for p in g.iter_pidxs() {
        let syms: Vec<String> = g.prod(p).iter().map(sym_s).collect();
        let _ = write!(
            s,
            " |prod{} rule={} [{}] prec={:?} action={:?} aspan={:?}",
            usize::from(p),
            usize::from(g.prod_to_rule(p)),
            syms.join(" "),
            g.prod_precedence(p),
            // both accessors index vectors that are shorter than `prods_len` for the productions the
            // builder adds (start, implicit): a panic is recorded as the (reproducible) answer
            guarded(std::panic::AssertUnwindSafe(|| g.action(p).clone())).map_err(|_| "panic"),
            guarded(std::panic::AssertUnwindSafe(|| g.action_span(p))).map_err(|_| "panic")
        );
    }
    let mut tm: Vec<(String, usize)> = g.tokens_map().iter().map(|(k, v)| (k.to_string(), usize::from(*v))).collect();
    tm.sort();
    let _ = write!(s, " |tokens_map={:?}", tm);
    let _ = write!(s, " |pp={:?} pg={:?} programs={:?}", g.parse_param(), g.parse_generics(), g.programs());
    let firsts = g.firsts();
    let follows = g.follows();
    for r in g.iter_rules() {
        let mut f = String::new();
        let mut fo = String::new();
        let mut hp = String::new();
        for t in g.iter_tidxs() {
            f.push(if firsts.is_set(r, t) { '1' } else { '0' });
            fo.push(if follows.is_set(r, t) { '1' } else { '0' });
        }
        for r2 in g.iter_rules() {
            hp.push(if g.has_path(r, r2) { '1' } else { '0' });
        }
        let _ = write!(s, " |an{} eps={} first={} follow={} path={}", usize::from(r), firsts.is_epsilon_set(r), f, fo, hp);
    }
    s
}

/// canonical text of an item set (`Itemset` itself is not nameable from outside lrtable)
macro_rules! items_s {
    ($is:expr) => {{
        let mut v: Vec<(usize, usize, String)> = $is
            .items
            .iter()
            .map(|((p, d), ctx)| {
                let mut b = String::new();
                for i in 0..ctx.len() {
                    b.push(if ctx[i] { '1' } else { '0' });
                }
                (usize::from(*p), usize::from(*d), b)
            })
            .collect();
        v.sort();
        v.iter().map(|(p, d, c)| format!("{}.{}:{}", p, d, c)).collect::<Vec<_>>().join(",")
    }};
}

struct Digest {
    sections: Vec<(String, String)>,
}

/// the child: every grammar of the list file through the whole pipeline, one line per section
pub fn child(list: &str, dir: &str) {
    let txt = std::fs::read_to_string(list).unwrap_or_default();
    std::fs::create_dir_all(dir).unwrap();
    std::env::set_current_dir(dir).unwrap();
    let out = std::io::stdout();
    // what a process built before must not matter: the processes go through the cases in different orders
    let lines: Vec<&str> = txt.lines().collect();
    let n = lines.len();
    let order: Vec<usize> = match std::env::var("VH_C15_ORDER").ok().and_then(|x| x.parse::<usize>().ok()).unwrap_or(0) % 4 {
        1 => (0..n).rev().collect(),
        2 => (0..n).map(|i| (i + n / 2) % n).collect(),
        3 => (0..n).filter(|i| i % 2 == 1).chain((0..n).filter(|i| i % 2 == 0)).collect(),
        _ => (0..n).collect(),
    };
    for gi in order {
        let line = lines[gi];
        let mut parts = line.splitn(3, '\t');
        let kind: usize = parts.next().and_then(|x| x.parse().ok()).unwrap_or(0);
        let text = unesc(parts.next().unwrap_or(""));
        let lex = unesc(parts.next().unwrap_or(""));
        let d = match guarded(std::panic::AssertUnwindSafe(|| one(gi, kind, &text, &lex))) {
            Ok(d) => d,
            Err(e) => Digest { sections: vec![("panic".to_string(), e)] },
        };
        let mut o = out.lock();
        for (k, v) in d.sections {
            writeln!(o, "{} {} {}", gi, k, v.replace('\n', "\\n")).unwrap();
        }
        writeln!(o, "{} end", gi).unwrap();
        o.flush().unwrap();
    }
}

fn strip_volatile(code: &str) -> String {
    // the embedded build timestamp: `BUILD_TIME = "…"` inside the cache comment (the only part the
    // property exempts)
    let mut out = String::new();
    let mut rest = code;
    while let Some(i) = rest.find("BUILD_TIME = ") {
        out.push_str(&rest[..i]);
        out.push_str("BUILD_TIME = <stripped>");
        let after = &rest[i + "BUILD_TIME = ".len()..];
        // a (possibly escaped) string literal follows
        let mut j = 0;
        let b = after.as_bytes();
        let mut seen_quote = false;
        while j < b.len() {
            if b[j] == b'\\' {
                // an escaped quote `\"` belongs to the delimiters when the cache string is itself quoted
                j += 2;
                if j <= b.len() && b[j - 1] == b'"' {
                    if seen_quote {
                        break;
                    }
                    seen_quote = true;
                }
                continue;
            }
            if b[j] == b'"' {
                j += 1;
                if seen_quote {
                    break;
                }
                seen_quote = true;
                continue;
            }
            j += 1;
        }
        rest = &after[j.min(after.len())..];
    }
    out.push_str(rest);
    out
}

fn one(gi: usize, kind: usize, text: &str, lex: &str) -> Digest {
    let mut sec: Vec<(String, String)> = Vec::new();
    let yk = kind_of(kind);
    let astv = ASTWithValidityInfo::new(yk, text);
    if !astv.is_valid() {
        let mut es: Vec<String> = astv.errors().iter().map(|e| e.to_string()).collect();
        es.sort();
        sec.push(("err".to_string(), format!("grammar {:?}", es)));
        return Digest { sections: sec };
    }
    let ast = astv.ast();
    let obs_it: Option<Vec<String>> = ast.implicit_tokens.as_ref().map(|m| m.keys().cloned().collect());
    let obs_ai: Option<Vec<String>> = ast.avoid_insert.as_ref().map(|m| m.keys().cloned().collect());
    let base = ast.prods.len() + 1;
    let mut w: Vec<String> = ast.warnings().iter().map(|w| format!("{:?}", w)).collect();
    w.sort();
    let g: YaccGrammar<u32> = match YaccGrammar::new_from_ast_with_validity_info(&astv) {
        Ok(g) => g,
        Err(es) => {
            let mut es: Vec<String> = es.iter().map(|e| e.to_string()).collect();
            es.sort();
            sec.push(("err".to_string(), format!("grammar {:?}", es)));
            return Digest { sections: sec };
        }
    };
    sec.push(("gram".to_string(), format!("{} |warnings={:?}", digest_grammar(&g), w)));
    // what the Lean side is asked about: observed orders, and the resulting numbering
    let tidx = |n: &String| g.token_idx(n).map(usize::from).unwrap_or(999_999);
    let nt = usize::from(g.tokens_len());
    let mut obs = String::new();
    let mut imp = String::new();
    match (&obs_it, g.implicit_rule()) {
        (Some(ks), Some(ir)) => {
            let o: Vec<usize> = ks.iter().map(tidx).collect();
            let _ = write!(obs, "1 {}", crate::out::plist(&o));
            let ps = g.rule_to_prods(ir);
            let _ = write!(imp, "p {}", ps.len().saturating_sub(1));
            for (i, p) in ps.iter().enumerate() {
                let syms = g.prod(*p);
                if i + 1 < ps.len() {
                    let t = match syms.first() {
                        Some(Symbol::Token(t)) => usize::from(*t),
                        _ => 999_999,
                    };
                    let r = match syms.get(1) {
                        Some(Symbol::Rule(r)) if syms.len() == 2 => usize::from(*r),
                        _ => 999_999,
                    };
                    let _ = write!(imp, " {} {} {}", usize::from(*p), t, r);
                } else {
                    let _ = write!(imp, " e {}{}", usize::from(*p), if syms.is_empty() { "" } else { " nonempty" });
                }
            }
        }
        _ => {
            obs.push_str("0 0");
            imp.push_str("p -");
        }
    }
    match &obs_ai {
        Some(ks) => {
            let a: Vec<usize> = ks.iter().map(tidx).collect();
            let _ = write!(obs, " {} 1", crate::out::plist(&a));
            let bits: String = g.iter_tidxs().map(|t| if g.avoid_insert(t) { '1' } else { '0' }).collect();
            let _ = write!(imp, " ai {}", bits);
        }
        None => {
            obs.push_str(" 0 0");
            let any = g.iter_tidxs().any(|t| g.avoid_insert(t));
            let _ = write!(imp, " ai {}", if any { "unexpected" } else { "-" });
        }
    }
    sec.push(("obs".to_string(), format!("{} {} {}", nt, base, obs)));
    sec.push(("imp".to_string(), imp));

    match from_yacc(&g, Minimiser::Pager) {
        Err(e) => {
            sec.push(("tableerr".to_string(), format!("{:?}", e)));
        }
        Ok((sg, st)) => {
            let n = usize::from(sg.all_states_len());
            let mut gs = format!("n{} start{}", n, usize::from(sg.start_state()));
            let mut gc = format!("{} {}", n, usize::from(sg.start_state()));
            for s in sg.iter_stidxs() {
                let mut es: Vec<((u8, usize), usize)> = sg.edges(s).iter().map(|(k, v)| (sym_key(k), usize::from(*v))).collect();
                es.sort();
                let e: Vec<String> = es.iter().map(|((a, b), v)| format!("{}{}>{}", if *a == 0 { 't' } else { 'r' }, b, v)).collect();
                let _ = write!(gs, " |st{} core[{}] closed[{}] edges[{}]", usize::from(s), items_s!(sg.core_state(s)), items_s!(sg.closed_state(s)), e.join(","));
                let tg: Vec<usize> = es.iter().map(|(_, v)| *v).collect();
                let _ = write!(gc, " {}", crate::out::plist(&tg));
            }
            let _ = write!(gs, " |all_edges_len={}", sg.all_edges_len());
            sec.push(("graph".to_string(), gs));
            sec.push(("gcreq".to_string(), gc));
            let mut ts = format!("start{}", usize::from(st.start_state()));
            for s in sg.iter_stidxs() {
                let _ = write!(ts, " |st{} a[", usize::from(s));
                for t in g.iter_tidxs() {
                    let a = match st.action(s, t) {
                        Action::Shift(x) => format!("s{}", usize::from(x)),
                        Action::Reduce(p) => format!("r{}", usize::from(p)),
                        Action::Accept => "acc".to_string(),
                        Action::Error => ".".to_string(),
                    };
                    let _ = write!(ts, "{} ", a);
                }
                let _ = write!(ts, "] g[");
                for r in g.iter_rules() {
                    let _ = write!(ts, "{} ", st.goto(s, r).map(|x| usize::from(x).to_string()).unwrap_or_else(|| ".".to_string()));
                }
                let mut sa: Vec<usize> = st.state_actions(s).map(usize::from).collect();
                sa.sort();
                let mut ss: Vec<usize> = st.state_shifts(s).map(usize::from).collect();
                ss.sort();
                let mut cr: Vec<usize> = st.core_reduces(s).map(usize::from).collect();
                cr.sort();
                let _ = write!(ts, "] sa{:?} ss{:?} cr{:?} ro{}", sa, ss, cr, st.reduce_only_state(s));
            }
            sec.push(("table".to_string(), ts));
            let (mut rr, mut sr): (Vec<(usize, usize, usize, usize)>, Vec<(usize, usize, usize)>) = (vec![], vec![]);
            if let Some(c) = st.conflicts() {
                rr = c.rr_conflicts().map(|(t, p, q, s)| (usize::from(*t), usize::from(*p), usize::from(*q), usize::from(*s))).collect();
                sr = c.sr_conflicts().map(|(t, p, s)| (usize::from(*t), usize::from(*p), usize::from(*s))).collect();
            }
            // listed order: not compared (unspecified by the property), only counted
            sec.push(("conford".to_string(), format!("rr{:?} sr{:?}", rr, sr)));
            rr.sort();
            sr.sort();
            sec.push(("conf".to_string(), format!("rr{:?} sr{:?}", rr, sr)));
        }
    }
    // generated code (Eco has no compile-time back end)
    if kind != 4 {
        let gp = format!("g{}.y", gi);
        let lp = format!("g{}.l", gi);
        let gout = format!("g{}_y.rs", gi);
        let lout = format!("g{}_l.rs", gi);
        std::fs::write(&gp, text).unwrap();
        std::fs::write(&lp, lex).unwrap();
        let (gp2, gout2) = (gp.clone(), gout.clone());
        let r = CTLexerBuilder::<DefaultLexerTypes<u32>>::new()
            .lrpar_config(move |ctp| ctp.yacckind(yk).error_on_conflicts(false).warnings_are_errors(false).show_warnings(false).grammar_path(&gp2).output_path(&gout2))
            .lexer_path(&lp)
            .output_path(&lout)
            .show_warnings(false)
            .allow_missing_terms_in_lexer(true)
            .allow_missing_tokens_in_parser(true)
            .build();
        match r {
            Ok(_) => {
                let pc = std::fs::read_to_string(&gout).unwrap_or_default();
                let lc = std::fs::read_to_string(&lout).unwrap_or_default();
                let pcs = strip_volatile(&pc);
                let lcs = strip_volatile(&lc);
                // keep the stripped text for the parent (diff on mismatch, thread test)
                std::fs::write(&gout, &pcs).unwrap();
                std::fs::write(&lout, &lcs).unwrap();
                sec.push(("gen".to_string(), format!("parser len={} fnv={:016x} lexer len={} fnv={:016x}", pcs.len(), fnv(pcs.as_bytes()), lcs.len(), fnv(lcs.as_bytes()))));
            }
            Err(e) => {
                sec.push(("gen".to_string(), format!("builderr {}", e)));
            }
        }
        // the same sources by absolute path from the shared directory; the first process does it from a
        // working directory that is an ancestor of the sources, the others from their own
        if gi % 3 == 0 {
            if let Ok(own) = std::env::current_dir() {
                let shared = own.join("..").join("shared");
                if let Ok(shared) = shared.canonicalize() {
                    let (agp, alp) = (shared.join(format!("g{}.y", gi)), shared.join(format!("g{}.l", gi)));
                    if agp.exists() {
                        let (agout, alout) = (own.join(format!("g{}_abs_y.rs", gi)), own.join(format!("g{}_abs_l.rs", gi)));
                        let first = own.file_name().map(|n| n == "p0").unwrap_or(false);
                        if first {
                            let _ = std::env::set_current_dir(shared.parent().unwrap_or(&shared));
                        }
                        let (agp2, agout2) = (agp.clone(), agout.clone());
                        let r = CTLexerBuilder::<DefaultLexerTypes<u32>>::new()
                            .lrpar_config(move |ctp| ctp.yacckind(yk).error_on_conflicts(false).warnings_are_errors(false).show_warnings(false).grammar_path(&agp2).output_path(&agout2))
                            .lexer_path(&alp)
                            .output_path(&alout)
                            .show_warnings(false)
                            .allow_missing_terms_in_lexer(true)
                            .allow_missing_tokens_in_parser(true)
                            .build();
                        let _ = std::env::set_current_dir(&own);
                        match r {
                            Ok(_) => {
                                let pcs = strip_volatile(&std::fs::read_to_string(&agout).unwrap_or_default());
                                let lcs = strip_volatile(&std::fs::read_to_string(&alout).unwrap_or_default());
                                sec.push(("genabs".to_string(), format!("parser len={} fnv={:016x} lexer len={} fnv={:016x}", pcs.len(), fnv(pcs.as_bytes()), lcs.len(), fnv(lcs.as_bytes()))));
                            }
                            Err(e) => sec.push(("genabs".to_string(), format!("builderr {}", e))),
                        }
                        let _ = std::fs::remove_file(&agout);
                        let _ = std::fs::remove_file(&alout);
                    }
                }
            }
        }
        // the lexer builder on its own, with a user-supplied id map in which several names share an id
        // (several lexer rules producing one token): the generated constants must not depend on the map's
        // iteration order
        {
            let mut names: Vec<String> = lex.lines().filter_map(|l| l.rsplit_once(" \"").map(|(_, n)| n.trim_end_matches('"').to_string())).collect();
            names.sort();
            names.dedup();
            if names.len() >= 2 {
                let map: HashMap<String, u32> = names.iter().enumerate().map(|(i, n)| (n.clone(), (i / 3) as u32)).collect();
                let lout2 = format!("g{}_l2.rs", gi);
                let r2 = CTLexerBuilder::<DefaultLexerTypes<u32>>::new()
                    .rule_ids_map(&map)
                    .lexer_path(&lp)
                    .output_path(&lout2)
                    .show_warnings(false)
                    .allow_missing_terms_in_lexer(true)
                    .allow_missing_tokens_in_parser(true)
                    .build();
                match r2 {
                    Ok(_) => {
                        let lc = strip_volatile(&std::fs::read_to_string(&lout2).unwrap_or_default());
                        sec.push(("genl".to_string(), format!("lexer-with-shared-ids len={} fnv={:016x}", lc.len(), fnv(lc.as_bytes()))));
                    }
                    Err(e) => sec.push(("genl".to_string(), format!("builderr {}", e))),
                }
                let _ = std::fs::remove_file(&lout2);
            }
        }
        let _ = std::fs::remove_file(&gp);
        let _ = std::fs::remove_file(&lp);
    }
    Digest { sections: sec }
}

// ---------------------------------------------------------------------------------------------------
// parent

struct ChildOut {
    /// per grammar index: section -> text
    secs: Vec<BTreeMap<String, String>>,
    done: Vec<bool>,
    status: String,
}

fn run_children(cases: &[Case], m: usize, tmp: &Path, deadline: Duration) -> Vec<ChildOut> {
    std::fs::create_dir_all(tmp).unwrap();
    let list = tmp.join("grammars.txt");
    {
        let mut f = std::fs::File::create(&list).unwrap();
        for c in cases {
            writeln!(f, "{}\t{}\t{}", c.kind, esc(&c.text), esc(&c.lex)).unwrap();
        }
    }
    // the sources once more in a directory all processes share: built from there by ABSOLUTE path, from
    // processes whose working directories differ (one of them an ancestor of the sources)
    let shared = tmp.join("shared");
    std::fs::create_dir_all(&shared).unwrap();
    for (gi, c) in cases.iter().enumerate() {
        if c.kind != 4 && gi % 3 == 0 {
            std::fs::write(shared.join(format!("g{}.y", gi)), &c.text).unwrap();
            std::fs::write(shared.join(format!("g{}.l", gi)), &c.lex).unwrap();
        }
    }
    let exe = std::env::current_exe().unwrap();
    let mut kids = Vec::new();
    for k in 0..m {
        let dir = tmp.join(format!("p{}", k));
        std::fs::create_dir_all(&dir).unwrap();
        let of = std::fs::File::create(tmp.join(format!("p{}.out", k))).unwrap();
        let ch = Command::new(&exe)
            .arg("C15")
            .arg("--child")
            .arg(&list)
            .arg(&dir)
            .env("VH_C15_ORDER", k.to_string())
            .stdin(Stdio::null())
            .stdout(Stdio::from(of))
            .stderr(Stdio::null())
            .spawn()
            .unwrap();
        kids.push(ch);
    }
    let t0 = Instant::now();
    let mut status = vec![String::new(); m];
    let mut live = m;
    let mut finished = vec![false; m];
    while live > 0 {
        for (k, ch) in kids.iter_mut().enumerate() {
            if finished[k] {
                continue;
            }
            match ch.try_wait() {
                Ok(Some(st)) => {
                    finished[k] = true;
                    live -= 1;
                    status[k] = if st.success() { "ok".to_string() } else { format!("exit {:?}", st) };
                }
                Ok(None) => {
                    // CPU time of the child, not wall-clock time: a loaded machine is not a hang
                    let over = match crate::gen::worker::cpu_ms(ch.id()) {
                        Some(u) => u as u128 > deadline.as_millis(),
                        None => t0.elapsed() > deadline,
                    };
                    if over || t0.elapsed() > deadline * 10 {
                        let _ = ch.kill();
                        let _ = ch.wait();
                        finished[k] = true;
                        live -= 1;
                        status[k] = "killed after deadline".to_string();
                    }
                }
                Err(e) => {
                    finished[k] = true;
                    live -= 1;
                    status[k] = format!("wait error {}", e);
                }
            }
        }
        std::thread::sleep(Duration::from_millis(5));
    }
    let mut res = Vec::new();
    for k in 0..m {
        let txt = std::fs::read_to_string(tmp.join(format!("p{}.out", k))).unwrap_or_default();
        let mut secs = vec![BTreeMap::new(); cases.len()];
        let mut done = vec![false; cases.len()];
        for l in txt.lines() {
            let mut it = l.splitn(3, ' ');
            let gi: usize = match it.next().and_then(|x| x.parse().ok()) {
                Some(x) if x < cases.len() => x,
                _ => continue,
            };
            let k = it.next().unwrap_or("");
            if k == "end" {
                done[gi] = true;
            } else {
                secs[gi].insert(k.to_string(), it.next().unwrap_or("").to_string());
            }
        }
        res.push(ChildOut { secs, done, status: status[k].clone() });
    }
    res
}

fn first_token_diff(a: &str, b: &str) -> String {
    let x: Vec<&str> = a.split(' ').collect();
    let y: Vec<&str> = b.split(' ').collect();
    for i in 0..x.len().min(y.len()) {
        if x[i] != y[i] {
            let lo = i.saturating_sub(6);
            return format!("`{}` vs `{}`", x[lo..(i + 4).min(x.len())].join(" "), y[lo..(i + 4).min(y.len())].join(" "));
        }
    }
    format!("lengths {} vs {} (one is a prefix of the other)", x.len(), y.len())
}

fn first_line_diff(a: &str, b: &str) -> String {
    for (i, (x, y)) in a.lines().zip(b.lines()).enumerate() {
        if x != y {
            let cut = |s: &str| s.chars().take(160).collect::<String>();
            return format!("line {}: `{}` vs `{}`", i + 1, cut(x.trim()), cut(y.trim()));
        }
    }
    format!("{} vs {} lines", a.lines().count(), b.lines().count())
}

/// the byte arrays of the generated module (`const NAME: &[u8] = &[1u8, 2u8, …];`)
fn extract_bytes(code: &str, name: &str) -> Option<Vec<u8>> {
    let i = code.find(&format!("const {}", name))?;
    let rest = &code[i..];
    let j = rest.find("&[")?;
    // skip the type `&[u8]`
    let rest2 = &rest[j + 2..];
    let j2 = rest2.find("&[")?;
    let body = &rest2[j2 + 2..];
    let e = body.find(']')?;
    let mut v = Vec::new();
    for t in body[..e].split(',') {
        let t = t.trim().trim_end_matches("u8").trim();
        if t.is_empty() {
            continue;
        }
        v.push(t.parse::<u8>().ok()?);
    }
    Some(v)
}

type PD = lrpar::ctbuilder::ParserData<u32>;

fn reconstitute(code_varint: bool, gd: &[u8], sd: &[u8]) -> PD {
    use lrpar::ctbuilder::wincode::config::Configuration;
    if code_varint {
        lrpar::ctbuilder::_reconstitute(gd, sd, Configuration::default().with_varint_encoding())
    } else {
        lrpar::ctbuilder::_reconstitute(gd, sd, Configuration::default().with_fixint_encoding())
    }
}

/// what `parse()` of the generated module does after `__lrpar_parser_data()`, with a printable tree
fn parse_all(pd: &PD, lexerdef: &LRNonStreamingLexerDef<DefaultLexerTypes<u32>>, inputs: &[String], rk: RecoveryKind) -> Vec<String> {
    let mut res = Vec::new();
    for inp in inputs {
        let lexer = lexerdef.lexer(inp);
        let (v, errs) = RTParserBuilder::new(pd.grm(), pd.stable())
            .recoverer(rk)
            .parse_map(&lexer, &|lx: lrlex::DefaultLexeme<u32>| format!("{:?}", lx), &|r: RIdx<u32>, ns: Vec<String>| format!("(r{} {})", usize::from(r), ns.join(" ")));
        res.push(format!("{:?} errs={:?}", v, errs));
    }
    res
}

/// 8 threads race on the first use of a `OnceLock` initialised exactly as the generated module does;
/// every thread's results must equal the sequential ones. Returns (verdict, rounds, inputs).
fn thread_check(code: &str, lex: &str, rng: &mut Rng, rounds: usize, out: &mut Out) -> Result<(), String> {
    let gd = extract_bytes(code, "__GRM_DATA").ok_or("no __GRM_DATA in the generated module")?;
    let sd = extract_bytes(code, "__STABLE_DATA").ok_or("no __STABLE_DATA in the generated module")?;
    let varint = !code.contains("SerialisationFormat::FixedSizeInteger;") && !code.contains("= ::lrpar::ctbuilder::SerialisationFormat::FixedSizeInteger");
    if !code.contains("OnceLock") || !code.contains("_reconstitute") {
        return Err("the generated module no longer initialises its data through OnceLock + _reconstitute (the modelled first-use path)".to_string());
    }
    let seq: PD = guarded(std::panic::AssertUnwindSafe(|| reconstitute(varint, &gd, &sd))).map_err(|e| format!("_reconstitute panicked: {}", e))?;
    // parses run in-process here: only grammars on which the LR loop is known to end (no derivation
    // cycle, no hidden left recursion — on the others the driver and the recoverer's `lr_cactus` need not
    // return at all, which is C07's subject and finding, not a matter of thread interleavings)
    if grammar::has_derivation_cycle(seq.grm()) || grammar::has_hidden_left_recursion(seq.grm()) {
        out.count("threads.skipped_grammar_on_which_the_lr_loop_need_not_end");
        return Ok(());
    }
    let mut lexerdef = LRNonStreamingLexerDef::<DefaultLexerTypes<u32>>::from_str(lex).map_err(|_| "lexer text rejected".to_string())?;
    let tm: Vec<(String, u32)> = seq.grm().tokens_map().iter().map(|(k, v)| (k.to_string(), u32::from(*v))).collect();
    {
        let m: HashMap<&str, u32> = tm.iter().map(|(k, v)| (k.as_str(), *v)).collect();
        let _ = lexerdef.set_rule_ids(&m);
    }
    let mut names: Vec<String> = tm.iter().map(|(k, _)| k.clone()).collect();
    names.sort();
    let mut inputs = vec![String::new()];
    for _ in 0..5 {
        let n = rng.range(1, 6);
        let toks: Vec<String> = (0..n).map(|_| if names.is_empty() { String::new() } else { rng.pick(&names).clone() }).collect();
        inputs.push(toks.join(" "));
    }
    let want_none = parse_all(&seq, &lexerdef, &inputs, RecoveryKind::None);
    // CPCT+ works against a 500 ms wall-clock budget: only inputs whose recovery takes < 20 ms when run
    // alone are compared (a budget hit under load would be a timing difference, not an interleaving one)
    let mut cp_inputs: Vec<String> = Vec::new();
    for inp in &inputs {
        let t0 = Instant::now();
        let a = parse_all(&seq, &lexerdef, std::slice::from_ref(inp), RecoveryKind::CPCTPlus);
        let quick = t0.elapsed() < Duration::from_millis(20);
        let b = parse_all(&seq, &lexerdef, std::slice::from_ref(inp), RecoveryKind::CPCTPlus);
        if !quick {
            out.count("threads.cpctplus_inputs_skipped_slow");
            continue;
        }
        if a != b {
            out.count("threads.cpctplus_sequential_rerun_differs");
            return Err(format!("input `{}` (CPCT+): two sequential parses in one thread differ: `{}` vs `{}`", inp, a[0], b[0]));
        }
        cp_inputs.push(inp.clone());
    }
    let want_cpct = parse_all(&seq, &lexerdef, &cp_inputs, RecoveryKind::CPCTPlus);
    let cp_inputs = Arc::new(cp_inputs);
    let lexerdef = Arc::new(lexerdef);
    let inputs = Arc::new(inputs);
    for round in 0..rounds {
        let cell: Arc<OnceLock<PD>> = Arc::new(OnceLock::new());
        let inits = Arc::new(AtomicUsize::new(0));
        let bar = Arc::new(Barrier::new(8));
        let (gd, sd) = (Arc::new(gd.clone()), Arc::new(sd.clone()));
        let mut hs = Vec::new();
        for t in 0..8 {
            let (cell, inits, bar, gd, sd, lexerdef, inputs, cp_inputs) = (cell.clone(), inits.clone(), bar.clone(), gd.clone(), sd.clone(), lexerdef.clone(), inputs.clone(), cp_inputs.clone());
            hs.push(std::thread::spawn(move || {
                bar.wait();
                // stagger some threads by a few spins so that both "racing init" and "late reader" occur
                for _ in 0..((t * round) % 5) * 50 {
                    std::hint::spin_loop();
                }
                let pd = cell.get_or_init(|| {
                    inits.fetch_add(1, Ordering::SeqCst);
                    reconstitute(varint, &gd, &sd)
                });
                let a = parse_all(pd, &lexerdef, &inputs, RecoveryKind::None);
                let b = parse_all(pd, &lexerdef, &cp_inputs, RecoveryKind::CPCTPlus);
                (a, b)
            }));
        }
        for (t, h) in hs.into_iter().enumerate() {
            match h.join() {
                Err(_) => return Err(format!("thread {} panicked in round {}", t, round)),
                Ok((a, b)) => {
                    for (i, (x, y)) in a.iter().zip(want_none.iter()).enumerate() {
                        if x != y {
                            return Err(format!("round {} thread {} input `{}`: threaded result `{}` differs from the sequential `{}`", round, t, inputs[i], x, y));
                        }
                    }
                    for (i, (x, y)) in b.iter().zip(want_cpct.iter()).enumerate() {
                        if x != y {
                            out.count("threads.cpctplus_result_differs_from_sequential");
                            return Err(format!("round {} thread {} input `{}` (CPCT+): threaded result `{}` differs from the sequential `{}`", round, t, cp_inputs[i], x, y));
                        }
                    }
                }
            }
        }
        if inits.load(Ordering::SeqCst) != 1 {
            return Err(format!("round {}: the initialiser ran {} times", round, inits.load(Ordering::SeqCst)));
        }
    }
    out.add("threads.rounds", rounds as u64);
    out.add("threads.parses", (rounds * 8 * (inputs.len() + cp_inputs.len())) as u64);
    Ok(())
}

fn corpus() -> Vec<Case> {
    let mut v = Vec::new();
    let mk = |kind: usize, text: &str, origin: &str| Case { kind, text: text.to_string(), lex: lexer_for(text), origin: origin.to_string() };
    // DESIGN.md §6 row 5: Eco with >= 2 %implicit_tokens (4, so that 8 processes almost surely disagree)
    v.push(mk(4, "%start S\n%implicit_tokens 'w0' 'w1' 'w2' 'w3'\n%%\nS: 'a' S | 'b';\n", "corpus"));
    v.push(mk(4, "%start S\n%implicit_tokens 'ws' 'nl'\n%avoid_insert 'ws' 'a'\n%%\nS: 'a' T 'c'; T: 'b' | ;\n", "corpus"));
    v.push(mk(4, "%start S\n%implicit_tokens 'w0' 'w1' 'w2'\n%implicit_tokens 'w3' 'w4' 'w5'\n%%\nS: S 'x' | ;\n", "corpus"));
    v.push(mk(4, "%start S\n%implicit_tokens 'w0'\n%%\nS: 'a';\n", "corpus"));
    v.push(mk(4, "%start S\n%%\nS: 'a';\n", "corpus"));
    // several shift/reduce and reduce/reduce conflicts in one state; %avoid_insert with many keys
    v.push(mk(0, "%start E\n%avoid_insert '+' '*' '-' '/' 'n'\n%%\nE: E '+' E | E '*' E | E '-' E | E '/' E | 'n';\n", "corpus"));
    v.push(mk(1, "%start S\n%%\nS: A 'x' | B 'x' | C 'x'; A: 'a'; B: 'a'; C: 'a';\n", "corpus"));
    v.push(mk(0, "%start S\n%expect 1\n%%\nS: 'i' S 'e' S | 'i' S | 'x';\n", "corpus"));
    // Pager's example from the pager.rs tests (state merging; the source comment speaks of 24/25 states)
    v.push(mk(0, "%start X\n%%\nX : 'a' Y 'd' | 'a' Z 'c' | 'a' T | 'b' Y 'e' | 'b' Z 'd' | 'b' T;\nY : 't' W | 'u' X;\nZ : 't' 'u';\nT : 'u' X 'a';\nW : 'u' V;\nV : ;\n", "corpus"));
    v.push(mk(2, "%start S\n%actiontype u32\n%left '+'\n%left '*'\n%%\nS: S '+' S { 1u32 } | S '*' S { 2u32 } | 'n' { 3u32 };\n", "corpus"));
    v.push(mk(3, "%start S\n%%\nS -> Result<u32, ()>: S 'a' { Ok(1u32) } | { Ok(0u32) };\n", "corpus"));
    // tokens named ONLY in precedence declarations (never declared, never used): whatever the builder
    // makes of them must not depend on the process; the lexer built for these sources has one rule per
    // such name, i.e. several rules the grammar does not use
    v.push(mk(0, "%start E\n%left 'p1' 'p2' 'p3' 'p4'\n%left 'plus'\n%nonassoc 'q1' 'q2' 'q3'\n%left 'times'\n%%\nE: E 'plus' E | E 'times' E | 'n';\n", "corpus"));
    v.push(mk(2, "%start E\n%actiontype u32\n%right 'p1' 'p2' 'p3' 'p4' 'p5'\n%left 'plus'\n%%\nE: E 'plus' E { 1u32 } | 'n' { 2u32 };\n", "corpus"));
    for t in grammar::classics() {
        v.push(mk(0, t, "classic"));
        v.push(mk(4, &t.replacen("%%\n", "%implicit_tokens 'w0' 'w1' 'w2'\n%%\n", 1), "classic-eco"));
    }
    v
}

fn random_case(rng: &mut Rng) -> Case {
    if rng.chance(1, 8) {
        // grammars whose item maps have colliding keys and whose states are merged, split and orphaned
        let text = if rng.chance(1, 4) { grammar::pager_orphan_family(rng) } else { grammar::general_contexts(rng) };
        return Case { kind: rng.below(2), lex: lexer_for(&text), text, origin: "contexts".to_string() };
    }
    let cfg = GenCfg { precs: rng.chance(1, 2), ..GenCfg::default() };
    let mut g = grammar::random_grammar(rng, &cfg);
    if rng.chance(1, 3) {
        let n = rng.range(1, g.ntoks);
        let mut ts: Vec<usize> = (0..g.ntoks).collect();
        for i in (1..ts.len()).rev() {
            let j = rng.below(i + 1);
            ts.swap(i, j);
        }
        ts.truncate(n);
        g.avoid_insert = ts;
    }
    // kinds: Eco half of the time (the only kind with a randomly ordered numbering source)
    let kind = if rng.chance(1, 2) { 4 } else { rng.below(4) };
    let mut implicit = Vec::new();
    if kind == 4 {
        let k = rng.below(5);
        for i in 0..k {
            // sometimes an implicit token is also an ordinary token of the grammar
            if rng.chance(1, 6) {
                let n = format!("t{}", rng.below(g.ntoks));
                if !implicit.contains(&n) {
                    implicit.push(n);
                    continue;
                }
            }
            implicit.push(format!("w{}", i));
        }
    }
    let text = render(&g, kind, &implicit);
    Case { kind, lex: lexer_for(&text), text, origin: "random".to_string() }
}

pub fn run(a: &Args) {
    if let Some(i) = a.extra.iter().position(|x| x == "--child") {
        let list = a.extra.get(i + 1).cloned().unwrap_or_default();
        let dir = a.extra.get(i + 2).cloned().unwrap_or_default();
        child(&list, &dir);
        return;
    }
    let mut out = Out::new(&a.out);
    let m = if a.thorough { 48 } else { 8 };
    let mut cases: Vec<Case> = Vec::new();
    if let Some(rp) = &a.replay {
        let txt = std::fs::read_to_string(rp).unwrap_or_default();
        for line in txt.lines() {
            if let Some(rest) = line.strip_prefix("# G ") {
                let mut it = rest.splitn(2, ' ');
                let kind = it.next().and_then(|k| KINDS.iter().position(|x| *x == k)).unwrap_or(0);
                let text = unesc(it.next().unwrap_or(""));
                cases.push(Case { kind, lex: lexer_for(&text), text, origin: "replay".to_string() });
            }
        }
    } else {
        if a.shard == 0 {
            cases.extend(corpus());
            // minimised past failures: corpus/C15/*.replay (grammar on the `# G kind text` line)
            let mut files: Vec<PathBuf> = std::fs::read_dir("corpus/C15").map(|d| d.filter_map(|e| e.ok().map(|e| e.path())).collect()).unwrap_or_default();
            files.sort();
            for f in files {
                for line in std::fs::read_to_string(&f).unwrap_or_default().lines() {
                    if let Some(rest) = line.strip_prefix("# G ") {
                        let mut it = rest.splitn(2, ' ');
                        let kind = it.next().and_then(|k| KINDS.iter().position(|x| *x == k)).unwrap_or(0);
                        let text = unesc(it.next().unwrap_or(""));
                        cases.push(Case { kind, lex: lexer_for(&text), text, origin: "corpus-file".to_string() });
                    }
                }
            }
        }
        let n = if a.thorough { 4800 } else { 1600 };
        for case in 0..n {
            if case % a.shards != a.shard {
                continue;
            }
            let mut rng = Rng::for_case(a.seed, 15, case as u64 + 1);
            cases.push(random_case(&mut rng));
        }
    }
    let tmp: PathBuf = std::fs::canonicalize(&a.out).unwrap_or_else(|_| a.out.clone()).join("c15tmp");
    let _ = std::fs::remove_dir_all(&tmp);
    let deadline = Duration::from_secs(if a.thorough { 900 } else { 150 });
    let outs = run_children(&cases, m, &tmp, deadline);
    let compared = ["err", "gram", "graph", "table", "tableerr", "conf", "gen", "genl", "genabs", "panic"];
    let mut thread_budget = if a.thorough { 60 } else { 10 };
    for (gi, c) in cases.iter().enumerate() {
        let id = out.id();
        let mut hfails: Vec<String> = Vec::new();
        // every process must have finished this grammar
        for (k, o) in outs.iter().enumerate() {
            if !o.done[gi] {
                hfails.push(format!("process {} did not finish this grammar ({}): crash or hang of the code under test", k, o.status));
            } else if let Some(p) = o.secs[gi].get("panic") {
                hfails.push(format!("process {} panicked: {}", k, p));
            }
        }
        let fin: Vec<usize> = (0..outs.len()).filter(|k| outs[*k].done[gi]).collect();
        let p0 = fin.first().copied().unwrap_or(0);
        // section-by-section comparison against the first finished process
        let mut gen_diff = false;
        for sec in compared.iter() {
            for &k in fin.iter().skip(1) {
                let x = outs[p0].secs[gi].get(*sec);
                let y = outs[k].secs[gi].get(*sec);
                if x != y {
                    let why = match (x, y) {
                        (Some(x), Some(y)) => {
                            if *sec == "gen" {
                                gen_diff = true;
                                let f = |p: usize, n: &str| std::fs::read_to_string(tmp.join(format!("p{}", p)).join(format!("g{}_{}.rs", gi, n))).unwrap_or_default();
                                let (a1, a2) = (f(p0, "y"), f(k, "y"));
                                if a1 != a2 {
                                    format!("generated parser module differs, {}", first_line_diff(&a1, &a2))
                                } else {
                                    let (b1, b2) = (f(p0, "l"), f(k, "l"));
                                    if b1 != b2 { format!("generated lexer module differs, {}", first_line_diff(&b1, &b2)) } else { first_token_diff(x, y) }
                                }
                            } else {
                                first_token_diff(x, y)
                            }
                        }
                        (None, Some(y)) => format!("absent vs `{}`", y.chars().take(120).collect::<String>()),
                        (Some(x), None) => format!("`{}` vs absent", x.chars().take(120).collect::<String>()),
                        _ => String::new(),
                    };
                    hfails.push(format!("section {} differs between process {} and process {}: {} (the processes have fresh hash seeds and go through the run's grammars in different orders: process k uses order k mod 4 of natural / reversed / rotated by half / odd-then-even; this grammar was number {} of {})", sec, p0, k, why, gi, cases.len()));
                    out.count(&format!("differs.{}", sec));
                    break;
                }
            }
        }
        let s0 = &outs[p0].secs[gi];
        // statistics
        out.count(&format!("processes_per_grammar.{}", m));
        out.count(&format!("kind.{}", KINDS[c.kind]));
        out.count(&format!("origin.{}", c.origin));
        let mut orders: Vec<&str> = Vec::new();
        let mut conf_orders: Vec<&str> = Vec::new();
        for &k in &fin {
            if let Some(o) = outs[k].secs[gi].get("obs") {
                if !orders.contains(&o.as_str()) {
                    orders.push(o);
                }
            }
            if let Some(o) = outs[k].secs[gi].get("conford") {
                if !conf_orders.contains(&o.as_str()) {
                    conf_orders.push(o);
                }
            }
        }
        if orders.len() > 1 {
            out.count("hash_orders.grammars_with_2+_distinct_observed_map_orders");
        }
        if conf_orders.len() > 1 {
            out.count("conflicts.listed_order_differs_between_processes(allowed)");
        }
        if let Some(cf) = s0.get("conf") {
            if cf.contains("rr[(") {
                out.count("conflicts.has_reduce_reduce");
            }
            if cf.contains("sr[(") {
                out.count("conflicts.has_shift_reduce");
            }
        }
        if s0.contains_key("err") {
            out.count("outcome.grammar_rejected");
        } else if s0.contains_key("tableerr") {
            out.count("outcome.table_error");
        } else {
            out.count("outcome.built");
        }
        if let Some(g) = s0.get("gen") {
            if g.starts_with("builderr") {
                out.count("gen.build_error");
            } else {
                out.count("gen.modules_generated");
            }
        }
        let nimpl = s0.get("obs").map(|o| {
            let f: Vec<&str> = o.split(' ').collect();
            if f.get(2) == Some(&"1") { f.get(3).and_then(|x| x.parse::<usize>().ok()).unwrap_or(0) } else { 0 }
        });
        if c.kind == 4 {
            out.count(&format!("eco.implicit_tokens.{}", nimpl.unwrap_or(0)));
        }
        if let Some(gs) = s0.get("graph") {
            let n: usize = gs[1..].split(' ').next().and_then(|x| x.parse().ok()).unwrap_or(0);
            out.count(&format!("states.{}", if n < 5 { "1-4" } else if n < 10 { "5-9" } else if n < 20 { "10-19" } else { "20+" }));
        }
        // request for the Lean driver
        let mut req = String::new();
        let mut imp = String::new();
        let (nt, base) = s0
            .get("obs")
            .map(|o| {
                let f: Vec<&str> = o.split(' ').collect();
                (f[0].to_string(), f[1].to_string())
            })
            .unwrap_or(("0".to_string(), "0".to_string()));
        let with_obs: Vec<usize> = fin.iter().copied().filter(|k| outs[*k].secs[gi].contains_key("obs")).collect();
        let _ = write!(req, "{} {} {}", nt, base, with_obs.len());
        for &k in &with_obs {
            let o = &outs[k].secs[gi]["obs"];
            let rest: Vec<&str> = o.splitn(3, ' ').collect();
            let _ = write!(req, " {}", rest[2]);
            let _ = write!(imp, "{}{}", if imp.is_empty() { "" } else { " ; " }, outs[k].secs[gi].get("imp").map(|x| x.as_str()).unwrap_or("?"));
        }
        match s0.get("gcreq") {
            Some(gc) => {
                let _ = write!(req, " {}", gc);
            }
            None => req.push_str(" 0 0"),
        }
        out.case("C15", id, &req);
        out.imp(id, "I", &imp);
        // threads: first use of the generated module's data from 8 threads
        if hfails.is_empty() && !gen_diff && c.kind == 0 && thread_budget > 0 && s0.get("gen").map(|g| !g.starts_with("builderr")).unwrap_or(false) {
            thread_budget -= 1;
            let code = std::fs::read_to_string(tmp.join(format!("p{}", p0)).join(format!("g{}_y.rs", gi))).unwrap_or_default();
            let mut rng = Rng::for_case(a.seed, 15, 1_000_000 + gi as u64);
            let rounds = if a.thorough { 25 } else { 6 };
            out.count("threads.grammars");
            if let Err(e) = thread_check(&code, &c.lex, &mut rng, rounds, &mut out) {
                hfails.push(format!("threads: {}", e));
            }
        }
        if hfails.is_empty() {
            out.imp(id, "H", "ok");
        } else {
            for h in &hfails {
                out.imp(id, "H", &format!("fail {}", h));
            }
        }
        let desc = format!("kind={} processes={} grammar=[{}]", KINDS[c.kind], m, c.text.replace('\n', " ").trim());
        out.imp(id, "D", &desc);
        out.imp(id, "G", &format!("{} {}", KINDS[c.kind], esc(&c.text)));
        if gi % 37 == 0 {
            out.sample(desc);
        }
    }
    for (k, o) in outs.iter().enumerate() {
        if o.status != "ok" {
            out.count(&format!("child_status.{}.{}", k, o.status.replace(' ', "_")));
        }
    }
    // generated-code builds are temporary
    let _ = std::fs::remove_dir_all(&tmp);
    out.finish(&a.out);
}

