//! C08: the log of action calls (production, rule, span, arguments) of the real parser against the
//! action model (recovery off: `I` vs `M` = `Act.parseA`; recovery on: `Ir` vs `Mr` = the model of the
//! recovering driver `RecAct.recRunA` replaying the reported first repair sequences — log AND returned
//! tree, exactly) and against the specification derived from the final tree (both recovery modes: `V`);
//! the parse-parameter and the generic-tree mode are checked harness-side.
use crate::gen::automaton::dump_automaton;
use crate::gen::grammar::{self, GenCfg};
use crate::gen::parse::{lr_terminates, parse_action_generictree_shape, parse_action_generictree_shape_costs, parse_actions, parse_generic_shape, parse_generic_shape_costs, ActionCall, PTree, STRIDE, TOKLEN};
use crate::gen::sentences::inputs_for;
use crate::gen::worker::{arg_text_pub, WResult, Worker};
use crate::out::{guarded, plist, Out};
use crate::rng::Rng;
use crate::Args;
use lrpar::RecoveryKind;
use lrtable::{from_yacc, Minimiser};

const FAULTY: usize = 1_000_000;

fn enc_tree(t: &PTree, out: &mut Vec<usize>) {
    match t {
        PTree::Leaf(tok, st, _, false) => out.extend([0, *tok as usize, st / STRIDE]),
        PTree::Leaf(tok, st, _, true) => out.extend([0, *tok as usize, FAULTY + st]),
        PTree::Node(p, kids) => {
            out.extend([1, *p, kids.len()]);
            for k in kids {
                enc_tree(k, out);
            }
        }
    }
}

fn enc_log(log: &[ActionCall], out: &mut Vec<usize>) {
    out.push(log.len());
    for c in log {
        out.extend([c.pidx, c.ridx, c.span.0, c.span.1, c.args.len()]);
        for a in &c.args {
            match a {
                PTree::Leaf(tok, st, _, false) => out.extend([0, *tok as usize, st / STRIDE]),
                PTree::Leaf(tok, st, _, true) => out.extend([0, *tok as usize, FAULTY + st]),
                n => {
                    out.push(1);
                    enc_tree(n, out);
                }
            }
        }
    }
}

/// the reported errors of a recovering parse: `nerr (laidx nseq (len (op arg)…)…)…`, `op` 0 insert t /
/// 1 delete idx / 2 shift idx (as in C05)
fn enc_errs(errs: &[crate::gen::parse::PErr], ntoks_in_input: usize, out: &mut Vec<usize>) {
    out.push(errs.len());
    for e in errs {
        out.push(e.laidx(ntoks_in_input));
        out.push(e.repairs.len());
        for seq in &e.repairs {
            out.push(seq.len());
            for r in seq {
                let (op, arg) = r.split_at(1);
                let a: usize = arg.parse().unwrap_or(0);
                out.push(match op {
                    "I" => 0,
                    "D" => 1,
                    _ => 2,
                });
                out.push(a);
            }
        }
    }
}

fn log_text(log: &[ActionCall]) -> String {
    log.iter()
        .map(|c| {
            let args: Vec<String> = c.args.iter().map(arg_text_pub).collect();
            format!("{},{},{},{},{}", c.pidx, c.ridx, c.span.0, c.span.1, args.join("."))
        })
        .collect::<Vec<_>>()
        .join(";")
}

pub fn emit(out: &mut Out, worker: &mut Worker, text: &str, rng: &mut Rng, thorough: bool, kind: &str) {
    let g = match grammar::build(text) {
        Ok(g) => g,
        Err(_) => {
            out.count("rejected_grammars");
            return;
        }
    };
    let (sg, st) = match from_yacc(&g, Minimiser::Pager) {
        Ok(x) => x,
        Err(_) => {
            out.count("accept_reduce_conflict_grammars");
            return;
        }
    };
    let id = out.id();
    let mut inputs = inputs_for(&g, rng, thorough);
    inputs.retain(|w| w.len() <= 10);
    // keep the accepted ones and a sample of the rejected ones
    let mut hfail: Option<String> = None;
    let mut body: Vec<usize> = Vec::new();
    let mut ilines = Vec::new();
    let mut rlines = Vec::new();
    let mut k = 0usize;
    let mut n_eps_calls = 0u64;
    let mut n_calls = 0u64;
    let mut n_rec_values = 0u64;
    let mut rejected_budget = if thorough { 30 } else { 8 };
    // token costs for the runs under recovery: unit costs for half of the grammars, uneven ones for the
    // rest (all three entry points must then agree on the SAME repaired parse)
    let uneven = text.len() % 2 == 1;
    let nt = usize::from(g.tokens_len());
    let cvec: Vec<u8> = (0..nt).map(|t| if uneven { [1u8, 3, 2, 5][(t * 7 + text.len()) % 4] } else { 1 }).collect();
    let cfn = |t: cfgrammar::TIdx<u32>| cvec[usize::from(t)];
    let cref: Option<&dyn Fn(cfgrammar::TIdx<u32>) -> u8> = if uneven { Some(&cfn) } else { None };
    if uneven {
        out.count("grammars_with_uneven_costs_under_recovery");
    }
    for w in &inputs {
        if !lr_terminates(&g, &st, w, 400 * (w.len() + 2)) {
            continue;
        }
        // recovery off, in process
        let r = guarded(std::panic::AssertUnwindSafe(|| parse_actions(&g, &st, w, RecoveryKind::None, None)));
        let po = match r {
            Ok(po) => po,
            Err(e) => {
                hfail.get_or_insert(format!("parser panicked on {:?}: {}", w, e));
                continue;
            }
        };
        let accepted = po.tree.is_some();
        if !accepted {
            if rejected_budget == 0 {
                continue;
            }
            rejected_budget -= 1;
        }
        body.extend(plist(w).split(' ').map(|x| x.parse::<usize>().unwrap()));
        body.push(0);
        match &po.tree {
            Some(t) => {
                body.push(1);
                enc_tree(t, &mut body);
                enc_log(&po.log, &mut body);
                // every action received the parse parameter
                if po.log.iter().any(|c| c.param != 7) {
                    hfail.get_or_insert(format!("an action did not receive the parse parameter on {:?}", w));
                }
                // generic tree mode = action-built tree
                if let Some(shape) = parse_generic_shape(&g, &st, w, RecoveryKind::None) {
                    if shape != shape_of(&g, t) {
                        hfail.get_or_insert(format!("parse_map tree differs from the tree built by actions on {:?}", w));
                    }
                    if guarded(std::panic::AssertUnwindSafe(|| parse_action_generictree_shape(&g, &st, w, RecoveryKind::None))).ok().flatten().as_ref() != Some(&shape) {
                        hfail.get_or_insert(format!("the tree built with lrpar::action_generictree differs from the generic parse-tree mode on {:?}", w));
                    }
                }
            }
            None => body.push(0),
        }
        ilines.push(format!("{} {} {}", k, if accepted { "acc" } else { "err" }, log_text(&po.log)));
        n_calls += po.log.len() as u64;
        n_eps_calls += po.log.iter().filter(|c| c.args.is_empty()).count() as u64;
        k += 1;
        // recovery on, for rejected inputs, in the killable worker
        if !accepted && w.len() <= 8 {
            let wr = worker.parse(text, w, true, if uneven { Some(&cvec[..]) } else { None }, std::time::Duration::from_millis(2500));
            if let WResult::Panic(m) = &wr {
                // e.g. a span that starts after it ends, built from a misplaced inserted lexeme
                hfail.get_or_insert(format!("parser panicked under recovery on {:?}: {}", w, m));
            }
            if let WResult::Ok(p2) = wr {
                if p2.wall_ms < 450 {
                    if let (Some(tt), true) = (&p2.tree, !p2.log.is_empty()) {
                        // re-run in process to get the structured result (deterministic now)
                        if let Ok(p3) = guarded(std::panic::AssertUnwindSafe(|| parse_actions(&g, &st, w, RecoveryKind::CPCTPlus, cref))) {
                            if let Some(t3) = &p3.tree {
                                if &t3.to_text() == tt && p3.wall_ms < 450 {
                                    body.extend(plist(w).split(' ').map(|x| x.parse::<usize>().unwrap()));
                                    body.push(1);
                                    body.push(1);
                                    enc_tree(t3, &mut body);
                                    enc_log(&p3.log, &mut body);
                                    enc_errs(&p3.errors, w.len(), &mut body);
                                    rlines.push(format!("{} acc {} | {}", k, log_text(&p3.log), t3.to_text()));
                                    k += 1;
                                    n_rec_values += 1;
                                    // the other two entry points, re-run in process: a run that took longer than the
                                    // recoverer's time budget allows may have been cut short (machine load) and is not judged
                                    let t0 = std::time::Instant::now();
                                    let shape0 = parse_generic_shape_costs(&g, &st, w, RecoveryKind::CPCTPlus, cref);
                                    let d0 = t0.elapsed().as_millis();
                                    if let Some(shape) = shape0 {
                                        if d0 >= 450 {
                                            out.count("reruns_slower_than_the_recovery_budget_not_compared");
                                        } else if shape != shape_of(&g, t3) {
                                            hfail.get_or_insert(format!("parse_map tree differs from the action tree under recovery on {:?}", w));
                                        }
                                        let t1 = std::time::Instant::now();
                                        let ag = guarded(std::panic::AssertUnwindSafe(|| parse_action_generictree_shape_costs(&g, &st, w, RecoveryKind::CPCTPlus, cref))).ok().flatten();
                                        let d1 = t1.elapsed().as_millis();
                                        if d0 >= 450 || d1 >= 450 {
                                            out.count("reruns_slower_than_the_recovery_budget_not_compared");
                                        } else if ag.as_ref() != Some(&shape) {
                                            hfail.get_or_insert(format!("the tree built with lrpar::action_generictree differs from the generic parse-tree mode under recovery on {:?}", w));
                                        }
                                    }
                                }
                            }
                        }
                    }
                }
            }
        }
    }
    let payload = format!("{} {} {} {} {} {}", grammar::dump_grammar(&g), dump_automaton(&g, &sg, &st), STRIDE, TOKLEN, k, crate::out::join(&body));
    out.case("C08", id, &payload);
    for l in ilines {
        out.imp(id, "I", &l);
    }
    for l in rlines {
        out.imp(id, "Ir", &l);
    }
    match hfail {
        None => out.imp(id, "H", "ok"),
        Some(e) => out.imp(id, "H", &format!("fail {}", e)),
    }
    let desc = format!("grammar=[{}] inputs={}", text.replace('\n', " ").trim(), k);
    out.imp(id, "D", &desc);
    out.imp(id, "G", &text.replace('\n', "\\n"));
    out.count(&format!("kind.{}", kind));
    out.add("inputs", k as u64);
    out.add("action_calls", n_calls);
    out.add("action_calls_of_empty_productions", n_eps_calls);
    out.add("values_under_recovery", n_rec_values);
    if out.next_id % 37 == 1 {
        out.sample(desc);
    }
}

fn shape_of(g: &cfgrammar::yacc::YaccGrammar<u32>, t: &PTree) -> String {
    match t {
        PTree::Leaf(tok, st, _, false) => format!("L {} {}", tok, st / STRIDE),
        PTree::Leaf(tok, st, _, true) => format!("L {} {}", tok, st + 1_000_000),
        PTree::Node(p, kids) => {
            let ks: Vec<String> = kids.iter().map(|k| shape_of(g, k)).collect();
            format!("R {} {} {}", usize::from(g.prod_to_rule(cfgrammar::PIdx(*p as u32))), kids.len(), ks.join(" ")).trim().to_string()
        }
    }
}

/// grammars in which symbols derive nothing through non-empty productions (and optionally
/// something), placed at random positions among tokens
fn eps_family(rng: &mut Rng) -> String {
    let mut s = String::from("%start S\n%%\n");
    let n = rng.range(2, 5);
    let mut rhs = Vec::new();
    let mut tok = 0;
    for _ in 0..n {
        match rng.below(5) {
            0 => rhs.push("M".to_string()),
            1 => rhs.push("N".to_string()),
            2 => rhs.push("O".to_string()),
            _ => {
                rhs.push(format!("'t{}'", tok));
                tok += 1;
            }
        }
    }
    if tok == 0 {
        rhs.insert(rng.below(rhs.len() + 1), "'t0'".to_string());
    }
    let wrap = rng.chance(1, 2);
    if wrap {
        s.push_str(&format!("S: 'w' T | T;\nT: {};\n", rhs.join(" ")));
    } else {
        s.push_str(&format!("S: {};\n", rhs.join(" ")));
    }
    // M derives nothing through a two-symbol production; N through a unit chain; O is optional
    s.push_str(match rng.below(3) {
        0 => "M: E E;\n",
        1 => "M: E O2;\n",
        _ => "M: O2 E;\n",
    });
    s.push_str("N: M;\nO: 'o' | ;\nO2: 'p' | ;\nE: ;\n");
    s
}

pub fn run(a: &Args) {
    let mut out = Out::new(&a.out);
    let mut worker = Worker::new();
    if let Some(rp) = &a.replay {
        let txt = std::fs::read_to_string(rp).unwrap_or_default();
        let mut rng = Rng::for_case(a.seed, 8, 0);
        for line in txt.lines() {
            if let Some(rest) = line.strip_prefix("# G ") {
                emit(&mut out, &mut worker, &rest.replace("\\n", "\n"), &mut rng, a.thorough, "replay");
            }
        }
        out.finish(&a.out);
        return;
    }
    if a.shard == 0 {
        let mut rng = Rng::for_case(a.seed, 8, 0);
        for t in grammar::classics() {
            emit(&mut out, &mut worker, t, &mut rng, a.thorough, "classic");
        }
        for t in [
            "%start S\n%%\nS: 'a' E 'x'; E: ;",
            "%start T\n%%\nT: E 'x'; E: ;",
            "%start T\n%%\nT: 'x' E; E: ;",
            "%start T\n%%\nT: E; E: ;",
            "%start S\n%%\nS: A B C; A: 'a' | ; B: 'b' | ; C: 'c' | ;",
            "%start S\n%%\nS: L; L: L 'x' | ;",
            // symbols that derive nothing through NON-empty productions, in first/middle/last position
            "%start D\n%%\nD: 'l' I; I: M 'i'; M: V K; V: 'p' | ; K: 's' | ;",
            "%start S\n%%\nS: 'a' M 'b'; M: V K; V: ; K: ;",
            "%start S\n%%\nS: 'a' 'b' M; M: V K; V: ; K: ;",
            "%start S\n%%\nS: M 'a' 'b'; M: N; N: V; V: ;",
            "%start S\n%%\nS: 'a' T; T: M N 'b' M; M: V V; N: M; V: ;",
        ] {
            emit(&mut out, &mut worker, t, &mut rng, a.thorough, "corpus");
        }
    }
    let n = if a.thorough { 3000 } else { 240 };
    for case in 0..n {
        if case % a.shards != a.shard {
            continue;
        }
        let mut rng = Rng::for_case(a.seed, 8, case as u64 + 1);
        if case % 6 == 0 {
            let t = eps_family(&mut rng);
            emit(&mut out, &mut worker, &t, &mut rng, a.thorough, "eps_family");
            continue;
        }
        let cfg = GenCfg { precs: rng.chance(1, 5), ..GenCfg::default() };
        let g = grammar::random_grammar(&mut rng, &cfg);
        emit(&mut out, &mut worker, &g.render(), &mut rng, a.thorough, "random");
    }
    out.finish(&a.out);
}
