//! C13: compile-time generated parsers/lexers behave like the run-time ones.
//!
//! Three kinds of case (first number of the request):
//!  0  `$`-substitution of ONE action text. The real routine is private to `gen_user_actions`, so it is
//!     observed through a generated file: `CTParserBuilder::build()` is run in-process on a grammar
//!     whose productions carry generated action texts, the body of every `__gt_action_N` is cut out of
//!     the generated `.rs` file and compared with the Lean model (`M`) and specification (`S`) on the
//!     same text. Literal-mode texts (`"…"`: one string literal, which the pretty-printer copies
//!     verbatim) are compared byte for byte, token-mode texts modulo white space; texts with a bad `$`
//!     make `build()` fail and the reported line:column is compared with the model's error offset.
//!  1  the wrapper of one production: the `let __gt_arg_i = match __gt_args.next().unwrap() {…}` sequence
//!     and the call of the action function are cut out of the generated file, interpreted on the
//!     canonical fitting drain and compared with the model's `unpack`.
//!  2  translation validation: K generated grammar/lexer pairs with builder settings are instantiated
//!     into the template crate `harness/ctgen` under `<out>/ctgen-N/`, built ONCE with cargo, run, and
//!     the output is compared line by line with the run-time pipeline (`RTParserBuilder`,
//!     `LRNonStreamingLexerDef::from_str`) computed here from the same sources (`H ok|fail`).
use crate::gen::grammar::{self, AGrammar, GenCfg, S};
use crate::out::{guarded, plist, Out};
use crate::rng::Rng;
use crate::Args;
use cfgrammar::yacc::{YaccGrammar, YaccKind, YaccOriginalActionKind};
use cfgrammar::{RIdx, Span};
use lrlex::{DefaultLexerTypes, LRNonStreamingLexerDef, LexerDef};
use lrpar::parser::AStackType;
#[allow(deprecated)]
use lrpar::Node;
use lrpar::{CTParserBuilder, Lexeme, NonStreamingLexer, RTParserBuilder, RecoveryKind};
use lrtable::{from_yacc, Minimiser};
use std::collections::{BTreeMap, BTreeSet};
use std::path::{Path, PathBuf};
use std::time::Instant;

#[path = "../../ctgen/src/common.rs"]
mod ctcommon;
use ctcommon::{err_lines, lex_line, lf, nd, value_line_node, value_line_t, zero_width_variant, Lx, LT, T};

const TPL_CARGO: &str = include_str!("../../ctgen/Cargo.toml");
const TPL_BUILD: &str = include_str!("../../ctgen/build.rs");
const TPL_MAIN: &str = include_str!("../../ctgen/src/main.rs");
const TPL_COMMON: &str = include_str!("../../ctgen/src/common.rs");
const HARNESS_CARGO: &str = include_str!("../../Cargo.toml");

/// the grmtools tree this harness was built against (path dependency of harness/Cargo.toml)
fn repo_path() -> String {
    let manifest = std::fs::read_to_string(Path::new(env!("CARGO_MANIFEST_DIR")).join("Cargo.toml")).unwrap_or_else(|_| HARNESS_CARGO.to_string());
    for line in manifest.lines() {
        if line.trim_start().starts_with("cfgrammar") {
            if let Some(i) = line.find("path = \"") {
                let rest = &line[i + 8..];
                if let Some(j) = rest.find("/cfgrammar\"") {
                    return rest[..j].to_string();
                }
            }
        }
    }
    "/repo".to_string()
}

// ---------------------------------------------------------------------------------------------
// kind 0: `$`-substitution observed through generated files
// ---------------------------------------------------------------------------------------------

const PLAIN: &[&str] = &["a", "b", "x", "_", " ", " ", "1", "7", "0", ".", ",", "+", "(", ")", "\u{e9}", "\u{2764}", "\u{1F600}", "'", ":", "lexer", "span", "s", "l"];
const DOLLAR_OK: &[&str] = &["$1", "$2", "$3", "$9", "$0", "$12", "$007", "$1x", "$2_", "$$", "$$", "$span", "$lexer", "$spans", "$lexerx", "$span$lexer", "$$$1", "$$$$", "$1$2", "$\u{663}", "$\u{b2}", "$1\u{e9}", "$$span", "$$lexer"];
const DOLLAR_BAD: &[&str] = &["$x", "$ ", "$", "$s", "$l", "$spa", "$lexe", "$\u{e9}", "$\u{1F600}", "$-1", "$.", "$(", "$S", "$Span", "$_1", "$'"];

/// text of a string literal's inside: no `"`, `\`, braces or newlines
fn lit_text(rng: &mut Rng, bad: bool) -> String {
    let n = rng.range(0, 9);
    let mut s = String::new();
    let badpos = if bad { rng.below(n + 1) } else { usize::MAX };
    for i in 0..=n {
        if i == badpos {
            s.push_str(*rng.pick(DOLLAR_BAD));
            // what follows a bad `$…` decides whether it is bad: keep `$` + non-numeric
            if rng.chance(1, 2) {
                s.push_str(*rng.pick(&["", " ", "q", "\u{e9}"]));
            } else {
                break;
            }
            continue;
        }
        if i == n {
            break;
        }
        if rng.chance(2, 5) {
            s.push_str(*rng.pick(DOLLAR_OK));
        } else {
            s.push_str(*rng.pick(PLAIN));
        }
    }
    s
}

/// token-mode text: a call expression with `$`-forms as arguments (kept short so that the
/// pretty-printer does not re-flow it beyond white space)
fn tok_text(rng: &mut Rng) -> String {
    let n = rng.range(0, 4);
    let args: Vec<String> = (0..n)
        .map(|_| match rng.below(9) {
            0 => "$1".to_string(),
            1 => format!("${}", rng.range(0, 12)),
            2 => "$span".to_string(),
            3 => "$lexer".to_string(),
            4 => format!("\"{}\"", lit_text(rng, false)),
            5 => format!("g(${})", rng.range(1, 3)),
            6 => "$2.0".to_string(),
            7 => "$span.start()".to_string(),
            _ => "x".to_string(),
        })
        .collect();
    let sep = *rng.pick(&[", ", ",", " , ", ",  "]);
    format!("f({})", args.join(sep))
}

struct DCase {
    text: String,
    /// 0 literal (exact), 1 tokens (white-space insensitive), 2 error expected
    mode: u8,
    lead: String,
    trail: String,
}

fn numeric_cps(text: &str) -> Vec<u32> {
    let s: BTreeSet<u32> = text.chars().filter(|c| c.is_numeric()).map(|c| c as u32).collect();
    s.into_iter().collect()
}

fn dollar_payload(ws: bool, pfx: &str, text: &str) -> String {
    let p: Vec<u32> = pfx.chars().map(|c| c as u32).collect();
    let t: Vec<u32> = text.chars().map(|c| c as u32).collect();
    format!("0 {} {} {} {}", if ws { 1 } else { 0 }, plist(&p), plist(&t), plist(&numeric_cps(text)))
}

fn parse_dollar_payload(p: &str) -> Option<(bool, String)> {
    let v: Vec<u64> = p.split_whitespace().map(|t| t.parse().ok()).collect::<Option<_>>()?;
    if *v.first()? != 0 {
        return None;
    }
    let ws = *v.get(1)? == 1;
    let np = *v.get(2)? as usize;
    let n = *v.get(3 + np)? as usize;
    let text: String = v.get(4 + np..4 + np + n)?.iter().map(|c| char::from_u32(*c as u32)).collect::<Option<_>>()?;
    Some((ws, text))
}

fn strip_ws(s: &str) -> String {
    // same normalisation as the driver's `fmtRes` with ws = 1
    let t: Vec<char> = s.chars().filter(|c| !matches!(c, ' ' | '\n' | '\t' | '\r')).collect();
    let mut o = String::new();
    for (i, c) in t.iter().enumerate() {
        if *c == ',' && t.get(i + 1) == Some(&')') {
            continue;
        }
        o.push(*c);
    }
    o
}

fn cps(s: &str) -> String {
    let v: Vec<u32> = s.chars().map(|c| c as u32).collect();
    plist(&v)
}

/// the grammar that carries the action texts, with the byte offset just after each action's `{`
fn dollar_grammar(cases: &[&DCase]) -> (String, Vec<usize>) {
    let mut s = String::from("%start S\n%%\nS -> X:\n");
    let mut starts = Vec::new();
    for (i, c) in cases.iter().enumerate() {
        s.push_str(if i == 0 { "    " } else { "  | " });
        s.push_str(&format!("'k{}' 'x' 'y' 'z' {{", i));
        starts.push(s.len());
        s.push_str(&c.lead);
        s.push_str(&c.text);
        s.push_str(&c.trail);
        s.push_str("}\n");
    }
    s.push_str("  ;\n");
    (s, starts)
}

/// bodies of `fn __gt_action_N` in file order, and the action prefix
fn action_bodies(src: &str) -> (String, Vec<String>) {
    let lines: Vec<&str> = src.lines().collect();
    let mut bodies = Vec::new();
    let mut pfx = String::new();
    let mut i = 0;
    while i < lines.len() {
        let l = lines[i];
        if let Some(rest) = l.strip_prefix("    fn ") {
            if let Some(k) = rest.find("action_") {
                if rest[k + 7..].chars().next().map_or(false, |c| c.is_ascii_digit()) && !rest[..k].contains(char::is_whitespace) {
                    pfx = rest[..k].to_string();
                    // end of the signature: first line from here that ends with `{`
                    let mut j = i;
                    while j < lines.len() && !lines[j].ends_with('{') {
                        j += 1;
                    }
                    let mut body = Vec::new();
                    j += 1;
                    while j < lines.len() && lines[j] != "    }" {
                        body.push(lines[j]);
                        j += 1;
                    }
                    bodies.push(body.join("\n").trim().to_string());
                    i = j;
                }
            }
        }
        i += 1;
    }
    (pfx, bodies)
}

static BUILD_NO: std::sync::atomic::AtomicUsize = std::sync::atomic::AtomicUsize::new(0);

/// run the real builder on `ysrc`; Ok(generated file) or Err(message) or Err("PANIC …")
fn ct_build(dir: &Path, ysrc: &str) -> Result<String, String> {
    let n = BUILD_NO.fetch_add(1, std::sync::atomic::Ordering::SeqCst);
    std::fs::create_dir_all(dir).unwrap();
    let yp = dir.join(format!("g{}.y", n));
    let op = dir.join(format!("g{}.y.rs", n));
    std::fs::write(&yp, ysrc).unwrap();
    let r = guarded(std::panic::AssertUnwindSafe(|| {
        CTParserBuilder::<DefaultLexerTypes<u32>>::new()
            .yacckind(YaccKind::Grmtools)
            .grammar_path(&yp)
            .output_path(&op)
            .error_on_conflicts(false)
            .warnings_are_errors(false)
            .show_warnings(false)
            .build()
            .map(|_| ())
            .map_err(|e| e.to_string())
    }));
    let res = match r {
        Ok(Ok(())) => std::fs::read_to_string(&op).map_err(|e| format!("no output file: {}", e)),
        Ok(Err(e)) => Err(e),
        Err(p) => Err(format!("PANIC {}", p)),
    };
    let _ = std::fs::remove_file(&yp);
    let _ = std::fs::remove_file(&op);
    res
}

/// byte offset of (line, col) (1-based, col in characters) in `src`
fn linecol_to_off(src: &str, line: usize, col: usize) -> Option<usize> {
    let mut start = 0;
    for _ in 1..line {
        start += src[start..].find('\n')? + 1;
    }
    let mut off = start;
    let mut it = src[start..].chars();
    for _ in 1..col {
        off += it.next()?.len_utf8();
    }
    Some(off)
}

fn emit_dollar(out: &mut Out, dir: &Path, batch: &[DCase], kind: &str) {
    // all non-error cases of the batch share one build; every error case needs its own
    let oks: Vec<&DCase> = batch.iter().filter(|c| c.mode != 2).collect();
    if !oks.is_empty() {
        let (y, _) = dollar_grammar(&oks);
        let res = ct_build(dir, &y);
        match res {
            Ok(gen) => {
                let (pfx, bodies) = action_bodies(&gen);
                for (i, c) in oks.iter().enumerate() {
                    let id = out.id();
                    let ws = c.mode == 1;
                    out.case("C13", id, &dollar_payload(ws, &pfx, &c.text));
                    out.imp(id, "D", &format!("dollar {} text={:?} lead={:?} trail={:?}", kind, c.text, c.lead, c.trail));
                    match bodies.get(i) {
                        Some(b) if bodies.len() == oks.len() => {
                            let got = if ws { strip_ws(b) } else { b.clone() };
                            out.imp(id, "I", &format!("ok {}", cps(&got)));
                        }
                        _ => out.imp(id, "I", &format!("unextractable {} bodies for {} actions", bodies.len(), oks.len())),
                    }
                    count_dollar(out, c);
                }
            }
            Err(e) => {
                // the builder refused a batch the model accepts: report every case with the message
                for c in &oks {
                    let id = out.id();
                    out.case("C13", id, &dollar_payload(c.mode == 1, "__gt_", &c.text));
                    out.imp(id, "D", &format!("dollar {} text={:?}", kind, c.text));
                    out.imp(id, "I", &format!("builderror {}", e.replace('\n', " ").chars().take(200).collect::<String>()));
                    count_dollar(out, c);
                }
            }
        }
    }
    for c in batch.iter().filter(|c| c.mode == 2) {
        let (y, starts) = dollar_grammar(&[c]);
        let id = out.id();
        let res = ct_build(dir, &y);
        // a text generated as erroneous can turn out acceptable (`$` + `$1` reads `$$` `1`): then it
        // is an ordinary case, compared modulo white space unless it is one string literal
        let is_lit = c.text.len() >= 2 && c.text.starts_with('"') && c.text.ends_with('"') && !c.text[1..c.text.len() - 1].contains('"');
        let ws = res.is_ok() && !is_lit;
        out.case("C13", id, &dollar_payload(ws, "__gt_", &c.text));
        let lead_ws = c.lead.len();
        let i_line = match res {
            Ok(gen) => {
                out.count("dollar.generated_as_error_but_accepted");
                let (_, bodies) = action_bodies(&gen);
                match bodies.first() {
                    Some(b) if bodies.len() == 1 => format!("ok {}", cps(&if ws { strip_ws(b) } else { b.clone() })),
                    _ => "unextractable".to_string(),
                }
            }
            Err(e) if e.starts_with("PANIC") => {
                out.count("dollar.build_panicked");
                format!("panic {}", e.replace('\n', " ").chars().take(120).collect::<String>())
            }
            Err(e) => {
                // "Error at <path>:<line>:<col>" + underlined text "Unknown text following '$'"
                let mut pos = None;
                if e.contains("Unknown text following '$'") {
                    if let Some(k) = e.find(".y:") {
                        let rest = &e[k + 3..];
                        let mut it = rest.split(|ch: char| !ch.is_ascii_digit());
                        let line: Option<usize> = it.next().and_then(|x| x.parse().ok());
                        let col: Option<usize> = it.next().and_then(|x| x.parse().ok());
                        if let (Some(l), Some(cn)) = (line, col) {
                            pos = linecol_to_off(&y, l, cn);
                        }
                    }
                }
                match pos {
                    // the code adds the offset to the start of the action's span, which is the byte after `{`
                    Some(p) if p >= starts[0] => format!("err {}", p - starts[0]),
                    _ => format!("othererror {}", e.replace('\n', " ").chars().take(160).collect::<String>()),
                }
            }
        };
        // With white space between `{` and the text, cfgrammar's action span is displaced to the left by
        // that many bytes (it is computed from the trimmed text); when its end then falls inside a
        // multi-byte character the diagnostic formatter panics AFTER the routine has decided on the error.
        // That stage is outside the modelled routine and outside this property (the pair is one the
        // builder rejects): counted and described, not compared.
        if i_line.starts_with("panic") && lead_ws > 0 {
            out.count("dollar.build_panicked_in_diagnostics_with_displaced_action_span");
        } else if i_line.starts_with("othererror cannot parse string into token stream") {
            // the routine accepted the text; proc_macro2 then refused the result (not Rust tokens)
            out.count("dollar.accepted_text_is_not_rust(rejected_by_proc_macro2_not_compared)");
        } else if i_line == "unextractable" {
            // accepted by the routine but not Rust syntax: the builder then writes the token stream
            // unformatted (syn cannot parse it), from which bodies are not cut; nothing to compare
            out.count("dollar.accepted_text_is_not_rust(unformatted_output_not_compared)");
        } else {
            out.imp(id, "I", &i_line);
        }
        out.imp(id, "D", &format!("dollar {} (error expected) text={:?} lead={:?} trail={:?} -> {}", kind, c.text, c.lead, c.trail, i_line.chars().take(60).collect::<String>()));
        if lead_ws > 0 {
            out.count("dollar.err_with_leading_ws(location_shifted_left_by_that_many_bytes)");
        }
        count_dollar(out, c);
    }
}

fn count_dollar(out: &mut Out, c: &DCase) {
    out.count(["dollar.mode.literal", "dollar.mode.tokens", "dollar.mode.error"][c.mode as usize]);
    out.count(&format!("dollar.len.{}", (c.text.chars().count() / 8) * 8));
    if c.text.contains("$$") {
        out.count("dollar.has_dollar_dollar");
    }
    if c.text.contains("$span") {
        out.count("dollar.has_span");
    }
    if c.text.contains("$lexer") {
        out.count("dollar.has_lexer");
    }
    if c.text.chars().any(|ch| ch.len_utf8() > 1) {
        out.count("dollar.has_multibyte");
    }
    if c.text.chars().any(|ch| ch.is_numeric() && !ch.is_ascii()) {
        out.count("dollar.has_nonascii_numeric");
    }
    if c.text.ends_with('$') {
        out.count("dollar.ends_with_dollar");
    }
    if out.next_id % 53 == 1 && out.samples.len() < 3 {
        out.sample(format!("action text {:?}", c.text));
    }
}

fn random_dcase(rng: &mut Rng) -> DCase {
    let lead = rng.pick(&["", "", " ", "  ", "\n      ", "\t"]).to_string();
    let trail = rng.pick(&["", "", " ", "\n  "]).to_string();
    match rng.below(10) {
        0..=4 => DCase { text: format!("\"{}\"", lit_text(rng, false)), mode: 0, lead, trail },
        5..=6 => DCase { text: tok_text(rng), mode: 1, lead, trail },
        _ => {
            // an erroneous text need not be Rust; it only has to get through the Yacc action parser.
            // The error location is only meaningful relative to the text when nothing precedes it
            // inside the braces (see the module documentation / findings), so `lead` is kept.
            let mut t = lit_text(rng, true);
            if rng.chance(1, 2) {
                t = format!("\"{}\"", t);
            }
            let t = t.trim().to_string();
            let t = if t.is_empty() { "$".to_string() } else { t };
            DCase { text: t, mode: 2, lead, trail }
        }
    }
}

// ---------------------------------------------------------------------------------------------
// kind 1: wrapper structure
// ---------------------------------------------------------------------------------------------

/// interpret the generated wrapper of the production with symbols `syms` (0 = token, 1 = rule + its
/// index) on the canonical drain; result in the driver's `name=O<id>|E<id>|V<v>` form
fn wrapper_answer(gen: &str, wrapper_no: usize, syms: &[(u8, usize)]) -> String {
    // cut the wrapper function
    let key = format!("wrapper_{}<", wrapper_no);
    let start = match gen.find(&key) {
        Some(s) => s,
        None => return "nowrapper".to_string(),
    };
    let rest = &gen[start..];
    let end = rest.find("\n        }\n").map(|e| e + 10).unwrap_or(rest.len());
    let body = &rest[..end];
    // canonical drain
    let mut drain: std::collections::VecDeque<(u8, usize, usize, bool)> = syms
        .iter()
        .enumerate()
        .map(|(i, (k, idx))| if *k == 0 { (0u8, 100 + i, 0usize, i % 2 == 1) } else { (1u8, 200 + i, *idx, false) })
        .collect();
    let mut env: BTreeMap<String, String> = BTreeMap::new();
    let mut pos = 0;
    while let Some(k) = body[pos..].find("let ") {
        let at = pos + k + 4;
        let name: String = body[at..].chars().take_while(|c| c.is_alphanumeric() || *c == '_').collect();
        let blk_end = body[at..].find("};").map(|e| at + e).unwrap_or(body.len());
        let blk = &strip_ws(&body[at..blk_end]);
        pos = blk_end;
        if !blk.contains(".next().unwrap()") {
            continue;
        }
        let ent = match drain.pop_front() {
            Some(e) => e,
            None => return "panic".to_string(),
        };
        let val = if blk.contains("AStackType::Lexeme(l)") && (blk.contains("ifl.faulty(){") || blk.contains("if!l.faulty(){")) {
            // `if l.faulty() { Err(l) } else { Ok(l) }`
            let f = blk.find("l.faulty()").unwrap();
            let after = &blk[f..];
            let (e, o) = (after.find("Err(l)"), after.find("Ok(l)"));
            match (ent.0, e, o) {
                (0, Some(e), Some(o)) if e < o => format!("{}{}", if ent.3 { "E" } else { "O" }, ent.1),
                (0, Some(_), Some(_)) => format!("{}{}", if ent.3 { "O" } else { "E" }, ent.1),
                _ => return "panic".to_string(),
            }
        } else if let Some(a) = blk.find("::Ak") {
            let var: String = blk[a + 4..].chars().take_while(|c| c.is_ascii_digit()).collect();
            if ent.0 == 1 && var.parse::<usize>().ok() == Some(ent.2) && blk.contains("(x))=>x") {
                format!("V{}", ent.1)
            } else {
                return "panic".to_string();
            }
        } else {
            return "unparsed-let".to_string();
        };
        env.insert(name, val);
    }
    // the call: `…action_N(ridx, lexer, span, (), a, b, …)`; arguments after the 4 fixed ones
    let call = match body.find(&format!("action_{}(", wrapper_no)) {
        Some(c) => c,
        None => return "nocall".to_string(),
    };
    let args_txt = &body[call..];
    let open = args_txt.find('(').unwrap();
    let mut depth = 0;
    let mut close = args_txt.len();
    for (i, ch) in args_txt.char_indices().skip(open) {
        if ch == '(' {
            depth += 1;
        } else if ch == ')' {
            depth -= 1;
            if depth == 0 {
                close = i;
                break;
            }
        }
    }
    let inner = &args_txt[open + 1..close];
    let passed: Vec<String> = inner.split(',').map(|s| s.trim().to_string()).filter(|s| !s.is_empty()).collect();
    // parameter names of the action function, in declaration order
    let akey = format!("action_{}<", wrapper_no);
    let sig = match gen.find(&akey) {
        Some(s) => &gen[s..],
        None => return "noaction".to_string(),
    };
    let sig_end = sig.find(") ").unwrap_or(sig.len());
    let params: Vec<String> = sig[..sig_end]
        .lines()
        .skip(1)
        .filter(|l| l.starts_with("        ") && !l.starts_with("         "))
        .filter_map(|l| l.trim().split(':').next().map(|s| s.trim().trim_start_matches("mut ").to_string()))
        .filter(|s| !s.is_empty() && s.chars().all(|c| c.is_alphanumeric() || c == '_'))
        .collect();
    if passed.len() != params.len() || passed.len() < 4 {
        return format!("arity passed={} params={}", passed.len(), params.len());
    }
    let mut o = Vec::new();
    for (p, a) in params.iter().zip(passed.iter()).skip(4) {
        match env.get(a) {
            Some(v) => o.push(format!("{}={}", p, v)),
            None => o.push(format!("{}=unbound({})", p, a)),
        }
    }
    o.join(" ")
}

fn emit_wrappers(out: &mut Out, dir: &Path, rng: &mut Rng) {
    // a grammar with two rules so that rule-typed arguments occur; productions of random shapes
    let nprods = rng.range(2, 6);
    let mut prods: Vec<Vec<(u8, usize)>> = Vec::new();
    for _ in 0..nprods {
        let len = rng.range(0, 5);
        prods.push((0..len).map(|_| if rng.chance(3, 5) { (0u8, rng.below(3)) } else { (1u8, rng.below(2)) }).collect());
    }
    let mut y = String::from("%start A\n%%\n");
    let mut order: Vec<&Vec<(u8, usize)>> = Vec::new();
    for r in 0..2 {
        y.push_str(&format!("{} -> u8:\n", ["A", "B"][r]));
        let mine: Vec<&Vec<(u8, usize)>> = prods.iter().enumerate().filter(|(i, _)| i % 2 == r).map(|(_, p)| p).collect();
        for (j, p) in mine.iter().enumerate() {
            y.push_str(if j == 0 { "    " } else { "  | " });
            for (k, idx) in p.iter() {
                if *k == 0 {
                    y.push_str(&format!("'t{}' ", idx));
                } else {
                    y.push_str(["A ", "B "][*idx]);
                }
            }
            y.push_str("{ 0 }\n");
            order.push(p);
        }
        y.push_str("  ;\n");
    }
    let gen = ct_build(dir, &y);
    // rule indices as the grammar numbers them (needed for the variant names)
    let g = YaccGrammar::<u32>::new(YaccKind::Grmtools, &y);
    if gen.is_err() || g.is_err() {
        // a grammar the builder does not accept (e.g. `A: A` gives an accept/reduce conflict) is outside
        // the property; nothing to compare
        out.count("wrapper.random_grammar_rejected_by_builder");
        return;
    }
    for (n, p) in order.iter().enumerate() {
        let id = out.id();
        let (gen, g) = match (&gen, &g) {
            (Ok(gen), Ok(g)) => (gen, g),
            _ => {
                out.case("C13", id, "1 0");
                out.imp(id, "I", "builderror");
                out.imp(id, "D", &format!("wrapper grammar {:?}", y));
                continue;
            }
        };
        let ridx_of = |name: &str| usize::from(g.rule_idx(name).unwrap());
        let syms: Vec<(u8, usize)> = p.iter().map(|(k, idx)| if *k == 0 { (0, *idx) } else { (1, ridx_of(["A", "B"][*idx])) }).collect();
        // productions are numbered in file order after the start production? find by rule/alternative
        let rname = if n < order.len() && prods.iter().enumerate().filter(|(i, _)| i % 2 == 0).count() > n { "A" } else { "B" };
        let na = prods.iter().enumerate().filter(|(i, _)| i % 2 == 0).count();
        let alt = if rname == "A" { n } else { n - na };
        let pidx = usize::from(g.rule_to_prods(g.rule_idx(rname).unwrap())[alt]);
        let flat: Vec<usize> = syms.iter().flat_map(|(k, i)| vec![*k as usize, *i]).collect();
        out.case("C13", id, &format!("1 {} {}", syms.len(), crate::out::join(&flat)));
        out.imp(id, "I", &wrapper_answer(gen, pidx, &syms));
        out.imp(id, "D", &format!("wrapper of production {} ({} alt {}) symbols {:?}", pidx, rname, alt, syms));
        out.count("wrapper.cases");
        out.count(&format!("wrapper.len.{}", syms.len()));
    }
}

// ---------------------------------------------------------------------------------------------
// kind 2: translation validation of whole generated programs
// ---------------------------------------------------------------------------------------------

#[derive(Clone, Debug)]
struct Settings {
    yk: &'static str,
    rec: &'static str,
    ser: &'static str,
    ed: &'static str,
    vis: String,
    led: &'static str,
    lvis: String,
    /// the grammar declares `%parse-param base: usize` and its actions add `base` to the node label
    param: bool,
}

struct Pair {
    idx: usize,
    st: Settings,
    y: String,
    l: String,
    lexvariant: usize,
    tags: Vec<Vec<String>>,
    inputs: Vec<String>,
}

const YKS: &[&str] = &["grmtools", "generic", "noaction", "useraction"];
const RECS: &[&str] = &["cpctplus", "none", "default"];
const SERS: &[&str] = &["fixed", "var", "default"];
const EDS: &[&str] = &["2015", "2018", "2021"];

fn vis_of(k: usize, idx: usize) -> String {
    match k % 6 {
        0 => "private".to_string(),
        1 => "pub".to_string(),
        2 => "super".to_string(),
        3 => "self".to_string(),
        4 => "crate".to_string(),
        _ => format!("in:crate::pair{}", idx),
    }
}

/// settings of pair `idx`: the first pairs walk through every value of every setting (so that the quick
/// tier's 6 pairs cover all yacc kinds, recoverers, formats, editions and visibilities), later ones are random
fn settings_for(rng: &mut Rng, idx: usize) -> Settings {
    if idx < 8 {
        // every yacc kind with recovery off AND on (the generated `parse` has one arm per kind, each of
        // which must pass the recoverer on), all formats, editions and visibilities
        Settings {
            yk: YKS[idx % 4],
            rec: ["none", "none", "none", "none", "cpctplus", "cpctplus", "default", "cpctplus"][idx],
            ser: ["fixed", "var", "default", "fixed", "var", "fixed", "var", "default"][idx],
            ed: ["2021", "2018", "2015", "2015", "2018", "2021", "2021", "2018"][idx],
            vis: vis_of(idx, idx),
            led: ["2015", "2018", "2021", "2021", "2015", "2018", "2015", "2021"][idx],
            lvis: vis_of(idx + 1, idx),
            param: idx == 4 || idx == 3,
        }
    } else {
        Settings {
            yk: *rng.pick(&[YKS[0], YKS[0], YKS[1], YKS[2], YKS[3]]),
            rec: *rng.pick(RECS),
            ser: *rng.pick(SERS),
            ed: *rng.pick(EDS),
            vis: vis_of(rng.below(6), idx),
            led: *rng.pick(EDS),
            lvis: vis_of(rng.below(6), idx),
            param: rng.chance(1, 3),
        }
    }
}

/// (regex, sample texts) per token for the lexer variants
fn lex_table(variant: usize) -> Vec<(&'static str, Vec<&'static str>)> {
    match variant {
        0 => vec![("a", vec!["a"]), ("b", vec!["b"]), ("c", vec!["c"]), ("d", vec!["d"]), ("e", vec!["e"])],
        1 => vec![("[0-9]+", vec!["0", "42", "007"]), ("[a-z]+", vec!["x", "foo", "\u{e9}t\u{e9}"]), ("\\+", vec!["+"]), ("\\(", vec!["("]), ("\\)", vec![")"])],
        2 => vec![("if", vec!["if"]), ("[a-z]+", vec!["i", "iff", "x", "else"]), ("[0-9]+", vec!["1", "23"]), ("==", vec!["=="]), ("=", vec!["="])],
        3 => vec![("a", vec!["a", "A"]), ("b+", vec!["b", "BB", "bBb"]), ("c", vec!["c"]), ("\"[^\"]*\"", vec!["\"\"", "\"q r\""]), ("\u{e9}", vec!["\u{e9}"])],
        // anchors with `!multi_line`: `$` and `^` then refer to the whole input, not to its lines
        4 => vec![("[a-z]+$", vec!["x", "foo"]), ("[a-z]+", vec!["y", "bar"]), ("[0-9]+", vec!["1", "23"]), (";", vec![";"]), ("^#", vec!["#"])],
        // start states: `<` enters the inclusive state TAG, `>` leaves it; inside TAG a word matches the
        // TAG-only rule and the unrestricted rule equally long — the one listed first wins (rendered by hand
        // in `render_lexer`)
        6 => vec![("[a-z]+", vec!["b", "em"]), ("[a-z]+", vec!["x", "word"]), ("<", vec!["<"]), (">", vec![">"]), ("[0-9]+", vec!["1", "42"])],
        // `swap_greed` (7: `+` is lazy, a word is lexed one character at a time) and `ignore_whitespace` (8:
        // nothing changes for these rules): the flags must reach the generated lexer as themselves
        7 | 8 => vec![("[0-9]+", vec!["0", "42", "007"]), ("[a-z]+", vec!["x", "foo", "\u{e9}t\u{e9}"]), ("\\+", vec!["+"]), ("\\(", vec!["("]), ("\\)", vec![")"])],
        // `.` with `!dot_matches_new_line`: the skipped `%.*` rule (below) ends at the end of the line
        _ => vec![("a", vec!["a"]), ("b", vec!["b"]), ("c.?", vec!["c", "cx"]), ("d", vec!["d"]), ("e", vec!["e"])],
    }
}

fn render_lexer(variant: usize, ntoks: usize, comments: bool) -> String {
    let mut s = String::new();
    if variant == 3 {
        s.push_str("%grmtools{case_insensitive}\n");
    }
    if variant == 4 {
        s.push_str("%grmtools{!multi_line}\n");
    }
    if variant == 5 {
        s.push_str("%grmtools{!dot_matches_new_line}\n");
    }
    if variant == 7 {
        s.push_str("%grmtools{swap_greed}\n");
    }
    if variant == 8 {
        s.push_str("%grmtools{ignore_whitespace}\n");
    }
    if comments {
        s.push_str("%x COMMENT\n");
    }
    s.push_str("%%\n");
    if variant == 6 {
        // (comments never combine with this variant: the caller passes `comments = false`)
        // NEST is only ever a TARGET (no rule is conditioned on it): it must exist in both pipelines
        let mut s = String::from("%s TAG\n%s NEST\n%%\n");
        s.push_str("\\[ <+NEST>;\n\\] <-NEST>;\n");
        let line = |t: usize, text: &str| if t < ntoks { text.replace("@", &format!("\"t{}\"", t)) } else { text.replace("@", ";") };
        s.push_str(&line(2, "\\< <TAG>@\n"));
        s.push_str(&line(3, "\\> <INITIAL>@\n"));
        s.push_str(&line(0, "<TAG>[a-z]+ @\n"));
        s.push_str(&line(1, "[a-z]+ @\n"));
        s.push_str(&line(4, "[0-9]+ @\n"));
        s.push_str("[ \\t\\n]+ ;\n");
        return s;
    }
    let tab = lex_table(variant);
    // a named rule whose token the grammar does not know (a reserved word ahead of the other rules):
    // both pipelines must stop with a lexing error where it matches
    if comments || variant == 1 {
        s.push_str("zz \"RESERVED\"\n");
    }
    for t in 0..ntoks {
        s.push_str(&format!("{} \"t{}\"\n", tab[t].0, t));
    }
    if comments {
        // `!` inside a comment: a rule active in COMMENT only that names COMMENT as its (plain) target — not a
        // no-op: a plain target replaces the whole stack of start states, so nested comments end at once
        s.push_str("<COMMENT,INITIAL>/\\* <+COMMENT>;\n<COMMENT>\\*/ <-COMMENT>;\n<COMMENT>! <COMMENT>;\n<COMMENT>[^*/!]+ ;\n<COMMENT>[*/] ;\n");
    }
    if variant == 5 {
        s.push_str("%.* ;\n");
    }
    // (with `ignore_whitespace` a literal space in a regex is ignored: written as an escape there)
    s.push_str(if variant == 8 { "[\\x20\\t\\n]+ ;\n" } else { "[ \\t\\n]+ ;\n" });
    s
}

/// production id used as the node label of generated actions: rule * 100 + alternative
fn prod_label(r: usize, alt: usize) -> usize {
    r * 100 + alt
}

fn tag_text(rng: &mut Rng) -> String {
    rng.pick(&["p", "a$$b", "$$", "x $$ y", "\u{e9}$$\u{e9}", "$$$$"]).to_string()
}

/// the `.y` text of a pair for its yacc kind; `tags[r][alt]` are the `$$`-carrying tag strings
fn render_yacc(g: &AGrammar, yk: &str, param: bool, tags: &[Vec<String>], rng: &mut Rng) -> String {
    let actions = yk == "grmtools" || yk == "useraction";
    let param = param && actions;
    let mut s = String::from("%start R0\n");
    if param {
        s.push_str("%parse-param base: usize\n");
    }
    if yk == "useraction" {
        s.push_str("%actiontype T\n");
    }
    for t in 0..g.ntoks {
        if t % 2 == 0 {
            s.push_str(&format!("%epp t{} \"tok {}\"\n", t, t));
        }
    }
    let mut used = vec![false; g.ntoks];
    for r in &g.rules {
        for p in r {
            for x in &p.syms {
                if let S::T(t) = x {
                    used[*t] = true;
                }
            }
        }
    }
    for (t, u) in used.iter().enumerate() {
        if !*u {
            s.push_str(&format!("%token 't{}'\n", t));
        }
    }
    if !g.avoid_insert.is_empty() {
        let ts: Vec<String> = g.avoid_insert.iter().map(|t| format!("'t{}'", t)).collect();
        s.push_str(&format!("%avoid_insert {}\n", ts.join(" ")));
    }
    s.push_str("%%\n");
    // a rule may be defined in several places: a third of the rules with two or more alternatives keep
    // only their first alternative where they stand, the others follow after all other rules (production
    // numbers are then not grouped by rule, and generated tables indexed by production must cope)
    let mut parts: Vec<(usize, usize, usize)> = Vec::new(); // (rule, first alternative, one past the last)
    let mut deferred: Vec<(usize, usize, usize)> = Vec::new();
    for (i, r) in g.rules.iter().enumerate() {
        if r.len() >= 2 && rng.chance(1, 3) {
            parts.push((i, 0, 1));
            deferred.push((i, 1, r.len()));
        } else {
            parts.push((i, 0, r.len()));
        }
    }
    parts.extend(deferred);
    for (i, from, to) in parts {
        let r = &g.rules[i];
        if yk == "grmtools" {
            s.push_str(&format!("R{} -> T:\n", i));
        } else {
            s.push_str(&format!("R{}:\n", i));
        }
        for j in from..to {
            let p = &r[j];
            s.push_str(if j == from { "    " } else { "  | " });
            for x in &p.syms {
                match x {
                    S::T(t) => s.push_str(&format!("'t{}' ", t)),
                    S::R(r) => s.push_str(&format!("R{} ", r)),
                }
            }
            if actions {
                let kids: Vec<String> = p
                    .syms
                    .iter()
                    .enumerate()
                    .map(|(k, x)| match x {
                        S::T(_) => format!("lf($lexer, ${})", k + 1),
                        S::R(_) => format!("${}", k + 1),
                    })
                    .collect();
                let (a, b) = *rng.pick(&[("{ ", " }"), ("{", "}"), ("{\n        ", "\n      }")]);
                s.push_str(&format!("{}nd({}{}, $span, \"{}\", vec![{}]){}", a, if param { "base + " } else { "" }, prod_label(i, j), tags[i][j], kids.join(", "), b));
            }
            s.push('\n');
        }
        s.push_str("  ;\n");
    }
    if actions {
        s.push_str("%%\n#[allow(unused_imports)]\nuse crate::common::*;\n");
    }
    s
}

/// random sentence of the grammar as token indices (bounded derivation), if one is found
fn sentence(g: &AGrammar, rng: &mut Rng) -> Option<Vec<usize>> {
    fn go(g: &AGrammar, rng: &mut Rng, r: usize, depth: usize, out: &mut Vec<usize>) -> bool {
        if depth > 7 || out.len() > 14 {
            return false;
        }
        let prods = &g.rules[r];
        // deeper levels prefer shorter productions
        let mut order: Vec<usize> = (0..prods.len()).collect();
        for i in (1..order.len()).rev() {
            order.swap(i, rng.below(i + 1));
        }
        if depth > 3 {
            order.sort_by_key(|k| prods[*k].syms.iter().filter(|s| matches!(s, S::R(_))).count());
        }
        let p = &prods[order[0]];
        for x in &p.syms {
            match x {
                S::T(t) => out.push(*t),
                S::R(q) => {
                    if !go(g, rng, *q, depth + 1, out) {
                        return false;
                    }
                }
            }
        }
        true
    }
    for _ in 0..30 {
        let mut v = Vec::new();
        if go(g, rng, 0, 0, &mut v) {
            return Some(v);
        }
    }
    None
}

fn render_input(toks: &[usize], variant: usize, comments: bool, rng: &mut Rng) -> String {
    let tab = lex_table(variant);
    let mut s = String::new();
    for (i, t) in toks.iter().enumerate() {
        if i > 0 || rng.chance(1, 6) {
            s.push_str(*rng.pick(&[" ", " ", "  ", "\n", "\t"]));
        }
        if (comments || variant == 1) && rng.chance(1, 12) {
            s.push_str("zz ");
        }
        if variant == 6 && rng.chance(1, 3) {
            // enter / leave the TAG state (also when `<` and `>` are not tokens of the grammar)
            s.push_str(*rng.pick(&["< ", "< ", "> ", "[ ", "[ < ", "] "]));
        }
        if variant == 5 && rng.chance(1, 5) {
            // a to-end-of-line comment (or, should `.` match a newline, a to-end-of-input one)
            s.push_str("% a b\n");
        }
        if comments && rng.chance(1, 8) {
            // plain, nested (the opening rule is reached while COMMENT is active) and doubly nested
            s.push_str(*rng.pick(&["/* c * / */ ", "/* c * / */ ", "/* x /* y */ z */ ", "/* /* /* */ */ w */ ", "/* x /* y ! */ ", "/* /* ! /* q */ */ "]));
        }
        s.push_str(*rng.pick(&tab[*t].1));
    }
    if rng.chance(1, 5) {
        s.push('\n');
    }
    s
}

/// the run-time pipeline must finish on every input of the pair: run it in a child process that can be
/// killed (random grammars include cyclic and hidden-left-recursive ones on which the LR driver or the
/// recoverer does not terminate; those are C07's subject, here they are discarded and counted)
fn screen_ok(seed: u64, idx: usize, attempt: u64, thorough: bool, out_dir: &Path) -> bool {
    let exe = match std::env::current_exe() {
        Ok(e) => e,
        Err(_) => return true,
    };
    let mut child = match std::process::Command::new("sh")
        .arg("-c")
        .arg("ulimit -v 3000000; exec \"$0\" \"$@\"")
        .arg(&exe)
        .args(["C13", "--seed", &seed.to_string(), "--tier", if thorough { "thorough" } else { "quick" }, "--out"])
        .arg(out_dir)
        .args(["--screen", &idx.to_string(), &attempt.to_string()])
        .stdout(std::process::Stdio::null())
        .stderr(std::process::Stdio::null())
        .spawn()
    {
        Ok(c) => c,
        Err(_) => return true,
    };
    let t0 = Instant::now();
    loop {
        match child.try_wait() {
            Ok(Some(st)) => return st.code() == Some(0),
            Ok(None) => {
                if t0.elapsed().as_millis() > 4000 {
                    let _ = child.kill();
                    let _ = child.wait();
                    return false;
                }
                std::thread::sleep(std::time::Duration::from_millis(5));
            }
            Err(_) => return false,
        }
    }
}

/// child side of `screen_ok`
fn screen_child(seed: u64, idx: usize, attempt: u64, thorough: bool) -> ! {
    let ok = match candidate(seed, idx, attempt, thorough) {
        Some(p) => matches!(guarded(std::panic::AssertUnwindSafe(|| rt_blocks(&p))), Ok(Ok(_))),
        None => false,
    };
    std::process::exit(if ok { 0 } else { 1 })
}

fn gen_pair(seed: u64, idx: usize, thorough: bool, out_dir: &Path, discarded: &mut u64) -> Pair {
    let mut attempt = 0u64;
    loop {
        attempt += 1;
        if let Some(p) = candidate(seed, idx, attempt - 1, thorough) {
            if screen_ok(seed, idx, attempt - 1, thorough, out_dir) {
                return p;
            }
            *discarded += 1;
        }
    }
}

fn candidate(seed: u64, idx: usize, attempt: u64, thorough: bool) -> Option<Pair> {
    {
        let mut rng = Rng::for_case(seed, 13, 1_000_000 + (idx as u64) * 1000 + attempt);
        let st = settings_for(&mut rng, idx);
        let cfg = GenCfg { max_rules: 4, max_toks: 5, max_prods: 3, max_len: 4, precs: false };
        let mut g = grammar::random_grammar(&mut rng, &cfg);
        // every 8th pair is the expression grammar `E: E t0 T | T; T: T t1 F | F; F: t2 E t3 | t4` with
        // %avoid_insert t1 t4 (an operator and the operand): errors with several equally cheap repairs, some of which insert
        // the avoided token, are what %avoid_insert exists for
        // (pair 4 of every eight runs the same grammar with user actions and recovery on: the only repair of
        // `( )` inserts an avoided token, which must reach the action as `Err`)
        let fixed = idx % 8 == 5 || idx % 8 == 4;
        if fixed {
            use grammar::AProd;
            let p = |syms: Vec<S>| AProd { syms, prec: None };
            g = AGrammar {
                nrules: 3,
                ntoks: 5,
                rules: vec![
                    vec![p(vec![S::R(0), S::T(0), S::R(1)]), p(vec![S::R(1)])],
                    vec![p(vec![S::R(1), S::T(1), S::R(2)]), p(vec![S::R(2)])],
                    vec![p(vec![S::T(2), S::R(0), S::T(3)]), p(vec![S::T(4)])],
                ],
                precs: vec![],
                expect: None,
                expectrr: None,
                avoid_insert: vec![1, 4],
            };
        }
        if !fixed && rng.chance(2, 3) {
            // %avoid_insert: it lives in the grammar object only, so the generated parser sees it solely
            // through the bytes it embeds; it changes which repair is applied when repairs tie
            g.avoid_insert = vec![rng.below(g.ntoks)];
            if g.ntoks > 2 && rng.chance(1, 2) {
                let t = rng.below(g.ntoks);
                if !g.avoid_insert.contains(&t) {
                    g.avoid_insert.push(t);
                }
            }
        }
        let tags: Vec<Vec<String>> = g.rules.iter().map(|r| r.iter().map(|_| tag_text(&mut rng)).collect()).collect();
        let y = render_yacc(&g, st.yk, st.param, &tags, &mut rng);
        let variant = if idx < 9 { [0, 4, 5, 3, 1, 2, 6, 7, 8][idx] } else { rng.below(9) };
        let comments = rng.chance(1, 3) && variant != 6;
        let l = render_lexer(variant, g.ntoks, comments);
        // both pipelines must accept the pair, and the grammar should have sentences
        let yk = yk_of(st.yk);
        let grm = match YaccGrammar::<u32>::new(yk, &y) {
            Ok(g) => g,
            Err(_) => return None,
        };
        if from_yacc(&grm, Minimiser::Pager).is_err() {
            return None;
        }
        if LRNonStreamingLexerDef::<LT>::from_str(&l).is_err() {
            return None;
        }
        let sample = sentence(&g, &mut rng);
        if sample.is_none() && attempt < 40 {
            return None;
        }
        let ninputs = if thorough { 24 } else { 14 };
        let mut inputs: Vec<String> = vec![String::new()];
        if fixed {
            // an operand missing at every kind of position (next to each operator and bracket, at both ends)
            let mut ws: Vec<Vec<usize>> = vec![vec![4, 0, 1, 4], vec![2, 0, 4, 3], vec![4, 0, 0, 4], vec![4, 1, 0, 4], vec![2, 4, 0, 3], vec![4, 4], vec![2, 3]];
            for a in [0usize, 1] {
                for b in [0usize, 1] {
                    ws.push(vec![4, a, b, 4]);
                    ws.push(vec![a, 4, b, 4]);
                    ws.push(vec![4, a, 4, b]);
                    ws.push(vec![2, 4, a, 3, b, 4]);
                    ws.push(vec![2, a, 4, 3, b]);
                }
            }
            ws.sort();
            ws.dedup();
            for toks in ws {
                inputs.push(render_input(&toks, variant, comments, &mut rng));
            }
        }
        while inputs.len() < ninputs {
            let mut toks = match sentence(&g, &mut rng) {
                Some(t) => t,
                None => (0..rng.range(0, 6)).map(|_| rng.below(g.ntoks)).collect(),
            };
            let k = inputs.len() % 4;
            // 0: a sentence; 1: a sentence with one token deleted; 2: 1–2 token edits; 3: random tokens or a lexing error
            if k == 1 && !toks.is_empty() {
                // one token missing: recovery has to insert it, so actions see `Err` lexemes
                // preferably an %avoid_insert token, so that re-inserting it competes with other repairs
                let av: Vec<usize> = (0..toks.len()).filter(|i| g.avoid_insert.contains(&toks[*i])).collect();
                let i = if !av.is_empty() && rng.chance(2, 3) { av[rng.below(av.len())] } else { rng.below(toks.len()) };
                toks.remove(i);
            } else if k == 1 || k == 2 {
                for _ in 0..rng.range(1, 2) {
                    match rng.below(3) {
                        0 if !toks.is_empty() => {
                            let i = rng.below(toks.len());
                            toks.remove(i);
                        }
                        1 => {
                            let i = rng.below(toks.len() + 1);
                            toks.insert(i, rng.below(g.ntoks));
                        }
                        _ if !toks.is_empty() => {
                            let i = rng.below(toks.len());
                            toks[i] = rng.below(g.ntoks);
                        }
                        _ => toks.push(rng.below(g.ntoks)),
                    }
                }
            } else if k == 3 {
                toks = (0..rng.range(1, 7)).map(|_| rng.below(g.ntoks)).collect();
            }
            let mut s = render_input(&toks, variant, comments, &mut rng);
            if k == 3 && rng.chance(1, 3) {
                let at = rng.below(s.len() + 1);
                if s.is_char_boundary(at) {
                    s.insert(at, '#');
                }
            }
            inputs.push(s);
        }
        return Some(Pair { idx, st, y, l, lexvariant: variant + if comments { 10 } else { 0 }, tags, inputs });
    }
}

fn yk_of(s: &str) -> YaccKind {
    match s {
        "grmtools" => YaccKind::Grmtools,
        "useraction" => YaccKind::Original(YaccOriginalActionKind::UserAction),
        "generic" => YaccKind::Original(YaccOriginalActionKind::GenericParseTree),
        _ => YaccKind::Original(YaccOriginalActionKind::NoAction),
    }
}

fn header(pair: usize, input: usize) -> String {
    format!("== pair {} input {}", pair, input)
}

/// what the run-time pipeline answers for every input of the pair, as blocks of lines
fn rt_blocks(p: &Pair) -> Result<Vec<Vec<String>>, String> {
    let yk = yk_of(p.st.yk);
    let grm = YaccGrammar::<u32>::new(yk, &p.y).map_err(|e| format!("run-time grammar: {:?}", e.iter().map(|x| x.to_string()).collect::<Vec<_>>()))?;
    let (_, stable) = from_yacc(&grm, Minimiser::Pager).map_err(|e| format!("run-time table: {}", e))?;
    let mut ld = LRNonStreamingLexerDef::<LT>::from_str(&p.l).map_err(|e| format!("run-time lexer: {:?}", e.iter().map(|x| x.to_string()).collect::<Vec<_>>()))?;
    let ids: std::collections::HashMap<&str, u32> = grm.tokens_map().iter().map(|(k, v)| (*k, usize::from(*v) as u32)).collect();
    ld.set_rule_ids(&ids);
    let rk = match p.st.rec {
        "none" => RecoveryKind::None,
        _ => RecoveryKind::CPCTPlus,
    };
    // run-time actions with the meaning the property gives the generated ones: node label, `$span`,
    // `$k` in order with Ok/Err for tokens, tag with `$$` read as `$`
    let mut labels: Vec<(usize, String)> = Vec::new();
    for pidx in grm.iter_pidxs() {
        let ridx = grm.prod_to_rule(pidx);
        let name = grm.rule_name_str(ridx);
        if let Some(r) = name.strip_prefix('R').and_then(|x| x.parse::<usize>().ok()) {
            let alt = grm.rule_to_prods(ridx).iter().position(|q| *q == pidx).unwrap();
            labels.push((prod_label(r, alt), p.tags[r][alt].replace("$$", "$")));
        } else {
            labels.push((usize::MAX, String::new()));
        }
    }
    let mut blocks = Vec::new();
    for (j, inp) in p.inputs.iter().enumerate() {
        let base_lexer = ld.lexer(inp);
        let mut lexers = vec![(j, base_lexer)];
        if j % 2 == 0 {
            if let Some(z) = zero_width_variant(&lexers[0].1, inp) {
                lexers.push((j + 1000, z));
            }
        }
        for (jj, lexer) in lexers.iter() {
        let mut b = vec![header(p.idx, *jj)];
        b.push(lex_line(lexer, &|t| grm.token_epp(t).map(|s| s.to_string())));
        let pb = RTParserBuilder::new(&grm, &stable).recoverer(rk);
        let t0 = Instant::now();
        match p.st.yk {
            "grmtools" | "useraction" => {
                type Act<'a> = Box<dyn Fn(RIdx<u32>, &dyn NonStreamingLexer<LT>, Span, std::vec::Drain<AStackType<Lx, T>>, usize) -> T + 'a>;
                let boxed: Vec<Act> = labels
                    .iter()
                    .map(|(lab, tag)| {
                        let lab = *lab;
                        let tag = tag.clone();
                        let f: Act = Box::new(move |_ridx, lexer, span, args, base| {
                            let kids: Vec<T> = args
                                .map(|a| match a {
                                    AStackType::ActionType(t) => t,
                                    AStackType::Lexeme(l) => lf(lexer, if l.faulty() { Err(l) } else { Ok(l) }),
                                })
                                .collect();
                            nd(base + lab, span, &tag, kids)
                        });
                        f
                    })
                    .collect();
                let refs: Vec<&dyn Fn(RIdx<u32>, &dyn NonStreamingLexer<LT>, Span, std::vec::Drain<AStackType<Lx, T>>, usize) -> T> = boxed.iter().map(|b| &**b).collect();
                let (v, errs) = pb.parse_actions(lexer, &refs, if p.st.param { 1000usize } else { 0 });
                b.push(value_line_t(&v));
                b.extend(err_lines(&errs));
                // the twin entry point run-time users call: what is an error, where, and whether there is a
                // value do not depend on whether actions are run or a tree is mapped
                let (v2, errs2) = pb.parse_map(lexer, &|_| (), &|_, _| ());
                if err_lines(&errs2) != err_lines(&errs) || v2.is_some() != v.is_some() {
                    b.push(format!(
                        "ENTRY-POINTS-DIFFER parse_actions: value {} errors {:?}; parse_map: value {} errors {:?}",
                        v.is_some(),
                        err_lines(&errs),
                        v2.is_some(),
                        err_lines(&errs2)
                    ));
                }
            }
            "generic" => {
                #[allow(deprecated)]
                let (v, errs) = pb.parse_map(lexer, &|lexeme| Node::Term { lexeme }, &|ridx, nodes| Node::Nonterm { ridx, nodes });
                b.push(value_line_node(&v));
                b.extend(err_lines(&errs));
            }
            _ => {
                let errs = pb.parse_map(lexer, &|_| (), &|_, _| ()).1;
                b.extend(err_lines(&errs));
            }
        }
        if t0.elapsed().as_millis() > 200 {
            b.push("SLOW".to_string());
        }
        blocks.push(b);
        }
    }
    Ok(blocks)
}

/// `src/pairs.rs` of the instantiated crate
fn pairs_rs(pairs: &[Pair]) -> String {
    let mut s = String::from("// generated by vharness C13\n");
    for p in pairs {
        let i = p.idx;
        s.push_str(&format!("#[allow(dead_code, unused_imports, deprecated)]\npub mod pair{} {{\n", i));
        s.push_str(&format!("    include!(concat!(env!(\"OUT_DIR\"), \"/p{}.l.rs\"));\n", i));
        s.push_str(&format!("    include!(concat!(env!(\"OUT_DIR\"), \"/p{}.y.rs\"));\n", i));
        s.push_str("    use crate::common::*;\n    pub fn run() {\n");
        s.push_str("        let inputs: &[&str] = &[\n");
        for inp in &p.inputs {
            s.push_str(&format!("            {:?},\n", inp));
        }
        s.push_str("        ];\n");
        s.push_str(&format!("        let ld = p{}_l::lexerdef();\n", i));
        s.push_str("        for (j, inp) in inputs.iter().enumerate() {\n");
        s.push_str("            let base_lexer = ld.lexer(inp);\n");
        s.push_str("            let mut lexers = vec![(j, base_lexer)];\n");
        s.push_str("            if j % 2 == 0 { if let Some(z) = zero_width_variant(&lexers[0].1, inp) { lexers.push((j + 1000, z)); } }\n");
        s.push_str("            for (jj, lexer) in lexers.iter() {\n");
        s.push_str(&format!("            println!(\"== pair {} input {{}}\", jj);\n", i));
        s.push_str(&format!("            println!(\"{{}}\", lex_line(lexer, &|t| p{}_y::token_epp(t).map(|s| s.to_string())));\n", i));
        s.push_str("            let t0 = std::time::Instant::now();\n");
        match p.st.yk {
            "grmtools" | "useraction" => {
                s.push_str(&format!("            let (v, errs): (Option<T>, _) = p{}_y::parse(lexer{});\n", i, if p.st.param { ", 1000" } else { "" }));
                s.push_str("            println!(\"{}\", value_line_t(&v));\n");
            }
            "generic" => {
                s.push_str(&format!("            let (v, errs) = p{}_y::parse(lexer);\n", i));
                s.push_str("            println!(\"{}\", value_line_node(&v));\n");
            }
            _ => {
                s.push_str(&format!("            let errs = p{}_y::parse(lexer);\n", i));
            }
        }
        s.push_str("            for l in err_lines(&errs) { println!(\"{}\", l); }\n");
        s.push_str("            if t0.elapsed().as_millis() > 200 { println!(\"SLOW\"); }\n");
        s.push_str("            }\n");
        s.push_str("        }\n    }\n}\n");
    }
    s.push_str("pub fn run_all() {\n");
    for p in pairs {
        s.push_str(&format!("    pair{}::run();\n", p.idx));
    }
    s.push_str("}\n");
    s
}

fn manifest_line(p: &Pair) -> String {
    format!("{} {} {} {} {} {} {} {}", p.idx, p.st.yk, p.st.rec, p.st.ser, p.st.ed, p.st.vis, p.st.led, p.st.lvis)
}

/// instantiate the template, build it once, run it; Ok(stdout) or Err(why)
fn build_and_run(out_dir: &Path, pairs: &[Pair], out: &mut Out) -> Result<String, String> {
    let out_abs = std::fs::canonicalize(out_dir).map_err(|e| e.to_string())?;
    let mut n = 0;
    while out_abs.join(format!("ctgen-{}", n)).exists() {
        n += 1;
    }
    let dir = out_abs.join(format!("ctgen-{}", n));
    let repo = repo_path();
    std::fs::create_dir_all(dir.join("src")).map_err(|e| e.to_string())?;
    std::fs::create_dir_all(dir.join("specs")).map_err(|e| e.to_string())?;
    std::fs::write(dir.join("Cargo.toml"), TPL_CARGO.replace("@REPO@", &repo)).map_err(|e| e.to_string())?;
    std::fs::write(dir.join("build.rs"), TPL_BUILD).map_err(|e| e.to_string())?;
    std::fs::write(dir.join("src/main.rs"), TPL_MAIN).map_err(|e| e.to_string())?;
    std::fs::write(dir.join("src/common.rs"), TPL_COMMON).map_err(|e| e.to_string())?;
    std::fs::write(dir.join("src/pairs.rs"), pairs_rs(pairs)).map_err(|e| e.to_string())?;
    let mut man = String::new();
    for p in pairs {
        man.push_str(&manifest_line(p));
        man.push('\n');
        std::fs::write(dir.join(format!("specs/p{}.y", p.idx)), &p.y).map_err(|e| e.to_string())?;
        std::fs::write(dir.join(format!("specs/p{}.l", p.idx)), &p.l).map_err(|e| e.to_string())?;
    }
    std::fs::write(dir.join("specs/manifest.txt"), man).map_err(|e| e.to_string())?;
    let _ = std::fs::copy(Path::new(&repo).join("Cargo.lock"), dir.join("Cargo.lock"));
    let target = out_abs.join("ctgen-target");
    let t0 = Instant::now();
    let mut cmd = std::process::Command::new("cargo");
    cmd.args(["build", "--release", "--offline"]).current_dir(&dir).env("CARGO_NET_OFFLINE", "true").env("CARGO_TARGET_DIR", &target);
    // the cfg of the harness build (hooks) is irrelevant to the generated program
    cmd.env_remove("RUSTFLAGS");
    let o = cmd.output().map_err(|e| format!("cargo not runnable: {}", e))?;
    out.add("tv.cargo_build_seconds", t0.elapsed().as_secs());
    let keep = std::env::var("VERIF_KEEP").is_ok();
    if !o.status.success() {
        let err = String::from_utf8_lossy(&o.stderr).to_string();
        if !keep {
            let _ = std::fs::remove_dir_all(&target);
        }
        let tail: Vec<&str> = err.lines().filter(|l| l.starts_with("error") || l.contains("pair ") || l.contains("-->")).take(8).collect();
        return Err(format!("cargo build of the generated programs failed: {}", tail.join(" / ")));
    }
    let bin = target.join("release/ctgen");
    let out_file = dir.join("ct-output.txt");
    let err_file = dir.join("ct-stderr.txt");
    let mut child = std::process::Command::new(&bin)
        .stdout(std::fs::File::create(&out_file).map_err(|e| e.to_string())?)
        .stderr(std::fs::File::create(&err_file).map_err(|e| e.to_string())?)
        .spawn()
        .map_err(|e| format!("generated program not runnable: {}", e))?;
    let t1 = Instant::now();
    let limit = 20 + 6 * pairs.len() as u64;
    let status = loop {
        match child.try_wait() {
            Ok(Some(st)) => break Some(st),
            Ok(None) if t1.elapsed().as_secs() > limit => {
                let _ = child.kill();
                let _ = child.wait();
                break None;
            }
            Ok(None) => std::thread::sleep(std::time::Duration::from_millis(20)),
            Err(e) => return Err(format!("generated program: {}", e)),
        }
    };
    let stdout = std::fs::read_to_string(&out_file).unwrap_or_default();
    let stderr = std::fs::read_to_string(&err_file).unwrap_or_default();
    // keep the generated sources for replays; drop the build output
    for p in pairs {
        for ext in ["y", "l"] {
            if let Some(f) = find_generated(&target, &format!("p{}.{}.rs", p.idx, ext)) {
                let _ = std::fs::copy(&f, dir.join(format!("specs/p{}.{}.rs", p.idx, ext)));
            }
        }
    }
    if !keep {
        let _ = std::fs::remove_dir_all(&target);
    }
    match status {
        // the inputs it did answer are still compared; the one it hung on has no output
        None => out.count("tv.generated_program_killed_after_timeout"),
        Some(st) if !st.success() => {
            return Err(format!("generated program died ({}) after {} lines: {}", st, stdout.lines().count(), stderr.lines().last().unwrap_or("")));
        }
        _ => {}
    }
    Ok(stdout)
}

fn find_generated(target: &Path, name: &str) -> Option<PathBuf> {
    let b = target.join("release/build");
    for e in std::fs::read_dir(b).ok()? {
        let p = e.ok()?.path().join("out").join(name);
        if p.exists() {
            return Some(p);
        }
    }
    None
}

fn split_blocks(txt: &str) -> BTreeMap<(usize, usize), Vec<String>> {
    let mut m: BTreeMap<(usize, usize), Vec<String>> = BTreeMap::new();
    let mut cur: Option<(usize, usize)> = None;
    for line in txt.lines() {
        if let Some(rest) = line.strip_prefix("== pair ") {
            let f: Vec<&str> = rest.split_whitespace().collect();
            if f.len() == 3 {
                if let (Ok(a), Ok(b)) = (f[0].parse(), f[2].parse()) {
                    cur = Some((a, b));
                    m.insert((a, b), vec![line.to_string()]);
                    continue;
                }
            }
        }
        if let Some(k) = cur {
            m.get_mut(&k).unwrap().push(line.to_string());
        }
    }
    m
}

/// the lines of a block that the sources determine: everything if no parse error has more than one
/// repair sequence; otherwise header, lexemes and the errors up to and including the first such error
/// (its position and its repair SET are determined; which sequence is applied, hence the value and
/// everything after, is not). Second component: was anything cut.
#[allow(dead_code)]
fn determined_part(block: &[String]) -> (Vec<String>, bool) {
    let mut v = Vec::new();
    let mut val = None;
    for l in block {
        if l.starts_with("val ") {
            val = Some(v.len());
            v.push(l.clone());
        } else if l.starts_with("err parse") && l.contains(" | ") {
            v.push(l.clone());
            if let Some(k) = val {
                v.remove(k);
            }
            return (v, true);
        } else {
            v.push(l.clone());
        }
    }
    (v, false)
}

fn run_tv(a: &Args, out: &mut Out, which: &[usize]) {
    let mut discarded = 0u64;
    let pairs: Vec<Pair> = which.iter().map(|i| gen_pair(a.seed, *i, a.thorough, &a.out, &mut discarded)).collect();
    out.add("tv.candidate_pairs_discarded(run-time pipeline does not finish within 4 s)", discarded);
    out.add("programs", pairs.len() as u64);
    let ct = build_and_run(&a.out, &pairs, out);
    let ct_blocks = match &ct {
        Ok(txt) => split_blocks(txt),
        Err(_) => BTreeMap::new(),
    };
    for p in &pairs {
        out.count(&format!("tv.yacckind.{}", p.st.yk));
        out.count(&format!("tv.recoverer.{}", p.st.rec));
        out.count(&format!("tv.serialisation.{}", p.st.ser));
        out.count(&format!("tv.edition.{}", p.st.ed));
        out.count(&format!("tv.visibility.{}", p.st.vis.split(':').next().unwrap()));
        out.count(&format!("tv.lexer_edition.{}", p.st.led));
        out.count(&format!("tv.lexer_visibility.{}", p.st.lvis.split(':').next().unwrap()));
        out.count(&format!("tv.lexer_variant.{}", p.lexvariant));
        if p.st.param && (p.st.yk == "grmtools" || p.st.yk == "useraction") {
            out.count("tv.parse_param");
        }
        let rt = guarded(std::panic::AssertUnwindSafe(|| rt_blocks(p)));
        let desc = format!("settings [{}] grammar {:?} lexer {:?}", manifest_line(p), p.y, p.l);
        out.sample(format!("pair {}: {}", p.idx, manifest_line(p)));
        for (j, inp) in p.inputs.iter().enumerate() {
            let id = out.id();
            out.case("C13", id, &format!("2 {} {} {} {}", a.seed, if a.thorough { 1 } else { 0 }, p.idx, j));
            out.imp(id, "D", &format!("tv pair {} input {} {:?} {}", p.idx, j, inp, desc));
            let verdict = match (&ct, &rt) {
                (Err(e), _) => format!("fail {}", e),
                (_, Err(pn)) => format!("fail run-time pipeline panicked: {}", pn),
                (_, Ok(Err(e))) => format!("fail {}", e),
                (Ok(_), Ok(Ok(blocks))) => {
                    // blocks by input number (1000 + j = the same text behind the hand-written lexer with
                    // zero-length real lexemes)
                    let rtm: BTreeMap<usize, &Vec<String>> = blocks
                        .iter()
                        .filter_map(|b| b.first().and_then(|h| h.rsplit(' ').next()).and_then(|n| n.parse::<usize>().ok()).map(|n| (n, b)))
                        .collect();
                    let mut verdict = "ok".to_string();
                    for jj in [j, j + 1000] {
                        let want = match rtm.get(&jj) {
                            Some(w) => *w,
                            None => continue,
                        };
                        if jj >= 1000 {
                            out.count("tv.zero_width_lexeme_variants");
                        }
                        let what = if jj >= 1000 { " (hand-written lexer with zero-length real lexemes)" } else { "" };
                        let v = match ct_blocks.get(&(p.idx, jj)) {
                            None => format!("fail no output of the generated program for this input{}", what),
                            Some(got) => {
                                if want.iter().any(|l| l == "SLOW") || got.iter().any(|l| l == "SLOW") {
                                    out.count("tv.inconclusive_slow_parse");
                                    "ok inconclusive (a parse took > 200 ms: the recovery time budget may differ)".to_string()
                                } else if want == got {
                                    "ok".to_string()
                                } else {
                                    let k = want.iter().zip(got.iter()).position(|(x, y)| x != y).unwrap_or(want.len().min(got.len()));
                                    format!(
                                        "fail compile-time and run-time differ{} at line {}: compile-time {:?} run-time {:?}",
                                        what,
                                        k,
                                        got.get(k).map(|s| s.as_str()).unwrap_or("<missing>"),
                                        want.get(k).map(|s| s.as_str()).unwrap_or("<missing>")
                                    )
                                }
                            }
                        };
                        if v.starts_with("fail") || (verdict == "ok" && v != "ok") {
                            verdict = v;
                        }
                        if verdict.starts_with("fail") {
                            break;
                        }
                    }
                    verdict
                }
            };
            out.imp(id, "H", &verdict);
            if let Ok(Ok(blocks)) = &rt {
                let b = match blocks.iter().find(|b| b.first().map(|h| h == &header(p.idx, j)).unwrap_or(false)) {
                    Some(b) => b,
                    None => continue,
                };
                if b.iter().any(|l| l.starts_with("err parse")) {
                    out.count("tv.input.parse_error");
                    if b.iter().any(|l| l.contains("set [") && !l.contains("set []")) {
                        out.count("tv.input.with_repairs");
                    }
                    if b.iter().any(|l| l.contains("Err(")) {
                        out.count("tv.input.action_saw_Err_lexeme");
                    }
                } else if b.iter().any(|l| l.starts_with("err lex")) {
                    out.count("tv.input.lex_error");
                } else {
                    out.count("tv.input.valid");
                }
                if b.iter().any(|l| l.starts_with("val ") && l != "val none") {
                    out.count("tv.input.has_value");
                }
            }
        }
    }
}

pub fn run(a: &Args) {
    if let Some(k) = a.extra.iter().position(|x| x == "--screen") {
        let idx: usize = a.extra.get(k + 1).and_then(|x| x.parse().ok()).unwrap_or(0);
        let attempt: u64 = a.extra.get(k + 2).and_then(|x| x.parse().ok()).unwrap_or(0);
        screen_child(a.seed, idx, attempt, a.thorough);
    }
    if let Some(k) = a.extra.iter().position(|x| x == "--dump-rt") {
        // debugging aid: print what the run-time pipeline answers for one pair
        let idx: usize = a.extra.get(k + 1).and_then(|x| x.parse().ok()).unwrap_or(0);
        let mut d = 0;
        let p = gen_pair(a.seed, idx, a.thorough, &a.out, &mut d);
        if let Ok(bs) = rt_blocks(&p) {
            for b in bs {
                for l in b {
                    println!("{}", l);
                }
            }
        }
        return;
    }
    let mut out = Out::new(&a.out);
    let ddir = a.out.join("dollar");
    if let Some(rp) = &a.replay {
        let txt = std::fs::read_to_string(rp).unwrap_or_default();
        let mut tv: BTreeSet<usize> = BTreeSet::new();
        let mut args2 = Args { seed: a.seed, thorough: a.thorough, out: a.out.clone(), replay: None, extra: vec![], shard: 0, shards: 1 };
        for line in txt.lines() {
            let mut it = line.splitn(3, ' ');
            if it.next() != Some("C13") {
                continue;
            }
            let _ = it.next();
            let payload = it.next().unwrap_or("");
            let v: Vec<u64> = payload.split_whitespace().filter_map(|t| t.parse().ok()).collect();
            match v.first() {
                Some(0) => {
                    if let Some((ws, text)) = parse_dollar_payload(payload) {
                        // error cases are recognised by running the model's view: try as a normal case
                        // first, and as an error case when the builder refuses it
                        let c = DCase { text: text.clone(), mode: if ws { 1 } else { 0 }, lead: String::new(), trail: String::new() };
                        let (y, _) = dollar_grammar(&[&c]);
                        match ct_build(&ddir, &y) {
                            Ok(_) => emit_dollar(&mut out, &ddir, &[c], "replay"),
                            Err(_) => emit_dollar(&mut out, &ddir, &[DCase { mode: 2, ..c }], "replay"),
                        }
                    }
                }
                Some(1) => {
                    let mut rng = Rng::for_case(a.seed, 13, 500_000);
                    emit_wrappers(&mut out, &ddir, &mut rng);
                }
                Some(2) if v.len() >= 5 => {
                    args2.seed = v[1];
                    args2.thorough = v[2] == 1;
                    tv.insert(v[3] as usize);
                }
                _ => {}
            }
        }
        if !tv.is_empty() {
            let which: Vec<usize> = tv.into_iter().collect();
            run_tv(&args2, &mut out, &which);
        }
        let _ = std::fs::remove_dir_all(&ddir);
        out.finish(&a.out);
        return;
    }
    // corpus of action texts: the boundary cases read off the code
    let corpus_ok = ["\"\"", "\"$$\"", "\"$1\"", "\"$0\"", "\"$12 $1x $007\"", "\"$span$lexer$$\"", "\"$$$1\"", "\"$spans $lexerx\"", "\"\u{e9}$$\u{e9}$1\u{1F600}\"", "\"$\u{663}\"", "\"$$$$$$\"", "\"a$1.0\""];
    let batch: Vec<DCase> = corpus_ok.iter().map(|t| DCase { text: t.to_string(), mode: 0, lead: String::new(), trail: String::new() }).collect();
    emit_dollar(&mut out, &ddir, &batch, "corpus");
    let batch: Vec<DCase> = ["f($1, $2)", "f($span,$lexer , \"$$\")", "f()", "f(g($1), $2.0)"].iter().map(|t| DCase { text: t.to_string(), mode: 1, lead: " ".to_string(), trail: " ".to_string() }).collect();
    emit_dollar(&mut out, &ddir, &batch, "corpus");
    let batch: Vec<DCase> = ["$", "$x", "a $", "\"$ \"", "$span $", "$$ $", "\u{e9}$", "$\u{e9}", "$1 $lexe", "$s", "x$-1"].iter().map(|t| DCase { text: t.to_string(), mode: 2, lead: String::new(), trail: String::new() }).collect();
    emit_dollar(&mut out, &ddir, &batch, "corpus");
    // generated action texts, in batches that share one builder run
    let nbatches = if a.thorough { 400 } else { 60 };
    for b in 0..nbatches {
        let mut rng = Rng::for_case(a.seed, 13, b as u64 + 1);
        let n = rng.range(4, 12);
        let batch: Vec<DCase> = (0..n).map(|_| random_dcase(&mut rng)).collect();
        emit_dollar(&mut out, &ddir, &batch, "random");
    }
    // wrappers
    let nw = if a.thorough { 150 } else { 25 };
    for w in 0..nw {
        let mut rng = Rng::for_case(a.seed, 13, 500_000 + w as u64);
        emit_wrappers(&mut out, &ddir, &mut rng);
    }
    let _ = std::fs::remove_dir_all(&ddir);
    // translation validation
    let k = if a.thorough { 40 } else { 10 };
    let which: Vec<usize> = (0..k).collect();
    run_tv(a, &mut out, &which);
    out.finish(&a.out);
}
