//! C03: every action cell, the per-state views and the conflict lists of the real `StateTable`
//! against the cell-wise model (`I` vs `M`) and Yacc's rules (`I2` vs `S2`); `%expect` handling of
//! `CTParserBuilder::build` against the specification's conflict counts (`IE` vs `SE`).
use crate::gen::automaton::{conflicts_text, dump_automaton, views_text};
use crate::gen::grammar::{self, AGrammar, GenCfg};
use crate::out::{guarded, Out};
use crate::rng::Rng;
use crate::Args;
use cfgrammar::yacc::{YaccKind, YaccOriginalActionKind};
use lrlex::DefaultLexerTypes;
use lrpar::CTParserBuilder;
use lrtable::{from_yacc, Minimiser};
use std::path::Path;

/// does a compile-time build of this grammar text fail?
fn ct_build_fails(dir: &Path, id: u64, text: &str, err_on_conflicts: bool) -> Result<bool, String> {
    let gp = dir.join(format!("g{}.y", id));
    let op = dir.join(format!("g{}.rs", id));
    std::fs::write(&gp, text).map_err(|e| e.to_string())?;
    let r = guarded(std::panic::AssertUnwindSafe(|| {
        CTParserBuilder::<DefaultLexerTypes<u32>>::new()
            .yacckind(YaccKind::Original(YaccOriginalActionKind::GenericParseTree))
            .grammar_path(&gp)
            .output_path(&op)
            .mod_name("m")
            .warnings_are_errors(false)
            .show_warnings(false)
            .error_on_conflicts(err_on_conflicts)
            .build()
            .is_err()
    }));
    let _ = std::fs::remove_file(&gp);
    let _ = std::fs::remove_file(&op);
    r
}

/// per production of the grammar: `0` no `%prec`, `t + 1` the token named by its `%prec` — read off
/// the source through cfgrammar's AST (productions of a rule keep their source order)
fn explicit_precs(g: &cfgrammar::yacc::YaccGrammar<u32>, text: &str) -> Option<Vec<usize>> {
    use cfgrammar::yacc::ast::ASTWithValidityInfo;
    let av = ASTWithValidityInfo::new(YaccKind::Original(YaccOriginalActionKind::GenericParseTree), text);
    if !av.is_valid() {
        return None;
    }
    let ast = av.ast();
    let mut v = vec![0usize; usize::from(g.prods_len())];
    for (name, rule) in ast.rules.iter() {
        let ridx = g.rule_idx(name)?;
        let gp = g.rule_to_prods(ridx);
        if gp.len() != rule.pidxs.len() {
            return None;
        }
        for (k, ap) in rule.pidxs.iter().enumerate() {
            let aprod = &ast.prods[*ap];
            if aprod.symbols.len() != g.prod(gp[k]).len() {
                return None;
            }
            if let Some(t) = &aprod.precedence {
                v[usize::from(gp[k])] = usize::from(g.token_idx(t)?) + 1;
            }
        }
    }
    Some(v)
}

pub fn emit(out: &mut Out, dir: &Path, text: &str, err_on_conflicts: bool, kind: &str, prop: &str) {
    let g = match grammar::build(text) {
        Ok(g) => g,
        Err(_) => {
            out.count("rejected_grammars");
            return;
        }
    };
    let (sg, st) = match from_yacc(&g, Minimiser::Pager) {
        Ok(x) => x,
        Err(_) => {
            // accept/reduce conflict: no table to inspect (covered by C01/C02's canonical construction)
            out.count("accept_reduce_conflict_grammars");
            return;
        }
    };
    let id = out.id();
    let enc = |o: Option<usize>| o.map(|n| n + 1).unwrap_or(0);
    let ep = match explicit_precs(&g, text) {
        Some(v) => format!("1 {}", crate::out::join(&v)),
        None => {
            out.count("explicit_precs_not_extracted");
            "0".to_string()
        }
    };
    let payload = format!(
        "{} {} {} {} {} {} {}",
        grammar::dump_grammar(&g),
        grammar::dump_precs(&g),
        dump_automaton(&g, &sg, &st),
        enc(g.expect()),
        enc(g.expectrr()),
        if err_on_conflicts { 1 } else { 0 },
        ep
    );
    out.case(prop, id, &payload);
    let (cells, sa, ss, ro, cr) = views_text(&g, &sg, &st);
    let (rr, sr, rrsum) = conflicts_text(&st);
    let rrsum_s: Vec<String> = rrsum.iter().map(|(s, t, n)| format!("{},{},{}", s, t, n)).collect();
    out.imp(id, "I", &format!("cells {} sa {} ss {} ro {} cr {} rr {} sr {}", cells, sa, ss, ro, cr, rr, sr));
    out.imp(id, "I2", &format!("cells {} sa {} ss {} ro {} rrsum {} sr {}", cells, sa, ss, ro, rrsum_s.join(" "), sr));
    if prop == "C03" {
        match ct_build_fails(dir, id, text, err_on_conflicts) {
            Ok(f) => out.imp(id, "IE", &format!("arconflict=0 fails={}", if f { 1 } else { 0 })),
            Err(e) => out.imp(id, "H", &format!("fail CTParserBuilder::build panicked: {}", e)),
        }
    }
    match grammar::api_consistent(&g) {
        Ok(()) => out.imp(id, "H", "ok"),
        Err(e) => out.imp(id, "H", &format!("fail {}", e)),
    }
    let desc = format!("grammar=[{}] error_on_conflicts={}", text.replace('\n', " ").trim(), err_on_conflicts);
    out.imp(id, "D", &desc);
    out.imp(id, "G", &format!("{} {}", if err_on_conflicts { 1 } else { 0 }, text.replace('\n', "\\n")));
    // distribution
    out.count(&format!("kind.{}", kind));
    out.count(&format!("states.{}", (usize::from(sg.all_states_len()) / 5) * 5));
    let nsr = st.conflicts().map(|c| c.sr_len()).unwrap_or(0);
    let nrr = st.conflicts().map(|c| c.rr_len()).unwrap_or(0);
    out.count(&format!("sr_conflicts.{}", nsr.min(4)));
    out.count(&format!("rr_conflicts.{}", nrr.min(4)));
    if cells.contains('e') && text.contains("%nonassoc") {
        out.count("has_nonassoc_decl");
    }
    if text.contains("%prec") {
        out.count("has_prec_override");
    }
    if text.contains("%expect") {
        out.count("has_expect");
    }
    if rrsum.iter().any(|(_, _, n)| *n >= 2) {
        out.count("cell_with_3_or_more_reductions");
    }
    if out.next_id % 53 == 1 {
        out.sample(desc);
    }
}

/// variants of `%expect`/`%expect-rr` around the true counts
pub fn with_expect(g: &AGrammar, rng: &mut Rng) -> AGrammar {
    let mut g = g.clone();
    let (sr, rr) = match grammar::build(&g.render()).ok().and_then(|y| from_yacc(&y, Minimiser::Pager).ok().map(|(_, st)| {
        (st.conflicts().map(|c| c.sr_len()).unwrap_or(0), st.conflicts().map(|c| c.rr_len()).unwrap_or(0))
    })) {
        Some(x) => x,
        None => return g,
    };
    let pick = |rng: &mut Rng, n: usize| -> Option<usize> {
        match rng.below(5) {
            0 => None,
            1 | 2 => Some(n),
            3 => Some(n + 1),
            _ => Some(if n > 0 { n - 1 } else { 0 }),
        }
    };
    g.expect = pick(rng, sr);
    g.expectrr = pick(rng, rr);
    g
}

pub fn run_prop(a: &Args, prop: &str, pnum: u64) {
    let mut out = Out::new(&a.out);
    let dir = a.out.join("ct");
    std::fs::create_dir_all(&dir).unwrap();
    if let Some(rp) = &a.replay {
        let txt = std::fs::read_to_string(rp).unwrap_or_default();
        for line in txt.lines() {
            if let Some(rest) = line.strip_prefix("# G ") {
                let (eoc, text) = rest.split_at(2);
                emit(&mut out, &dir, &text.replace("\\n", "\n"), eoc.starts_with('1'), "replay", prop);
            }
        }
        out.finish(&a.out);
        return;
    }
    if a.shard == 0 {
        for t in grammar::classics() {
            emit(&mut out, &dir, t, true, "classic", prop);
        }
        for t in [
            "%start E\n%nonassoc '<'\n%%\nE: E '<' E | 'n';",
            "%start E\n%expect 1\n%%\nE: 'n';",
            "%start E\n%expect 1\n%%\nE: E '+' E | 'n';",
            "%start E\n%expect 2\n%%\nE: E '+' E | 'n';",
            "%start E\n%expect-rr 1\n%%\nE: A | B; A: 'a'; B: 'a';",
            "%start E\n%%\nE: A | B | C; A: 'a'; B: 'a'; C: 'a';",
            "%start E\n%left '+'\n%right '^'\n%nonassoc '='\n%left U\n%token U\n%%\nE: E '+' E | E '^' E | E '=' E | '-' E %prec U | 'n';",
        ] {
            emit(&mut out, &dir, t, true, "corpus", prop);
            emit(&mut out, &dir, t, false, "corpus", prop);
        }
    }
    if prop == "C16" && a.shard == 1 % a.shards {
        let mut rng = Rng::for_case(a.seed, pnum, 0);
        for _ in 0..(if a.thorough { 12 } else { 4 }) {
            let t = grammar::pager_orphan_family(&mut rng);
            emit(&mut out, &dir, &t, true, "pager_orphan_family", prop);
        }
    }
    let n = if a.thorough { 6000 } else { 500 };
    let cfg = GenCfg { precs: true, ..GenCfg::default() };
    for case in 0..n {
        if case % a.shards != a.shard {
            continue;
        }
        let mut rng = Rng::for_case(a.seed, pnum, case as u64 + 1);
        // C16: a fifth of the grammars are bigger (more states: merges that orphan states, rows with
        // several reductions of one rule) or layered
        if prop == "C16" && case % 10 == 9 {
            let t = grammar::nullable_tail_family(&mut rng);
            emit(&mut out, &dir, &t, true, "nullable_tail", prop);
            continue;
        }
        let g0 = if prop == "C16" && case % 5 == 1 {
            let big = GenCfg { precs: rng.chance(1, 3), max_rules: 6, max_toks: 5, max_prods: 4, max_len: 4 };
            grammar::random_grammar(&mut rng, &big)
        } else if prop == "C16" && case % 5 == 3 {
            grammar::layered_grammar(&mut rng)
        } else {
            grammar::random_grammar(&mut rng, &cfg)
        };
        let g = if rng.chance(1, 2) { with_expect(&g0, &mut rng) } else { g0 };
        let eoc = !rng.chance(1, 8);
        if case % 10 == 7 {
            let t = grammar::with_many_tokens(&g.render(), &mut rng);
            emit(&mut out, &dir, &t, eoc, "random_many_tokens", prop);
            continue;
        }
        emit(&mut out, &dir, &g.render(), eoc, "random", prop);
    }
    let _ = std::fs::remove_dir_all(&dir);
    out.finish(&a.out);
}

pub fn run(a: &Args) {
    run_prop(a, "C03", 3);
}
