//! C05 / C06 / C07: the errors and repair sequences the real recovering parser reports, judged by the
//! Lean specification (`Model/Recover.lean`): every sequence repairs and the parse is the plain parse
//! of the edited input (C05); the reported set is the reference minimum-cost set in the documented
//! order (C06), and the reported list — sent in the order reported, Delete/Shift with the index of the
//! lexeme they name — is a fixed point of the Lean model of `simplify_repairs` (C06); the error list
//! progresses and matches the outcome (C07).
use crate::gen::automaton::dump_automaton;
use crate::gen::grammar::{self, GenCfg};
use crate::gen::parse::{lr_terminates, STRIDE, TOKLEN};
use crate::gen::sentences::{inputs_for, mutate, Sampler};
use crate::gen::worker::{WResult, Worker};
use crate::out::{plist, Out};
use crate::rng::Rng;
use crate::Args;
use lrtable::{from_yacc, Minimiser};

const FAULTY: usize = 1_000_000;

fn enc_tree_text(t: &str) -> Vec<usize> {
    let toks: Vec<&str> = t.split(' ').collect();
    let mut out = Vec::new();
    let mut i = 0;
    while i + 2 < toks.len() + 0 && i < toks.len() {
        let a: usize = toks[i + 1].parse().unwrap_or(0);
        let b: usize = toks[i + 2].parse().unwrap_or(0);
        match toks[i] {
            "L" | "Y" => out.extend([0, a, b]),
            "F" | "X" => out.extend([0, a, FAULTY + b]),
            _ => out.extend([1, a, b]),
        }
        i += 3;
    }
    out
}

fn enc_seq(seq: &[String]) -> Vec<usize> {
    let mut v = vec![seq.len()];
    for r in seq {
        let (op, arg) = r.split_at(1);
        let a: usize = arg.parse().unwrap_or(0);
        v.push(match op {
            "I" => 0,
            "D" => 1,
            _ => 2,
        });
        v.push(a);
    }
    v
}

pub fn emit(out: &mut Out, worker: &mut Worker, text: &str, rng: &mut Rng, thorough: bool, kind: &str, prop: &str, fixed: Option<(&[&[u32]], u8)>, costs_in: Option<Vec<u8>>) {
    let g = match grammar::build(text) {
        Ok(g) => g,
        Err(_) => {
            out.count("rejected_grammars");
            return;
        }
    };
    let (sg, st) = match from_yacc(&g, Minimiser::Pager) {
        Ok(x) => x,
        Err(_) => {
            out.count("accept_reduce_conflict_grammars");
            return;
        }
    };
    if prop == "C07" && grammar::has_derivation_cycle(&g) {
        // the property excludes grammars in which a rule can derive just itself
        out.count("cyclic_grammars_excluded");
        return;
    }
    let nt = usize::from(g.tokens_len());
    let real = nt - 1;
    if real == 0 {
        return;
    }
    let id = out.id();
    // token costs: mostly small so that the reference search (cost cap) decides many cases
    let mode = rng.below(4);
    let costs: Vec<u8> = if let Some(c) = costs_in { (0..nt).map(|i| *c.get(i).unwrap_or(&1)).collect() } else if let Some((_, c)) = fixed { vec![c; nt] } else { (0..nt).map(|_| match mode { 0 => 1, 1 => *rng.pick(&[1u8, 1, 2]), 2 => *rng.pick(&[1u8, 2, 3]), _ => *rng.pick(&[1u8, 1, 2, 9, 200, 255]) }).collect() };
    let avoid: Vec<usize> = g.iter_tidxs().map(|t| if g.avoid_insert(t) { 1 } else { 0 }).collect();
    // inputs: near-sentences (1-3 edits), a few random strings
    let sm = Sampler::new(&g);
    let mut inputs: Vec<Vec<u32>> = Vec::new();
    let want = if thorough { 30 } else { 10 };
    for i in 0..want * 2 {
        if inputs.len() >= want {
            break;
        }
        if let Some(s) = sm.sample(rng, 12, 2 + i % 5) {
            let m = mutate(rng, &s, real);
            if m.len() <= 12 {
                inputs.push(m);
            }
        }
    }
    if inputs.len() < want / 2 {
        let mut all = inputs_for(&g, rng, false);
        all.retain(|w| w.len() >= 1 && w.len() <= 5);
        while inputs.len() < want && !all.is_empty() {
            let i = rng.below(all.len());
            inputs.push(all.swap_remove(i));
        }
    }
    if let Some((ws, _)) = fixed {
        inputs = ws.iter().map(|w| w.to_vec()).collect();
    }
    inputs.sort();
    inputs.dedup();
    let which = match prop {
        "C05" => 5,
        "C06" => 6,
        _ => 7,
    };
    let cap = if thorough { 4 } else { 3 };
    let mut body: Vec<usize> = Vec::new();
    let mut n = 0usize;
    let mut stats = (0u64, 0u64, 0u64, 0u64, 0u64, 0u64); // clean, with errors, multi-error, slow, hang, repairs
    let mut hfail: Option<String> = None;
    let mut several = 0u64; // errors with >= 2 sequences: where the order of the reported list matters
    let mut irs: Vec<String> = Vec::new();
    for w in &inputs {
        if !lr_terminates(&g, &st, w, 400 * (w.len() + 2)) {
            if which == 7 {
                let cls = if grammar::has_hidden_left_recursion(&g) { "-hidden-left-recursion" } else { "" };
                hfail.get_or_insert(format!("parse-does-not-return{}: the plain LR loop does not terminate on {:?} (acyclic grammar)", cls, w));
            }
            continue;
        }
        body.extend(plist(w).split(' ').map(|x| x.parse::<usize>().unwrap()));
        n += 1;
        let mut res = worker.parse(text, w, true, Some(&costs), std::time::Duration::from_millis(3000));
        if matches!(res, WResult::Hang) {
            // a parse that really does not return does so again; anything else (the worker process was
            // lost for a reason outside the parse) does not count as a hang
            out.count("hang_retried");
            res = worker.parse(text, w, true, Some(&costs), std::time::Duration::from_millis(6000));
        }
        match res {
            WResult::Ok(p) if p.wall_ms < 450 => {
                body.push(1);
                match &p.tree {
                    Some(t) => {
                        body.push(1);
                        body.extend(enc_tree_text(t));
                        // inserted lexemes are zero-length, real ones keep their extent
                        let tk: Vec<&str> = t.split(' ').collect();
                        if let Some(i) = tk.iter().position(|x| *x == "X" || *x == "Y") {
                            hfail.get_or_insert(format!(
                                "leaf-extent: the returned tree has {} lexeme of token {} at {} whose length is not {} on {:?}",
                                if tk[i] == "X" { "an inserted" } else { "a real" },
                                tk.get(i + 1).unwrap_or(&"?"),
                                tk.get(i + 2).unwrap_or(&"?"),
                                if tk[i] == "X" { "zero" } else { "the lexeme's" },
                                w));
                        }
                    }
                    None => body.push(0),
                }
                body.push(p.errors.len());
                for (j, e) in p.errors.iter().enumerate() {
                    if which == 6 {
                        // the tie with the full Lean model of `CPCTPlus::recover`: the reported list, in order
                        let seqs: Vec<String> = e.repairs.iter().map(|s| s.join(" ")).collect();
                        let l = if seqs.is_empty() { "none".to_string() } else { seqs.join(" ; ") };
                        irs.push(format!("{} {} {} {} : {}", n - 1, j, e.laidx, e.state, l));
                    }
                    body.extend([e.laidx, e.state, e.repairs.len()]);
                    for s in &e.repairs {
                        body.extend(enc_seq(s));
                    }
                    stats.5 += e.repairs.len() as u64;
                    if e.repairs.len() >= 2 {
                        several += 1;
                    }
                }
                if p.errors.is_empty() {
                    stats.0 += 1;
                } else {
                    stats.1 += 1;
                }
                if p.errors.len() > 1 {
                    stats.2 += 1;
                }
                if p.errors.is_empty() && p.tree.is_none() {
                    hfail.get_or_insert(format!("no value and no error on {:?}", w));
                }
            }
            WResult::Ok(p) => {
                body.push(0);
                stats.3 += 1;
                // a parse that may have run out of its recovery budget is not compared with the model, but what
                // does not depend on the budget still holds of it: errors at strictly increasing positions, at
                // least three lexemes apart (or at the end of the input), every error but the last repaired
                if which == 7 {
                    for k in 1..p.errors.len() {
                        let (a, b) = (p.errors[k - 1].laidx, p.errors[k].laidx);
                        if b <= a || (b < a + 3 && b < w.len()) || p.errors[k - 1].repairs.is_empty() {
                            hfail.get_or_insert(format!(
                                "errors-do-not-progress: a parse that took {} ms reports {} errors on the {} lexemes {:?}; error {} at lexeme {} ({} repair sequences) is followed by an error at lexeme {}",
                                p.wall_ms, p.errors.len(), w.len(), w, k - 1, a, p.errors[k - 1].repairs.len(), b));
                            break;
                        }
                    }
                }
            }
            WResult::Hang => {
                body.push(0);
                stats.4 += 1;
                if which == 7 {
                    // "a parse always returns": the plain LR loop terminates on this input (checked above),
                    // so this is the recovery loop not returning
                    let cls = if grammar::has_hidden_left_recursion(&g) { "-hidden-left-recursion" } else { "" };
                    hfail.get_or_insert(format!("parse-does-not-return{}: the recovering parse did not return within 3 s on {:?} (plain LR terminates on it)", cls, w));
                }
            }
            WResult::NoGrammar => body.push(0),
            WResult::Panic(m) => {
                body.push(0);
                hfail.get_or_insert(format!("recovering parser panicked on {:?}: {}", w, m));
            }
        }
    }
    let payload = format!(
        "{} {} {} {} {} {} {} {} {} {}",
        grammar::dump_grammar(&g),
        dump_automaton(&g, &sg, &st),
        crate::out::join(&costs),
        crate::out::join(&avoid),
        STRIDE,
        TOKLEN,
        cap,
        which,
        n,
        crate::out::join(&body)
    );
    out.case(prop, id, &payload);
    match hfail {
        None => out.imp(id, "H", "ok"),
        Some(e) => out.imp(id, "H", &format!("fail {}", e)),
    }
    for l in &irs {
        out.imp(id, "Ir", l);
    }
    let desc = format!("grammar=[{}] costs={:?} inputs={}", text.replace('\n', " ").trim(), costs, n);
    out.imp(id, "D", &desc);
    // replay line: costs | inputs | grammar text
    let ins: Vec<String> = inputs.iter().map(|w| crate::out::join(w)).collect();
    out.imp(id, "G", &format!("{}|{}|{}", crate::out::join(&costs), ins.join(";"), text.replace('\n', "\\n")));
    out.count(&format!("kind.{}", kind));
    out.add("inputs", n as u64);
    out.add("inputs_without_error", stats.0);
    out.add("inputs_with_errors", stats.1);
    out.add("inputs_with_several_errors", stats.2);
    out.add("inconclusive_slow", stats.3);
    out.add("not_returning", stats.4);
    out.add("repair_sequences", stats.5);
    out.add("errors_with_several_sequences", several);
    if out.next_id % 29 == 1 {
        out.sample(desc);
    }
}

/// "keyword sequence" grammars: a fixed sequence of distinct tokens with optional groups, and inputs
/// in which one token is replaced by a foreign one and/or neighbours are dropped, so that repairs
/// need an Insert and a Delete (in either order) and further Inserts
fn seq_family(rng: &mut Rng) -> (String, Vec<Vec<u32>>) {
    let n = rng.range(4, 7);
    let mut tok = 0u32;
    let mut rhs: Vec<String> = Vec::new();
    let mut rules = String::new();
    // sentence with all optional groups empty, as token indices in order of first appearance
    let mut sent: Vec<u32> = Vec::new();
    let mut groups = 0;
    let mut deferred: Vec<(usize, usize)> = Vec::new(); // (group, length)
    for i in 0..n {
        if i > 0 && groups < 2 && rng.chance(1, 3) {
            rhs.push(format!("O{}", groups));
            deferred.push((groups, rng.range(1, 2)));
            groups += 1;
        }
        rhs.push(format!("'k{}'", tok));
        sent.push(tok);
        tok += 1;
    }
    // a repeated tail so that three shifts after a repair are available
    let rep = rng.range(0, 3);
    for _ in 0..rep {
        rhs.push(format!("'k{}'", tok - 1));
        sent.push(tok - 1);
    }
    let mut text = format!("%start S\n%%\nS: {};\n", rhs.join(" "));
    let mut foreign: Vec<u32> = Vec::new();
    for (gi, len) in deferred {
        let mut body = Vec::new();
        for _ in 0..len {
            body.push(format!("'k{}'", tok));
            foreign.push(tok);
            tok += 1;
        }
        if rng.chance(1, 2) {
            rules.push_str(&format!("O{}: | {};\n", gi, body.join(" ")));
        } else {
            rules.push_str(&format!("O{}: {} | ;\n", gi, body.join(" ")));
        }
    }
    text.push_str(&rules);
    // token numbering is by first appearance: S's tokens first (k0..), then the groups' — as generated
    let mut inputs = Vec::new();
    let pool: Vec<u32> = if foreign.is_empty() { sent.clone() } else { foreign.clone() };
    for i in 0..sent.len() {
        let f = pool[rng.below(pool.len())];
        // replace s[i], drop s[i+1]
        let mut w = sent[..i].to_vec();
        w.push(f);
        if i + 2 <= sent.len() {
            w.extend_from_slice(&sent[i + 2..]);
        }
        inputs.push(w);
        // replace s[i] only
        let mut w2 = sent.clone();
        w2[i] = f;
        inputs.push(w2);
        // insert a foreign token and drop the next
        let mut w3 = sent[..i].to_vec();
        w3.push(f);
        w3.extend_from_slice(&sent[(i + 1).min(sent.len())..]);
        inputs.push(w3);
    }
    inputs.truncate(14);
    (text, inputs)
}

/// alternatives: `S: 'a' X 'd' 'k'…; X: alt1 | alt2 | alt3` where each alternative is 2-3 distinct
/// tokens, some of them (never only the first of an alternative) marked %avoid_insert; inputs drop the
/// whole body of X or part of it, so that several equal-cost multi-Insert repairs compete and the
/// ranking (avoided inserts last, then shorter first) matters
fn alt_family(rng: &mut Rng) -> (String, Vec<Vec<u32>>) {
    let nalt = rng.range(2, 3);
    let tail = rng.range(1, 3);
    // token numbering by first appearance: 'a' 0, 'd' 1, 'k' 2, then the alternatives' tokens
    let mut next = 3u32;
    let mut alts: Vec<Vec<u32>> = Vec::new();
    for _ in 0..nalt {
        let len = rng.range(2, 3);
        alts.push((0..len).map(|_| { next += 1; next - 1 }).collect());
    }
    let mut avoid: Vec<u32> = Vec::new();
    for a in &alts {
        if rng.chance(2, 3) {
            // an avoided token that is NOT the first of its alternative
            avoid.push(a[rng.range(1, a.len() - 1)]);
        }
        if rng.chance(1, 5) {
            avoid.push(a[0]);
        }
    }
    avoid.sort();
    avoid.dedup();
    let name = |t: u32| match t { 0 => "'a'".to_string(), 1 => "'d'".to_string(), 2 => "'k'".to_string(), n => format!("'x{}'", n) };
    // `%avoid_insert` declares the tokens it names: fix the numbering with a `%token` line first
    let mut text = format!("%start S\n%token {}\n", (0..next).map(name).collect::<Vec<_>>().join(" "));
    if !avoid.is_empty() {
        text.push_str(&format!("%avoid_insert {}\n", avoid.iter().map(|t| name(*t)).collect::<Vec<_>>().join(" ")));
    }
    text.push_str("%%\n");
    text.push_str(&format!("S: 'a' X 'd'{};\n", " 'k'".repeat(tail)));
    text.push_str(&format!("X: {};\n", alts.iter().map(|a| a.iter().map(|t| name(*t)).collect::<Vec<_>>().join(" ")).collect::<Vec<_>>().join(" | ")));
    let mut tailv = vec![1u32];
    tailv.extend(std::iter::repeat(2).take(tail));
    let mut inputs = Vec::new();
    // the whole body missing
    let mut w = vec![0u32];
    w.extend(&tailv);
    inputs.push(w);
    for a in &alts {
        // all but the first / all but the last token of an alternative missing
        let mut w = vec![0u32, a[0]];
        w.extend(&tailv);
        inputs.push(w);
        let mut w = vec![0u32, *a.last().unwrap()];
        w.extend(&tailv);
        inputs.push(w);
    }
    // 'a' missing as well
    inputs.push(tailv.clone());
    (text, inputs)
}

/// precedence expression grammars: binary operators with %left/%right/%nonassoc levels (the
/// shift/reduce conflicts are all settled by precedence, so the table is a proper LR table whose
/// error cells include the ones %nonassoc created and whose reduce cells include ones that won against
/// a shift), optional parentheses and a prefix operator with %prec. Inputs chain operators (the
/// %nonassoc ones twice in a row), drop operands and drop operators, so that errors are detected in
/// states entered by a goto that have precedence-resolved cells.
fn prec_family(rng: &mut Rng) -> (String, Vec<Vec<u32>>, Vec<u8>) {
    let k = rng.range(2, 4) as u32;
    let parens = rng.chance(1, 2);
    let prefix = rng.chance(1, 3);
    // token numbering by first appearance in the productions: o0..o(k-1), n, then ( ) and m
    let n_tok = k;
    let mut next = k + 1;
    let (lp, rp) = if parens { next += 2; (next - 2, next - 1) } else { (0, 0) };
    let m_tok = if prefix { next += 1; next - 1 } else { 0 };
    let ntoks = next as usize;
    let mut order: Vec<u32> = (0..k).collect();
    for i in (1..order.len()).rev() {
        order.swap(i, rng.below(i + 1));
    }
    let mut text = String::from("%start E\n");
    let mut any_nonassoc = false;
    for (i, o) in order.iter().enumerate() {
        let kind = if i + 1 == order.len() && !any_nonassoc && rng.chance(2, 3) { "%nonassoc" } else { *rng.pick(&["%left", "%right", "%nonassoc", "%left"]) };
        if kind == "%nonassoc" {
            any_nonassoc = true;
        }
        text.push_str(&format!("{} 'o{}'\n", kind, o));
    }
    text.push_str("%%\nE: ");
    let mut alts: Vec<String> = (0..k).map(|o| format!("E 'o{}' E", o)).collect();
    alts.push("'n'".to_string());
    if parens {
        alts.push("'(' E ')'".to_string());
    }
    if prefix {
        alts.push(format!("'m' E %prec 'o{}'", order[rng.below(order.len())]));
    }
    text.push_str(&alts.join(" | "));
    text.push_str(";\n");
    let mut inputs: Vec<Vec<u32>> = Vec::new();
    for a in 0..k {
        for b in 0..k {
            inputs.push(vec![n_tok, a, n_tok, b, n_tok]);
            inputs.push(vec![n_tok, a, n_tok, b, n_tok, b, n_tok]);
            inputs.push(vec![n_tok, a, b, n_tok, a, n_tok]);
            inputs.push(vec![n_tok, a, n_tok, n_tok, b, n_tok]);
        }
        inputs.push(vec![n_tok, a, n_tok, a]);
        if parens {
            inputs.push(vec![lp, n_tok, a, n_tok, a, n_tok, rp, a, n_tok]);
            inputs.push(vec![lp, n_tok, a, n_tok, a, n_tok]);
        }
        if prefix {
            inputs.push(vec![m_tok, n_tok, a, n_tok, a, m_tok, n_tok]);
        }
    }
    for i in (1..inputs.len()).rev() {
        inputs.swap(i, rng.below(i + 1));
    }
    inputs.truncate(12);
    let mode = rng.below(3);
    let costs: Vec<u8> = (0..ntoks + 1).map(|_| match mode { 0 => 1, 1 => *rng.pick(&[1u8, 1, 2]), _ => *rng.pick(&[1u8, 2, 3]) }).collect();
    (text, inputs, costs)
}

/// alternatives of DIFFERENT lengths whose token costs make them equally expensive: `S: 'a' X 'd' 'k'…;
/// X: 'x3' | 'x4' 'x5' | 'x6' 'x7' 'x8'` with costs 6 | 3 3 | 2 2 2 (or 255 | 85 85 85): when the body
/// of X is missing every alternative is a minimum-cost repair, the sequences have different lengths, and
/// some alternatives contain an avoided token — "avoided after all others" and "shorter first within a
/// group" pull in different directions, and a cost of exactly 255 is the largest a token can have
fn uneven_alt_family(rng: &mut Rng) -> (String, Vec<Vec<u32>>, Vec<u8>) {
    let big = rng.chance(1, 3);
    let lens: Vec<usize> = if big { vec![1, 3] } else if rng.chance(1, 2) { vec![1, 2, 3] } else { vec![2, 3, 1] };
    let total: usize = if big { 255 } else { 6 };
    let tail = rng.range(1, 3);
    let mut next = 3u32;
    let mut alts: Vec<Vec<u32>> = Vec::new();
    let mut costs: Vec<u8> = vec![1, 1, 1];
    for l in &lens {
        alts.push((0..*l).map(|_| { next += 1; next - 1 }).collect());
        for _ in 0..*l {
            costs.push((total / l) as u8);
        }
    }
    costs.push(1); // end of input
    // avoid a token of the shortest alternative, sometimes also of another one
    let shortest = (0..alts.len()).min_by_key(|i| alts[*i].len()).unwrap();
    let mut avoid: Vec<u32> = vec![alts[shortest][0]];
    if rng.chance(1, 3) {
        let o = (shortest + 1) % alts.len();
        avoid.push(*alts[o].last().unwrap());
    }
    if rng.chance(1, 4) {
        avoid.clear();
    }
    avoid.sort();
    let name = |t: u32| match t { 0 => "'a'".to_string(), 1 => "'d'".to_string(), 2 => "'k'".to_string(), n => format!("'x{}'", n) };
    // `%avoid_insert` declares the tokens it names: fix the numbering with a `%token` line first
    let mut text = format!("%start S\n%token {}\n", (0..next).map(name).collect::<Vec<_>>().join(" "));
    if !avoid.is_empty() {
        text.push_str(&format!("%avoid_insert {}\n", avoid.iter().map(|t| name(*t)).collect::<Vec<_>>().join(" ")));
    }
    text.push_str("%%\n");
    text.push_str(&format!("S: 'a' X 'd'{};\n", " 'k'".repeat(tail)));
    text.push_str(&format!("X: {};\n", alts.iter().map(|a| a.iter().map(|t| name(*t)).collect::<Vec<_>>().join(" ")).collect::<Vec<_>>().join(" | ")));
    let mut tailv = vec![1u32];
    tailv.extend(std::iter::repeat(2).take(tail));
    let mut inputs = Vec::new();
    let mut w = vec![0u32];
    w.extend(&tailv);
    inputs.push(w);
    // a foreign token in place of the body (Delete + the Inserts), and part of a long alternative present
    let mut w = vec![0u32, 2];
    w.extend(&tailv);
    inputs.push(w);
    for a in &alts {
        if a.len() >= 2 {
            let mut w = vec![0u32, a[0]];
            w.extend(&tailv);
            inputs.push(w);
        }
    }
    (text, inputs, costs)
}

/// inputs with a long error-free tail (beyond the ranking window of the recoverer)
fn long_tail_cases() -> Vec<(&'static str, Vec<Vec<u32>>)> {
    // tokens by first appearance: '+' 0, '*' 1, '(' 2, ')' 3, 'n' 4
    let mut w = vec![2u32, 0, 4];
    for _ in 0..300 {
        w.extend([0, 4]);
    }
    w.push(3);
    let mut w2 = vec![4u32, 0, 0, 4];
    for _ in 0..270 {
        w2.extend([1, 4]);
    }
    // list grammar: 'x' 0, 'y' 1
    let mut l = vec![1u32, 1];
    l.extend(std::iter::repeat(0).take(280));
    vec![
        ("%start E\n%%\nE: E '+' T | T; T: T '*' F | F; F: '(' E ')' | 'n';", vec![w, w2]),
        ("%start L\n%%\nL: L 'x' | 'y';", vec![l]),
    ]
}

pub fn run_prop(a: &Args, prop: &str, pnum: u64) {
    let mut out = Out::new(&a.out);
    let mut worker = Worker::new();
    if let Some(rp) = &a.replay {
        let txt = std::fs::read_to_string(rp).unwrap_or_default();
        let mut rng = Rng::for_case(a.seed, pnum, 0);
        for line in txt.lines() {
            if let Some(rest) = line.strip_prefix("# G ") {
                let f: Vec<&str> = rest.splitn(3, '|').collect();
                if f.len() == 3 {
                    let costs: Vec<u8> = f[0].split(' ').filter_map(|x| x.parse().ok()).collect();
                    let ws: Vec<Vec<u32>> = f[1].split(';').map(|w| w.split(' ').filter_map(|x| x.parse().ok()).collect()).collect();
                    let refs: Vec<&[u32]> = ws.iter().map(|w| &w[..]).collect();
                    emit(&mut out, &mut worker, &f[2].replace("\\n", "\n"), &mut rng, a.thorough, "replay", prop, Some((&refs, 1)), Some(costs));
                }
            }
        }
        out.finish(&a.out);
        return;
    }
    if a.shard == 0 {
        let mut rng = Rng::for_case(a.seed, pnum, 0);
        for t in grammar::classics() {
            emit(&mut out, &mut worker, t, &mut rng, a.thorough, "classic", prop, None, None);
        }
        for t in [
            "%start R0\n%%\nR0: R0 't0' | 't2' 't1';",
            "%start R0\n%%\nR0: R0 't0' | R0 't2' | 't1' 't1' R1; R1: R0 't1' 't0' | R1 't0' | 't1';",
            "%start E\n%avoid_insert 'n'\n%%\nE: E '+' T | T; T: T '*' F | F; F: '(' E ')' | 'n';",
            "%start E\n%%\nE: E '+' T | T; T: T '*' F | F; F: '(' E ')' | 'n';",
        ] {
            for _ in 0..3 {
                emit(&mut out, &mut worker, t, &mut rng, a.thorough, "corpus", prop, None, None);
            }
        }
        if prop == "C07" {
            let w0: &[&[u32]] = &[&[0], &[0, 1]];
            emit(&mut out, &mut worker, "%start S\n%left 'y'\n%left HIGH\n%token HIGH\n%%\nS: A S 'x' | 'y'; A: %prec HIGH ;", &mut rng, a.thorough, "witness", prop, Some((w0, 1)), None);
        }
        if prop == "C07" {
            // k independent choices between two equally cheap repairs: 2^k sequences behind merged search
            // nodes; the time budget must bound their enumeration too (the parse returns, possibly without
            // repairs)
            let k = 24;
            let g = format!("%start S\n%%\nS: {};\nT: 'a' | 'b';", vec!["T"; k].join(" "));
            let w0: &[&[u32]] = &[&[], &[0]];
            emit(&mut out, &mut worker, &g, &mut rng, a.thorough, "witness", prop, Some((w0, 1)), None);
        }
        if prop == "C06" {
            // 2^11 equally good repair sequences for one error: all of them are reported, in the documented order
            let g = format!("%start S\n%%\nS: 'x' {} 'y';\nT: 'a' | 'b';", vec!["T"; 11].join(" "));
            let w0: &[&[u32]] = &[&[0, 1]];
            emit(&mut out, &mut worker, &g, &mut rng, a.thorough, "witness", prop, Some((w0, 1)), None);
        }
        {
            // more than a hundred independent, repairable errors in one input: every one is reported with
            // its repairs and the parse still returns a value (tokens: a 0, b 1, c 2, d 3, ; 4)
            let mut w: Vec<u32> = Vec::new();
            for i in 0..160 {
                if i % 5 == 4 {
                    w.extend([0u32, 1, 2, 3, 4]);
                } else {
                    w.extend([0u32, 2, 3, 4]);
                }
            }
            let ws: &[&[u32]] = &[&w[..]];
            emit(&mut out, &mut worker, "%start P\n%%\nP: | P S; S: 'a' 'b' 'c' 'd' ';';", &mut rng, a.thorough, "many_errors", prop, Some((ws, 1)), None);
        }
        // minimised past failures: (grammar, inputs) with unit costs
        let w1: &[&[u32]] = &[&[2, 0, 0], &[2, 0, 0, 0], &[2, 0]];
        emit(&mut out, &mut worker, "%start R0\n%%\nR0: R0 't0' | 't2' 't1';", &mut rng, a.thorough, "witness", prop, Some((w1, 1)), None);
        let w2: &[&[u32]] = &[&[2, 2, 2, 2], &[2, 2, 2], &[2, 2, 2, 2, 0]];
        emit(&mut out, &mut worker, "%start R0\n%%\nR0: R0 't0' | R0 't2' | 't1' 't1' R1; R1: R0 't1' 't0' | R1 't0' | 't1';", &mut rng, a.thorough, "witness", prop, Some((w2, 1)), None);
        // an error in a goto-entered state whose reduce won a shift/reduce conflict by precedence: the
        // cheapest repairs insert the lower-precedence operator there (tokens: AND 0, LT 1, N 2)
        let w4: &[&[u32]] = &[&[2, 1, 2, 1, 2], &[2, 1, 2, 1, 2, 0, 2]];
        emit(&mut out, &mut worker, "%start E\n%left 'AND'\n%nonassoc 'LT'\n%%\nE: E 'AND' E | E 'LT' E | 'N';", &mut rng, a.thorough, "witness", prop, Some((w4, 1)), None);
        emit(&mut out, &mut worker, "%start E\n%left 'AND'\n%nonassoc 'LT'\n%%\nE: E 'AND' E | E 'LT' E | 'N';", &mut rng, a.thorough, "witness", prop, Some((w4, 1)), Some(vec![1, 1, 3, 1]));
        // every minimum-cost repair has to insert the avoided token (a missing operand at the end of the input,
        // before `)`, before an operator): it is ranked last but still replayed, and the parse goes on
        // (tokens: n 0, + 1, * 2, ( 3, ) 4)
        let w5: &[&[u32]] = &[&[0, 1], &[3, 4], &[0, 1, 0, 1], &[3, 0, 2, 4, 1, 0], &[0, 1, 3, 4, 2, 0, 1]];
        emit(&mut out, &mut worker, "%start E\n%avoid_insert 'n'\n%%\nE: E '+' T | T; T: T '*' F | F; F: '(' E ')' | 'n';", &mut rng, a.thorough, "witness", prop, Some((w5, 1)), None);
        // a Delete-ended and an Insert-ended search node reach the same stack and position
        let w3: &[&[u32]] = &[&[0, 5, 3, 3, 3], &[0, 5, 3, 3], &[0, 5]];
        emit(&mut out, &mut worker, "%start S\n%%\nS: 'a' M 't' 'w' 'k' 'k' 'k'; M: | 'u' 'y';", &mut rng, a.thorough, "witness", prop, Some((w3, 1)), None);
        emit(&mut out, &mut worker, "%start S\n%%\nS: 'a' M 't' 'w' 'k' 'k' 'k'; M: 'u' 'y' | ;", &mut rng, a.thorough, "witness", prop, Some((w3, 1)), None);
    }
    if a.shard == 1 % a.shards {
        let mut rng = Rng::for_case(a.seed, pnum, 0);
        for (t, ws) in long_tail_cases() {
            let refs: Vec<&[u32]> = ws.iter().map(|w| &w[..]).collect();
            emit(&mut out, &mut worker, t, &mut rng, a.thorough, "long_tail", prop, Some((&refs, 1)), None);
        }
    }
    let n = if a.thorough { 2500 } else { 160 };
    for case in 0..n {
        if case % a.shards != a.shard {
            continue;
        }
        let mut rng = Rng::for_case(a.seed, pnum, case as u64 + 1);
        if case % 8 == 3 {
            let (t, ws) = alt_family(&mut rng);
            let refs: Vec<&[u32]> = ws.iter().map(|w| &w[..]).collect();
            emit(&mut out, &mut worker, &t, &mut rng, a.thorough, "alt_family", prop, Some((&refs, 1)), None);
            continue;
        }
        if case % 16 == 2 {
            let (t, ws, costs) = uneven_alt_family(&mut rng);
            let refs: Vec<&[u32]> = ws.iter().map(|w| &w[..]).collect();
            emit(&mut out, &mut worker, &t, &mut rng, a.thorough, "uneven_alt_family", prop, Some((&refs, 1)), Some(costs));
            continue;
        }
        if case % 8 == 6 {
            let (t, ws, costs) = prec_family(&mut rng);
            let refs: Vec<&[u32]> = ws.iter().map(|w| &w[..]).collect();
            emit(&mut out, &mut worker, &t, &mut rng, a.thorough, "prec_family", prop, Some((&refs, 1)), Some(costs));
            continue;
        }
        if case % 4 == 1 {
            let (t, ws) = seq_family(&mut rng);
            let refs: Vec<&[u32]> = ws.iter().map(|w| &w[..]).collect();
            emit(&mut out, &mut worker, &t, &mut rng, a.thorough, "seq_family", prop, Some((&refs, 1)), None);
            continue;
        }
        let cfg = GenCfg { precs: false, ..GenCfg::default() };
        let mut g = grammar::random_grammar(&mut rng, &cfg);
        if rng.chance(1, 3) {
            let k = rng.range(1, g.ntoks);
            g.avoid_insert = (0..k).map(|_| rng.below(g.ntoks)).collect();
            g.avoid_insert.sort();
            g.avoid_insert.dedup();
        }
        emit(&mut out, &mut worker, &g.render(), &mut rng, a.thorough, "random", prop, None, None);
    }
    out.finish(&a.out);
}
