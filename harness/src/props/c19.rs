//! C19: `NewlineCache` (and its users `LRNonStreamingLexer::{line_col, span_lines_str}`) on generated
//! texts x chunkings x all offsets and boundary spans.
use crate::out::{guarded, plist, Out};
use crate::rng::Rng;
use crate::Args;
use cfgrammar::{newlinecache::NewlineCache, Span};
use lrlex::{DefaultLexerTypes, LRNonStreamingLexer};
use lrpar::NonStreamingLexer;

const ALPHA: &[char] = &['a', 'b', ' ', '\n', '\n', '\r', '\u{e9}', '\u{2764}', '\u{1F600}'];
const SMALL: &[char] = &['a', '\n', '\r', '\u{e9}'];
/// sequences whose width is not the sum of the widths of their characters: emoji presentation and
/// ZWJ sequences, a flag, the Lam-Alef ligature, a Lisu tone pair, a combining accent (additive: control)
const WIDE_SEQ: &[&str] = &["\u{2764}\u{FE0F}", "\u{1F468}\u{200D}\u{1F469}", "\u{1F1E9}\u{1F1EA}", "\u{644}\u{627}", "\u{A4F8}\u{A4FC}", "a\u{301}", "\u{1F44D}\u{1F3FD}", "\u{23}\u{FE0F}\u{20E3}"];
/// wide (2 cells), zero-width (combining acute, ZWJ, VS16), a heart that VS16 widens, emoji, a tab
const WIDE: &[char] = &['a', ' ', '\n', '\n', '\r', '\u{6F22}', '\u{301}', '\u{2764}', '\u{FE0F}', '\u{1F600}', '\u{200D}', '\u{1F468}', '\t', '\u{FF21}'];

fn payload(text: &[char], chunks: &[usize], spans: &[(usize, usize, usize)]) -> String {
    let cps: Vec<u32> = text.iter().map(|c| *c as u32).collect();
    let (cw, ex) = widths(text);
    let flat: Vec<usize> = spans.iter().flat_map(|(a, b, p)| [*a, *b, *p]).collect();
    format!("{} {} {} {} {}", plist(&cps), plist(chunks), plist(&cw), plist(&ex), plist(&flat))
}

/// The width parameter of the Lean model, measured on the `unicode-width` crate that lrpar links
/// (`UnicodeWidthStr::width`, the only function diagnostics.rs calls): the width of every distinct
/// character as a one-character string (`cp w …`), and every newline-free substring of the text whose
/// width is NOT the sum of those (`k cp… w …`; emoji sequences, ligatures).
fn widths(text: &[char]) -> (Vec<u32>, Vec<u32>) {
    use unicode_width::UnicodeWidthStr;
    let mut seen: Vec<char> = Vec::new();
    let mut cw: Vec<u32> = Vec::new();
    let w1 = |c: char| UnicodeWidthStr::width(c.to_string().as_str()) as u32;
    for c in text {
        if !seen.contains(c) {
            seen.push(*c);
            cw.push(*c as u32);
            cw.push(w1(*c));
        }
    }
    let mut ex: Vec<u32> = Vec::new();
    let mut done: std::collections::HashSet<Vec<char>> = std::collections::HashSet::new();
    for i in 0..text.len() {
        let mut sub: Vec<char> = Vec::new();
        let mut sum = 0u32;
        for c in &text[i..] {
            if *c == '\n' || sub.len() >= 24 {
                break;
            }
            sub.push(*c);
            sum += w1(*c);
            let st: String = sub.iter().collect();
            let real = UnicodeWidthStr::width(st.as_str()) as u32;
            if real != sum && done.insert(sub.clone()) {
                ex.push(sub.len() as u32);
                ex.extend(sub.iter().map(|c| *c as u32));
                ex.push(real);
            }
        }
    }
    (cw, ex)
}

/// The spans (start, end, prefix length) sent to the pretty-printer, a function of the text alone:
/// every boundary pair of a short text; for longer texts up to `cap` starting boundaries, each with
/// spans of 0, 1, 2, 4, 9, 17 and 40 characters. Prefix "" mostly, "..." (what `format_spanned` passes)
/// for a third, and once "...." (the formatter's `assert!`).
fn pp_spans(text: &[char]) -> Vec<(usize, usize, usize)> {
    let s: String = text.iter().collect();
    let mut bounds: Vec<usize> = s.char_indices().map(|(i, _)| i).collect();
    bounds.push(s.len());
    let n = bounds.len();
    let mut v: Vec<(usize, usize, usize)> = Vec::new();
    if n <= 7 {
        for i in 0..n {
            for j in i..n {
                v.push((bounds[i], bounds[j], if (i + 2 * j) % 3 == 1 { 3 } else { 0 }));
            }
        }
        v.push((bounds[0], bounds[n - 1], 4));
        v.push((bounds[n / 2], bounds[n - 1], 2));
    } else {
        let cap = 24;
        let stride = (n + cap - 1) / cap;
        let mut k = 0usize;
        for i in (0..n).step_by(stride.max(1)) {
            for step in [0usize, 1, 2, 4, 9, 17, 40] {
                let j = (i + step).min(n - 1);
                if step > 0 && i + step > n - 1 + 8 {
                    continue;
                }
                k += 1;
                v.push((bounds[i], bounds[j], if k % 3 == 0 { 3 } else if k % 29 == 0 { 1 } else { 0 }));
            }
        }
        v.push((bounds[0], bounds[n - 1], 0));
        v.push((bounds[n - 1], bounds[n - 1], 3));
        v.push((bounds[1], bounds[n - 2], 4));
    }
    v.dedup();
    v
}

fn enc(r: &Result<String, String>) -> String {
    match r {
        Err(_) => "P".to_string(),
        Ok(t) if t.is_empty() => "E".to_string(),
        Ok(t) => t.chars().map(|c| (c as u32).to_string()).collect::<Vec<_>>().join("."),
    }
}

fn parse_payload(p: &str) -> Option<(Vec<char>, Vec<usize>, Option<Vec<(usize, usize, usize)>>)> {
    let v: Vec<u64> = p.split_whitespace().map(|t| t.parse().ok()).collect::<Option<_>>()?;
    let n = *v.first()? as usize;
    let text: Vec<char> = v.get(1..1 + n)?.iter().map(|c| char::from_u32(*c as u32)).collect::<Option<_>>()?;
    let k = *v.get(1 + n)? as usize;
    let chunks: Vec<usize> = v.get(2 + n..2 + n + k)?.iter().map(|x| *x as usize).collect();
    // optional: widths, width exceptions (both re-measured, not trusted), spans
    let mut pos = 2 + n + k;
    let mut spans = None;
    let mut lists: Vec<Vec<u64>> = Vec::new();
    while let Some(len) = v.get(pos) {
        let len = *len as usize;
        match v.get(pos + 1..pos + 1 + len) {
            Some(l) => lists.push(l.to_vec()),
            None => break,
        }
        pos += 1 + len;
    }
    if lists.len() >= 3 {
        spans = Some(lists[2].chunks(3).filter(|c| c.len() == 3).map(|c| (c[0] as usize, c[1] as usize, c[2] as usize)).collect());
    }
    Some((text, chunks, spans))
}

/// lexer definitions over the alphabet of the generated texts: lexing succeeds / stops because no
/// rule matches 'b' / a rule without a token id matches / a pop from the empty state stack / a
/// multi-byte rule
const LEXERS: &[&str] = &[
    "%%\n[ab]+ 'A'\n\u{e9}+ 'E'\n[\\n\\r]+ 'NL'\n",
    "%%\na+ 'A'\n\u{e9}+ 'E'\n[\\n\\r]+ 'NL'\n",
    "%%\na+ 'A'\nb 'NOID'\n\u{e9}+ 'E'\n[\\n\\r]+ 'NL'\n",
    "%x S\n%%\na+ 'A'\nb <-S>'POP'\n\u{e9}+ 'E'\n[\\n\\r]+ 'NL'\n",
];

/// The implementation's answer in the driver's reply format, plus harness-side verdicts on the glue.
fn answer(text: &[char], chunks: &[usize], spans: &[(usize, usize, usize)]) -> (String, Vec<String>) {
    let s: String = text.iter().collect();
    let mut fails = Vec::new();
    let mut nlc = NewlineCache::new();
    let mut pos = 0;
    for n in chunks {
        let piece: String = text[pos..(pos + n).min(text.len())].iter().collect();
        nlc.feed(&piece);
        pos += n;
    }
    let len = s.len();
    let mut bounds: Vec<usize> = s.char_indices().map(|(i, _)| i).collect();
    bounds.push(len);
    let mut ln = Vec::new();
    for b in 0..len + 2 {
        let mut e = match guarded(std::panic::AssertUnwindSafe(|| nlc.byte_to_line_num(b))) {
            Ok(Some(l)) => l.to_string(),
            Ok(None) => "N".to_string(),
            Err(_) => "P".to_string(),
        };
        // start of the line, `byte_to_line_byte`
        e.push(':');
        e.push_str(&match guarded(std::panic::AssertUnwindSafe(|| nlc.byte_to_line_byte(b))) {
            Ok(Some(l)) => l.to_string(),
            Ok(None) => "N".to_string(),
            Err(_) => "P".to_string(),
        });
        ln.push(e);
    }
    let mut lc = Vec::new();
    for &b in &bounds {
        match guarded(std::panic::AssertUnwindSafe(|| nlc.byte_to_line_num_and_col_num(&s, b))) {
            Ok(Some((l, c))) => lc.push(format!("{},{}", l, c)),
            Ok(None) => lc.push("N".to_string()),
            Err(_) => lc.push("P".to_string()),
        }
    }
    // the other two ways of building a cache (`FromStr`, `FromIterator`) must answer like `feed`
    {
        use std::str::FromStr;
        let others: Vec<(&str, Result<NewlineCache, String>)> = vec![
            ("from_str", guarded(std::panic::AssertUnwindSafe(|| NewlineCache::from_str(&s).unwrap()))),
            ("from_iter", guarded(std::panic::AssertUnwindSafe(|| NewlineCache::from_iter(vec![s.as_str()])))),
        ];
        for (name, o) in others {
            match o {
                Err(e) => fails.push(format!("NewlineCache::{} panicked: {}", name, e)),
                Ok(o) => {
                    for b in 0..len + 2 {
                        let x = guarded(std::panic::AssertUnwindSafe(|| (o.byte_to_line_num(b), o.byte_to_line_byte(b))));
                        let y = guarded(std::panic::AssertUnwindSafe(|| (nlc.byte_to_line_num(b), nlc.byte_to_line_byte(b))));
                        if x.as_ref().ok() != y.as_ref().ok() {
                            fails.push(format!("cache built with {} answers {:?} at offset {}, the cache built with feed {:?}", name, x, b, y));
                            break;
                        }
                    }
                    for &b in &bounds {
                        let x = guarded(std::panic::AssertUnwindSafe(|| o.byte_to_line_num_and_col_num(&s, b)));
                        let y = guarded(std::panic::AssertUnwindSafe(|| nlc.byte_to_line_num_and_col_num(&s, b)));
                        if x.as_ref().ok() != y.as_ref().ok() {
                            fails.push(format!("cache built with {} gives line/col {:?} at offset {}, the cache built with feed {:?}", name, x, b, y));
                            break;
                        }
                    }
                }
            }
        }
    }
    // answers must not depend on the ORDER of the queries made on one cache: ask again backwards and
    // in a scrambled order and compare with the first (ascending) pass
    {
        let first_ln: Vec<Option<usize>> = (0..len + 2).map(|b| nlc.byte_to_line_num(b)).collect();
        let first_lb: Vec<Option<usize>> = (0..len + 2).map(|b| nlc.byte_to_line_byte(b)).collect();
        let mut order: Vec<usize> = (0..len + 2).rev().collect();
        let mut k = 7usize;
        for _ in 0..len + 2 {
            k = (k * 31 + 11) % (len + 2);
            order.push(k);
        }
        for b in order {
            let x = guarded(std::panic::AssertUnwindSafe(|| (nlc.byte_to_line_num(b), nlc.byte_to_line_byte(b))));
            if x.as_ref().ok() != Some(&(first_ln[b], first_lb[b])) {
                fails.push(format!("query order matters: offset {} answered {:?} when asked after other offsets, {:?} in ascending order", b, x, (first_ln[b], first_lb[b])));
                break;
            }
        }
        for &b in bounds.iter().rev() {
            let x = guarded(std::panic::AssertUnwindSafe(|| nlc.byte_to_line_num_and_col_num(&s, b)));
            let want = lc.get(bounds.iter().position(|y| *y == b).unwrap_or(0)).cloned().unwrap_or_default();
            let got = match &x { Ok(Some((l, c))) => format!("{},{}", l, c), Ok(None) => "N".to_string(), Err(_) => "P".to_string() };
            if got != want {
                fails.push(format!("query order matters: line/col at offset {} is {} when asked in descending order, {} in ascending order", b, got, want));
                break;
            }
        }
    }
    // the cache a lexer built by `LRNonStreamingLexerDef::lexer` carries — also when lexing stops early
    // (no rule matches, a rule without token id, a pop from an empty state stack, an unknown state)
    {
        use lrlex::{LRNonStreamingLexerDef, LexerDef};
        use lrpar::NonStreamingLexer;
        for (li, lsrc) in LEXERS.iter().enumerate() {
            let def = match LRNonStreamingLexerDef::<DefaultLexerTypes<u32>>::from_str(lsrc) {
                Ok(mut d) => {
                    // ids for every rule but the one called NOID
                    let map: std::collections::HashMap<&str, u32> = [("A", 0u32), ("B", 1), ("NL", 2), ("E", 3), ("POP", 4)].into_iter().collect();
                    let _ = d.set_rule_ids(&map);
                    d
                }
                Err(_) => continue,
            };
            let r = guarded(std::panic::AssertUnwindSafe(|| {
                let lx = def.lexer(&s);
                let mut bad = None;
                for (i, &b1) in bounds.iter().enumerate() {
                    // every boundary as an empty span, and a few wider ones
                    for &b2 in [b1, *bounds.get(i + 1).unwrap_or(&b1), len].iter() {
                        if b2 < b1 {
                            continue;
                        }
                        let got = lx.line_col(Span::new(b1, b2));
                        let want = (nlc.byte_to_line_num_and_col_num(&s, b1), nlc.byte_to_line_num_and_col_num(&s, b2));
                        if (Some(got.0), Some(got.1)) != want {
                            bad = Some(format!("lexer {} built by lexerdef.lexer(): line_col({},{}) = {:?}, the cache of the whole text gives {:?}", li, b1, b2, got, want));
                        }
                        let t = lx.span_lines_str(Span::new(b1, b2));
                        let st = t.as_ptr() as usize - s.as_ptr() as usize;
                        let w = nlc.span_line_bytes(Span::new(b1, b2));
                        if (st, st + t.len()) != w {
                            bad = Some(format!("lexer {} built by lexerdef.lexer(): span_lines_str({},{}) = {:?}, span_line_bytes of the whole text = {:?}", li, b1, b2, (st, st + t.len()), w));
                        }
                    }
                }
                bad
            }));
            match r {
                Ok(None) => {}
                Ok(Some(e)) => fails.push(e),
                Err(e) => fails.push(format!("lexer {} built by lexerdef.lexer(): line_col/span_lines_str panicked: {}", li, e)),
            }
        }
    }
    // error pretty-printing (`lrpar::diagnostics::SpannedDiagnosticFormatter`, behind `format_error`,
    // `format_warning`, `format_conflicts` of the builders and nimbleparse) reports these positions:
    // the `path:line:col` header, and the numbered source lines with the span underlined
    {
        use lrpar::diagnostics::SpannedDiagnosticFormatter;
        let path = std::path::Path::new("src.y");
        let fmt = SpannedDiagnosticFormatter::new(&s, path);
        // (a) the header, for every boundary: line and column are the cache's
        for &b1 in &bounds {
            let b2 = *bounds.iter().find(|b| **b > b1).unwrap_or(&b1);
            let got = guarded(std::panic::AssertUnwindSafe(|| fmt.file_location_msg("m", Some(Span::new(b1, b2)))));
            let want = nlc.byte_to_line_num_and_col_num(&s, b1).map(|(l, c)| format!("m at src.y:{}:{}", l, c));
            match (got, want) {
                (Ok(g), Some(w)) if g == w => {}
                (Ok(_), None) => {}
                (g, w) => {
                    fails.push(format!("pretty-printer header for the span starting at offset {} is {:?}, the position is {:?}", b1, g, w));
                    break;
                }
            }
        }
        // (b) the underlined source lines, for texts whose characters are all one display cell wide and
        // spans that neither start nor end on a line terminator: row `N| text` per covered line with its
        // line number, then a row of blanks up to the span's first cell on that line and one mark per
        // cell of the span on that line
        let plain = text.iter().all(|c| *c == '\n' || *c == '\u{e9}' || (*c >= ' ' && *c <= '~'));
        if plain && len > 0 {
            let starts: Vec<usize> = std::iter::once(0).chain(s.char_indices().filter(|(_, c)| *c == '\n').map(|(i, _)| i + 1)).collect();
            let line_of = |b: usize| starts.iter().rposition(|st| *st <= b).unwrap_or(0);
            let line_end = |l: usize| if l + 1 < starts.len() { starts[l + 1] - 1 } else { len };
            let nchars = |a: usize, b: usize| s[a..b].chars().count();
            let mut checked = 0u32;
            'spans: for (i, &b1) in bounds.iter().enumerate() {
                if b1 >= len || s.as_bytes()[b1] == b'\n' {
                    continue;
                }
                for step in [1usize, 3, 9, 17, 40] {
                    let b2 = *bounds.get(i + step).unwrap_or(&len);
                    if b2 <= b1 || s.as_bytes()[b2 - 1] == b'\n' {
                        continue;
                    }
                    let (l1, l2) = (line_of(b1), line_of(b2 - 1));
                    let mut want = String::new();
                    for l in l1..=l2 {
                        let (ls, le) = (starts[l], line_end(l));
                        let (a, b) = (b1.max(ls), b2.min(le));
                        let num = (l + 1).to_string();
                        want.push_str(&format!("{}| {}\n", num, &s[ls..le]));
                        want.push_str(&" ".repeat(num.len() + 2 + nchars(ls, a)));
                        want.push_str(&"^".repeat(nchars(a, b.max(a)).max(1)));
                        want.push_str(if l == l2 { " msg" } else { "\n" });
                    }
                    let got = guarded(std::panic::AssertUnwindSafe(|| fmt.underline_span_with_text(Span::new(b1, b2), "msg".to_string(), '^')));
                    checked += 1;
                    if got.as_ref().ok() != Some(&want) {
                        fails.push(format!("pretty-printer marks the span {}..{} (lines {}..{}) as {:?}; its lines and columns are {:?}", b1, b2, l1 + 1, l2 + 1, got, want));
                        break 'spans;
                    }
                }
            }
            let _ = checked;
        }
    }
    let mut sp = Vec::new();
    // the same cache behind the lexer API that error reporting uses
    let lexer: LRNonStreamingLexer<DefaultLexerTypes<u32>> =
        LRNonStreamingLexer::new(&s, vec![], NewlineCache::from_iter(vec![s.as_str()]));
    for &b1 in &bounds {
        for &b2 in &bounds {
            if b1 > b2 {
                continue;
            }
            let r = guarded(std::panic::AssertUnwindSafe(|| nlc.span_line_bytes(Span::new(b1, b2))));
            match r {
                Ok((st, en)) => sp.push(format!("{},{}", st, en)),
                Err(_) => sp.push("P".to_string()),
            }
            // glue: span_lines_str must be exactly that slice, line_col exactly the two lookups
            let g = guarded(std::panic::AssertUnwindSafe(|| {
                let t = lexer.span_lines_str(Span::new(b1, b2));
                let st = t.as_ptr() as usize - s.as_ptr() as usize;
                (st, st + t.len())
            }));
            match (&r, &g) {
                (Ok(a), Ok(b)) if a == b => {}
                (Err(_), Err(_)) => {}
                _ => fails.push(format!("span_lines_str({},{}) = {:?} but span_line_bytes = {:?}", b1, b2, g, r)),
            }
            let lcg = guarded(std::panic::AssertUnwindSafe(|| lexer.line_col(Span::new(b1, b2))));
            let want = (
                nlc.byte_to_line_num_and_col_num(&s, b1),
                nlc.byte_to_line_num_and_col_num(&s, b2),
            );
            match (lcg, want) {
                (Ok((x, y)), (Some(a), Some(b))) if x == a && y == b => {}
                (l, w) => fails.push(format!("line_col({},{}) = {:?} but lookups give {:?}", b1, b2, l, w)),
            }
        }
    }
    // the pretty-printer on the spans of the request: header and underlined lines, exactly as printed
    let mut pp = Vec::new();
    {
        use lrpar::diagnostics::SpannedDiagnosticFormatter;
        let path = std::path::Path::new("src.y");
        let fmt = SpannedDiagnosticFormatter::new(&s, path);
        for &(b1, b2, plen) in spans {
            let prefix = ".".repeat(plen);
            let h = guarded(std::panic::AssertUnwindSafe(|| fmt.file_location_msg("msg", Some(Span::new(b1, b2)))));
            let b = guarded(std::panic::AssertUnwindSafe(|| fmt.prefixed_underline_span_with_text(&prefix, Span::new(b1, b2), "msg".to_string(), '^')));
            if plen == 0 {
                // `underline_span_with_text` is the same function with an empty prefix
                let u = guarded(std::panic::AssertUnwindSafe(|| fmt.underline_span_with_text(Span::new(b1, b2), "msg".to_string(), '^')));
                if u.as_ref().ok() != b.as_ref().ok() {
                    fails.push(format!("underline_span_with_text({},{}) = {:?} but prefixed_underline_span_with_text(\"\") = {:?}", b1, b2, u, b));
                }
            }
            pp.push(format!("{};{}", enc(&h), enc(&b)));
        }
    }
    let pps = if spans.is_empty() { String::new() } else { format!(" pp {}", pp.join(" ")) };
    (format!("ln {} lc {} sp {}{}", ln.join(" "), lc.join(" "), sp.join(" "), pps), fails)
}

fn emit(out: &mut Out, text: &[char], chunks: &[usize], kind: &str) {
    emit_with(out, text, chunks, kind, None)
}

fn emit_with(out: &mut Out, text: &[char], chunks: &[usize], kind: &str, spans: Option<Vec<(usize, usize, usize)>>) {
    let id = out.id();
    let spans = spans.unwrap_or_else(|| pp_spans(text));
    out.case("C19", id, &payload(text, chunks, &spans));
    let (ans, fails) = answer(text, chunks, &spans);
    out.add("pretty_printed_spans", spans.len() as u64);
    out.imp(id, "I", &ans);
    if fails.is_empty() {
        out.imp(id, "H", "ok");
    } else {
        out.imp(id, "H", &format!("fail {}", fails[0]));
    }
    let s: String = text.iter().collect();
    out.imp(id, "D", &format!("text={:?} chunks={:?}", s, chunks));
    out.count(&format!("kind.{}", kind));
    out.count(&format!("len.{}", (text.len() / 4) * 4));
    out.count(&format!("lines.{}", text.iter().filter(|c| **c == '\n').count().min(6)));
    if text.iter().any(|c| c.len_utf8() > 1) {
        out.count("has_multibyte");
    }
    if s.contains("\r\n") {
        out.count("has_crlf");
    }
    if s.ends_with('\n') {
        out.count("ends_with_newline");
    }
    out.add("queries", ans.split_whitespace().count() as u64);
    if out.next_id % 97 == 1 {
        out.sample(format!("text={:?} chunks={:?}", s, chunks));
    }
}

fn random_chunks(rng: &mut Rng, n: usize) -> Vec<usize> {
    let k = rng.range(1, 3);
    let mut cuts: Vec<usize> = (0..k - 1).map(|_| rng.range(0, n)).collect();
    cuts.sort();
    let mut lens = Vec::new();
    let mut prev = 0;
    for c in cuts {
        lens.push(c - prev);
        prev = c;
    }
    lens.push(n - prev);
    lens
}

pub fn run(a: &Args) {
    let mut out = Out::new(&a.out);
    if let Some(rp) = &a.replay {
        let txt = std::fs::read_to_string(rp).unwrap_or_default();
        for line in txt.lines() {
            let mut it = line.splitn(3, ' ');
            if it.next() != Some("C19") {
                continue;
            }
            let _ = it.next();
            if let Some((text, chunks, spans)) = it.next().and_then(parse_payload) {
                emit_with(&mut out, &text, &chunks, "replay", spans);
            }
        }
        out.finish(&a.out);
        return;
    }
    // corpus: minimised past failures and the tests' own examples
    for t in [
        "ab\ncd\nef", "ab\n", "ab\ncd", "a b c\n", "\na\na a\na a a\na a a a", " a\n\u{2764} b", "a\r\nb", "\r\n\n", "", "\n", "\n\n",
        // the pretty-printer: the crate's own tests, and the two defects repaired in this round (an empty
        // span on an empty line printed nothing; a span from inside a CR LF pair panicked)
        "\naaaaaabbb\nbbb\nbbbb\n", "\naaaaaabbb bbb bbbb\n", "\" \u{1F980}\u{1F980}\u{1F980} \n \u{1F980}\u{1F980}\u{1F980} \"",
        "\n\u{1F980}\u{1F99E}\n\u{1F980}\n\u{1F980}\u{1F99E}", "%start A\n", "a\n\nb", "a\r\nb\r\n", "a\r\n\r\nb", "x\u{2764}\u{FE0F}y\nz",
    ] {
        let text: Vec<char> = t.chars().collect();
        emit(&mut out, &text, &[text.len()], "corpus");
    }
    // small-scope exhaustive: every text over SMALL up to length k; every 1-, 2-, 3-piece chunking for
    // lengths <= 3, one random chunking beyond
    let k = if a.thorough { 6 } else { 4 };
    let mut rng = Rng::for_case(a.seed, 19, 0);
    for n in 0..=k {
        let total = SMALL.len().pow(n as u32);
        for code in 0..total {
            let mut c = code;
            let mut text = Vec::new();
            for _ in 0..n {
                text.push(SMALL[c % SMALL.len()]);
                c /= SMALL.len();
            }
            if n <= 3 {
                for i in 0..=n {
                    for j in i..=n {
                        emit(&mut out, &text, &[i, j - i, n - j], "exhaustive");
                    }
                }
            } else {
                let ch = random_chunks(&mut rng, n);
                emit(&mut out, &text, &ch, "exhaustive");
            }
        }
    }
    // texts with many lines (more line starts than any small-size shortcut of the look-up could cover)
    for case in 0..(if a.thorough { 40 } else { 6 }) {
        let mut rng = Rng::for_case(a.seed, 19, 1_000_000 + case as u64);
        let lines = rng.range(33, 70);
        let mut text: Vec<char> = Vec::new();
        for _ in 0..lines {
            for _ in 0..rng.below(4) {
                text.push(*rng.pick(&['a', 'b', '\u{e9}', '\r']));
            }
            text.push('\n');
        }
        if rng.chance(1, 2) {
            text.push('z');
        }
        let n = text.len();
        let ch = random_chunks(&mut rng, n);
        emit(&mut out, &text, &ch, "many_lines");
    }
    // plain texts of 9 to 14 and of 98 to 104 lines: spans that cross the line whose number has one more
    // digit (the gutter of the pretty-printed lines widens inside the span)
    for case in 0..(if a.thorough { 30 } else { 6 }) {
        let mut rng = Rng::for_case(a.seed, 19, 2_000_000 + case as u64);
        let lines = if case % 3 == 2 { rng.range(98, 104) } else { rng.range(9, 14) };
        let mut text: Vec<char> = Vec::new();
        for _ in 0..lines {
            for _ in 0..rng.range(1, 4) {
                text.push(*rng.pick(&['a', 'b', ' ', '\u{e9}', 'x']));
            }
            text.push('\n');
        }
        if rng.chance(1, 2) {
            text.push('z');
        }
        let n = text.len();
        let ch = random_chunks(&mut rng, n);
        emit(&mut out, &text, &ch, "plain_lines");
    }
    // texts with characters that are not one cell wide (wide, zero-width, emoji sequences whose width
    // is not the sum of their characters' widths): the pretty-printer's indentation and underline
    for case in 0..(if a.thorough { 600 } else { 60 }) {
        let mut rng = Rng::for_case(a.seed, 19, 3_000_000 + case as u64);
        let mut text: Vec<char> = Vec::new();
        for _ in 0..rng.range(1, 9) {
            if rng.chance(1, 3) {
                text.extend(rng.pick(WIDE_SEQ).chars());
            } else {
                text.push(*rng.pick(WIDE));
            }
        }
        let n = text.len();
        let ch = random_chunks(&mut rng, n);
        emit(&mut out, &text, &ch, "wide");
    }
    // random texts
    let (count, maxlen) = if a.thorough { (3000, 40) } else { (300, 18) };
    for case in 0..count {
        let mut rng = Rng::for_case(a.seed, 19, case as u64 + 1);
        let n = rng.range(0, maxlen);
        let text: Vec<char> = (0..n).map(|_| *rng.pick(ALPHA)).collect();
        let ch = random_chunks(&mut rng, n);
        emit(&mut out, &text, &ch, "random");
    }
    out.finish(&a.out);
}
