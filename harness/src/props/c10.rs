//! C10: a `YaccGrammar` is a faithful, well-formed image of its `.y` source.
//!
//! Per case: an abstract grammar (gen/yacc.rs) is rendered with a random layout; the renderer also
//! yields the AST a faithful parser must build (`OAst`, the oracle of the text layer). The real code
//! parses the text (`ASTWithValidityInfo::new`, `YaccGrammar::new`) for the grammar's YaccKind.
//!   H: the real AST equals the oracle AST field by field; every accessor of `YaccGrammar` answers on
//!      every index in range without panicking; spans re-sliced from the text spell the defining
//!      text; name lookups, iterators, rule_to_prods/prod_to_rule agree; Original's three action kinds
//!      give the same grammar.
//!   I: every accessor's answer, in the format of the Lean driver's `M`/`S` lines, which are
//!      `buildGrammar` / `specGrammar` applied to the oracle AST.
//! Request `0 kind <ast> <extras> <text>` is self-contained (replayable); request `1 kind <text> <plain>`
//! is a corpus witness: a text and the same text with its comments removed must give the same grammar;
//! request `2 inc <layout text>` ties the model of `parse_ws` to the real skipper through whole parses;
//! request `3 kind <pre> <post> <rules>` (text -> AST stage, `run_rt`): the abstract description of the
//! rules section of a generated grammar that falls inside the hypotheses of the Lean theorem
//! `C10.parse_rules_roundtrip`, rendered canonically after the grammar's declarations; `I` is the real
//! parser's AST (start, rules, productions, token set, all spans) on that text, to be equal to the
//! model's (`M`) and to the image of the description computed without parsing (`S`);
//! request `4 kind <decls> <rules> <programs>` (`run_file`): the same for the WHOLE file — declarations,
//! rules and programs all described abstractly and rendered canonically (hypotheses of
//! `C10.parse_roundtrip_partial`); `I` is every field of the real `GrammarAST`.
use crate::gen::yacc::{random_ygrammar, OAst, OProd, ORule, Sp, YDecl, YGrammar, YKind, YS};
use crate::out::{guarded, Out};
use crate::rng::Rng;
use crate::Args;
use cfgrammar::yacc::ast::{ASTWithValidityInfo, GrammarAST, Symbol as ASymbol};
use cfgrammar::yacc::{AssocKind, Precedence, YaccGrammar, YaccKind, YaccOriginalActionKind};
use cfgrammar::{PIdx, RIdx, Span, Spanned, Symbol, TIdx};
use std::panic::AssertUnwindSafe;

fn kcode(k: YKind) -> u64 {
    match k {
        YKind::Orig(s) => s as u64,
        YKind::Grmtools => 3,
        YKind::Eco => 4,
    }
}

fn kind_of(c: u64) -> YKind {
    match c {
        0..=2 => YKind::Orig(c as u8),
        3 => YKind::Grmtools,
        _ => YKind::Eco,
    }
}

fn yk(k: YKind) -> YaccKind {
    match k {
        YKind::Orig(0) => YaccKind::Original(YaccOriginalActionKind::GenericParseTree),
        YKind::Orig(1) => YaccKind::Original(YaccOriginalActionKind::NoAction),
        YKind::Orig(_) => YaccKind::Original(YaccOriginalActionKind::UserAction),
        YKind::Grmtools => YaccKind::Grmtools,
        YKind::Eco => YaccKind::Eco,
    }
}

// ---- wire format -----------------------------------------------------------------------------------

fn e_str(v: &mut Vec<u64>, s: &str) {
    v.push(s.chars().count() as u64);
    v.extend(s.chars().map(|c| c as u64));
}
fn e_sp(v: &mut Vec<u64>, s: Sp) {
    v.push(s.0 as u64);
    v.push(s.1 as u64);
}
fn e_ostr(v: &mut Vec<u64>, s: &Option<String>) {
    match s {
        None => v.push(0),
        Some(s) => {
            v.push(1);
            e_str(v, s);
        }
    }
}
fn e_onat(v: &mut Vec<u64>, s: Option<usize>) {
    match s {
        None => v.push(0),
        Some(n) => {
            v.push(1);
            v.push(n as u64);
        }
    }
}
fn e_oset(v: &mut Vec<u64>, s: &Option<Vec<String>>) {
    match s {
        None => v.push(0),
        Some(l) => {
            v.push(1);
            v.push(l.len() as u64);
            for x in l {
                e_str(v, x);
            }
        }
    }
}

fn encode(kind: YKind, o: &OAst, text: &str) -> String {
    let mut v: Vec<u64> = vec![0, kcode(kind)];
    match &o.start {
        None => v.push(0),
        Some((s, sp)) => {
            v.push(1);
            e_str(&mut v, s);
            e_sp(&mut v, *sp);
        }
    }
    v.push(o.rules.len() as u64);
    for r in &o.rules {
        e_str(&mut v, &r.name);
        e_sp(&mut v, r.span);
        v.push(r.pidxs.len() as u64);
        v.extend(r.pidxs.iter().map(|p| *p as u64));
        e_ostr(&mut v, &r.actiont);
    }
    v.push(o.prods.len() as u64);
    for p in &o.prods {
        v.push(p.syms.len() as u64);
        for (t, n, sp) in &p.syms {
            v.push(*t as u64);
            e_str(&mut v, n);
            e_sp(&mut v, *sp);
        }
        e_ostr(&mut v, &p.prec);
        match &p.action {
            None => v.push(0),
            Some((s, sp)) => {
                v.push(1);
                e_str(&mut v, s);
                e_sp(&mut v, *sp);
            }
        }
        e_sp(&mut v, p.span);
    }
    v.push(o.tokens.len() as u64);
    for (n, sp) in &o.tokens {
        e_str(&mut v, n);
        e_sp(&mut v, *sp);
    }
    v.push(o.precs.len() as u64);
    for (n, l, k) in &o.precs {
        e_str(&mut v, n);
        v.push(*l);
        v.push(*k as u64);
    }
    e_oset(&mut v, &o.avoid);
    e_oset(&mut v, &o.implicit);
    v.push(o.epp.len() as u64);
    for (k, x) in &o.epp {
        e_str(&mut v, k);
        e_str(&mut v, x);
    }
    e_onat(&mut v, o.expect);
    e_onat(&mut v, o.expectrr);
    // extras (not read by the Lean side)
    for p in &o.prods {
        v.push(p.def_end as u64);
    }
    match &o.parse_param {
        None => v.push(0),
        Some((a, b)) => {
            v.push(1);
            e_str(&mut v, a);
            e_str(&mut v, b);
        }
    }
    e_ostr(&mut v, &o.programs);
    e_str(&mut v, text);
    crate::out::join(&v)
}

struct Cur<'a> {
    v: &'a [u64],
    i: usize,
}
impl<'a> Cur<'a> {
    fn nat(&mut self) -> Option<u64> {
        let x = *self.v.get(self.i)?;
        self.i += 1;
        Some(x)
    }
    fn us(&mut self) -> Option<usize> {
        self.nat().map(|x| x as usize)
    }
    fn str(&mut self) -> Option<String> {
        let n = self.us()?;
        let mut s = String::new();
        for _ in 0..n {
            s.push(char::from_u32(self.nat()? as u32)?);
        }
        Some(s)
    }
    fn sp(&mut self) -> Option<Sp> {
        Some((self.us()?, self.us()?))
    }
    fn ostr(&mut self) -> Option<Option<String>> {
        Some(if self.nat()? == 0 { None } else { Some(self.str()?) })
    }
    fn oset(&mut self) -> Option<Option<Vec<String>>> {
        if self.nat()? == 0 {
            return Some(None);
        }
        let n = self.us()?;
        let mut l = Vec::new();
        for _ in 0..n {
            l.push(self.str()?);
        }
        Some(Some(l))
    }
}

fn decode(v: &[u64]) -> Option<(YKind, OAst, String)> {
    let mut c = Cur { v, i: 0 };
    let kind = kind_of(c.nat()?);
    let mut o = OAst::default();
    if c.nat()? == 1 {
        o.start = Some((c.str()?, c.sp()?));
    }
    for _ in 0..c.us()? {
        let name = c.str()?;
        let span = c.sp()?;
        let k = c.us()?;
        let mut pidxs = Vec::new();
        for _ in 0..k {
            pidxs.push(c.us()?);
        }
        let actiont = c.ostr()?;
        o.rules.push(ORule { name, span, pidxs, actiont });
    }
    for _ in 0..c.us()? {
        let k = c.us()?;
        let mut syms = Vec::new();
        for _ in 0..k {
            syms.push((c.nat()? == 1, c.str()?, c.sp()?));
        }
        let prec = c.ostr()?;
        let action = if c.nat()? == 1 { Some((c.str()?, c.sp()?)) } else { None };
        let span = c.sp()?;
        o.prods.push(OProd { syms, prec, action, span, def_end: 0 });
    }
    for _ in 0..c.us()? {
        o.tokens.push((c.str()?, c.sp()?));
    }
    for _ in 0..c.us()? {
        o.precs.push((c.str()?, c.nat()?, c.nat()? as u8));
    }
    o.avoid = c.oset()?;
    o.implicit = c.oset()?;
    for _ in 0..c.us()? {
        o.epp.push((c.str()?, c.str()?));
    }
    if c.nat()? == 1 {
        o.expect = Some(c.us()?);
    }
    if c.nat()? == 1 {
        o.expectrr = Some(c.us()?);
    }
    for p in o.prods.iter_mut() {
        p.def_end = c.us()?;
    }
    if c.nat()? == 1 {
        o.parse_param = Some((c.str()?, c.str()?));
    }
    o.programs = c.ostr()?;
    let text = c.str()?;
    Some((kind, o, text))
}

// ---- the real AST in oracle form ---------------------------------------------------------------------

fn sp_of(s: Span) -> Sp {
    (s.start(), s.end())
}

fn akind(k: AssocKind) -> u8 {
    match k {
        AssocKind::Left => 0,
        AssocKind::Right => 1,
        AssocKind::Nonassoc => 2,
    }
}

fn from_real(a: &GrammarAST) -> OAst {
    let mut o = OAst::default();
    o.start = a.start.as_ref().map(|(s, sp)| (s.clone(), sp_of(*sp)));
    for (k, r) in a.rules.iter() {
        let _ = k;
        o.rules.push(ORule { name: r.name.0.clone(), span: sp_of(r.name.1), pidxs: r.pidxs.clone(), actiont: r.actiont.clone() });
    }
    for p in &a.prods {
        o.prods.push(OProd {
            syms: p
                .symbols
                .iter()
                .map(|s| match s {
                    ASymbol::Rule(n, sp) => (false, n.clone(), sp_of(*sp)),
                    ASymbol::Token(n, sp) => (true, n.clone(), sp_of(*sp)),
                })
                .collect(),
            prec: p.precedence.clone(),
            action: p.action.as_ref().map(|(s, sp)| (s.clone(), sp_of(*sp))),
            span: sp_of(p.prod_span),
            def_end: 0,
        });
    }
    for (i, t) in a.tokens.iter().enumerate() {
        o.tokens.push((t.clone(), a.spans.get(i).map_or((usize::MAX, usize::MAX), |s| sp_of(*s))));
    }
    for (k, (p, _)) in a.precs.iter() {
        o.precs.push((k.clone(), p.level, akind(p.kind)));
    }
    o.avoid = a.avoid_insert.as_ref().map(|m| m.keys().cloned().collect());
    o.implicit = a.implicit_tokens.as_ref().map(|m| m.keys().cloned().collect());
    for (k, (_, (v, _))) in a.epp.iter() {
        o.epp.push((k.clone(), v.clone()));
    }
    o.expect = a.expect.map(|(n, _)| n);
    o.expectrr = a.expectrr.map(|(n, _)| n);
    o.parse_param = a.parse_param.clone();
    o.programs = a.programs.clone();
    o
}

fn sorted<T: Clone + Ord>(v: &[T]) -> Vec<T> {
    let mut v = v.to_vec();
    v.sort();
    v
}

/// first difference between what the parser built and what the text defines
fn ast_diff(real: &OAst, want: &OAst) -> Option<String> {
    if real.start != want.start {
        return Some(format!("start {:?}, source defines {:?}", real.start, want.start));
    }
    if real.rules.len() != want.rules.len() {
        return Some(format!("{} rules, source defines {}", real.rules.len(), want.rules.len()));
    }
    for (a, b) in real.rules.iter().zip(&want.rules) {
        if a != b {
            return Some(format!("rule {:?}, source defines {:?}", a, b));
        }
    }
    if real.prods.len() != want.prods.len() {
        return Some(format!("{} productions, source defines {}", real.prods.len(), want.prods.len()));
    }
    for (i, (a, b)) in real.prods.iter().zip(&want.prods).enumerate() {
        if a.syms != b.syms || a.prec != b.prec || a.action.as_ref().map(|x| &x.0) != b.action.as_ref().map(|x| &x.0) || a.span != b.span {
            return Some(format!("production {}: {:?}, source defines {:?}", i, a, b));
        }
    }
    if real.tokens != want.tokens {
        return Some(format!("tokens {:?}, source defines {:?}", real.tokens, want.tokens));
    }
    if sorted(&real.precs) != sorted(&want.precs) {
        return Some(format!("precedences {:?}, source defines {:?}", sorted(&real.precs), sorted(&want.precs)));
    }
    let so = |x: &Option<Vec<String>>| x.as_ref().map(|v| sorted(v));
    if so(&real.avoid) != so(&want.avoid) {
        return Some(format!("avoid_insert {:?}, source defines {:?}", real.avoid, want.avoid));
    }
    if so(&real.implicit) != so(&want.implicit) {
        return Some(format!("implicit_tokens {:?}, source defines {:?}", real.implicit, want.implicit));
    }
    if sorted(&real.epp) != sorted(&want.epp) {
        return Some(format!("epp {:?}, source defines {:?}", real.epp, want.epp));
    }
    if real.expect != want.expect || real.expectrr != want.expectrr {
        return Some(format!("expect {:?}/{:?}, source defines {:?}/{:?}", real.expect, real.expectrr, want.expect, want.expectrr));
    }
    if real.parse_param != want.parse_param {
        return Some(format!("parse_param {:?}, source defines {:?}", real.parse_param, want.parse_param));
    }
    if real.programs != want.programs {
        return Some(format!("programs {:?}, source defines {:?}", real.programs, want.programs));
    }
    None
}

// ---- the grammar object through its public accessors ---------------------------------------------------

fn f_str(s: &str) -> String {
    format!("s{}", s.chars().map(|c| (c as u32).to_string()).collect::<Vec<_>>().join("."))
}
fn f_prec(p: Option<Precedence>) -> String {
    match p {
        None => "N".to_string(),
        Some(p) => format!("p{},{}", p.level, akind(p.kind)),
    }
}
fn f_span(s: Span, spans: bool) -> String {
    if spans {
        format!("{}-{}", s.start(), s.end())
    } else {
        "_".to_string()
    }
}
fn x<T>(r: Result<T, String>, f: impl FnOnce(T) -> String, fails: &mut Vec<String>, what: &str) -> String {
    match r {
        Ok(v) => f(v),
        Err(e) => {
            fails.push(format!("accessor-panic {} ({})", what, e.replace('\n', " ")));
            "X".to_string()
        }
    }
}

/// name-level views compared with what the property prescribes (`Spp`, `Stk` of the Lean driver):
/// the multiset of user productions as (rule name, symbol names, precedence), and the named tokens in
/// index order with precedence and `%avoid_insert` flag
fn spec_views(g: &YaccGrammar<u32>) -> Result<(String, String), String> {
    guarded(AssertUnwindSafe(|| {
        let mut items = Vec::new();
        for p in g.iter_pidxs() {
            if p == g.start_prod() {
                continue;
            }
            let syms: Vec<String> = g
                .prod(p)
                .iter()
                .map(|s| match s {
                    Symbol::Token(t) => format!("t{}", f_str(g.token_name(*t).unwrap_or(""))),
                    Symbol::Rule(r) => format!("r{}", f_str(g.rule_name_str(*r))),
                })
                .collect();
            items.push(format!("{} {} {} {}", f_str(g.rule_name_str(g.prod_to_rule(p))), syms.len(), syms.join(" "), f_prec(g.prod_precedence(p))));
        }
        items.sort();
        let toks: Vec<String> = g
            .iter_tidxs()
            .filter(|t| *t != g.eof_token_idx())
            .map(|t| format!("{} {} {}", f_str(g.token_name(t).unwrap_or("")), f_prec(g.token_precedence(t)), g.avoid_insert(t) as u8))
            .collect();
        (items.join(";"), toks.join(";"))
    }))
}

/// every accessor on every index in range; a panic is recorded and shown as `X`
fn dump(g: &YaccGrammar<u32>, spans: bool, fails: &mut Vec<String>) -> String {
    let nr = usize::from(g.rules_len());
    let nt = usize::from(g.tokens_len());
    let np = usize::from(g.prods_len());
    let mut out = vec![format!(
        "nr {} nt {} np {} eof {} sp {} sr {} ir {} ex {} err {}",
        nr,
        nt,
        np,
        usize::from(g.eof_token_idx()),
        usize::from(g.start_prod()),
        x(guarded(AssertUnwindSafe(|| g.start_rule_idx())), |r| usize::from(r).to_string(), fails, "start_rule_idx()"),
        g.implicit_rule().map_or("N".to_string(), |r| usize::from(r).to_string()),
        g.expect().map_or("N".to_string(), |n| n.to_string()),
        g.expectrr().map_or("N".to_string(), |n| n.to_string()),
    )];
    for r in 0..nr {
        let ri = RIdx(r as u32);
        out.push(format!(
            "R {} {} at {} ps {}",
            x(guarded(AssertUnwindSafe(|| g.rule_name_str(ri).to_string())), |s| f_str(&s), fails, &format!("rule_name_str({})", r)),
            x(guarded(AssertUnwindSafe(|| g.rule_name_span(ri))), |s| f_span(s, spans), fails, &format!("rule_name_span({})", r)),
            x(
                guarded(AssertUnwindSafe(|| g.actiontype(ri).clone())),
                |s| s.map_or("N".to_string(), |s| f_str(&s)),
                fails,
                &format!("actiontype({})", r)
            ),
            x(
                guarded(AssertUnwindSafe(|| g.rule_to_prods(ri).to_vec())),
                |l| {
                    let mut v = vec![l.len().to_string()];
                    v.extend(l.iter().map(|p| usize::from(*p).to_string()));
                    v.join(" ")
                },
                fails,
                &format!("rule_to_prods({})", r)
            ),
        ));
    }
    for t in 0..nt {
        let ti = TIdx(t as u32);
        out.push(format!(
            "T {} {} {} {} {}",
            x(
                guarded(AssertUnwindSafe(|| g.token_name(ti).map(|s| s.to_string()))),
                |s| s.map_or("N".to_string(), |s| f_str(&s)),
                fails,
                &format!("token_name({})", t)
            ),
            x(
                guarded(AssertUnwindSafe(|| g.token_span(ti))),
                |s| s.map_or("N".to_string(), |s| f_span(s, spans)),
                fails,
                &format!("token_span({})", t)
            ),
            x(guarded(AssertUnwindSafe(|| g.token_precedence(ti))), f_prec, fails, &format!("token_precedence({})", t)),
            x(
                guarded(AssertUnwindSafe(|| g.token_epp(ti).map(|s| s.to_string()))),
                |s| s.map_or("N".to_string(), |s| f_str(&s)),
                fails,
                &format!("token_epp({})", t)
            ),
            x(guarded(AssertUnwindSafe(|| g.avoid_insert(ti))), |b| (b as u8).to_string(), fails, &format!("avoid_insert({})", t)),
        ));
    }
    for p in 0..np {
        let pi = PIdx(p as u32);
        let special = if pi == g.start_prod() { " = start_prod()" } else { "" };
        out.push(format!(
            "P {} {} {} {} {} {}",
            x(guarded(AssertUnwindSafe(|| g.prod_to_rule(pi))), |r| usize::from(r).to_string(), fails, &format!("prod_to_rule({})", p)),
            x(
                guarded(AssertUnwindSafe(|| (g.prod(pi).to_vec(), usize::from(g.prod_len(pi))))),
                |(l, n)| {
                    let mut v = vec![n.to_string()];
                    v.extend(l.iter().map(|s| match s {
                        Symbol::Token(t) => format!("t{}", usize::from(*t)),
                        Symbol::Rule(r) => format!("r{}", usize::from(*r)),
                    }));
                    v.join(" ")
                },
                fails,
                &format!("prod({})", p)
            ),
            x(guarded(AssertUnwindSafe(|| g.prod_precedence(pi))), f_prec, fails, &format!("prod_precedence({})", p)),
            x(
                guarded(AssertUnwindSafe(|| g.action(pi).clone())),
                |s| s.map_or("N".to_string(), |s| f_str(&s)),
                fails,
                &format!("action({}{})", p, special)
            ),
            x(
                guarded(AssertUnwindSafe(|| g.action_span(pi))),
                |s| s.map_or("N".to_string(), |_| "A".to_string()),
                fails,
                &format!("action_span({}{})", p, special)
            ),
            x(guarded(AssertUnwindSafe(|| g.prod_span(pi))), |s| f_span(s, spans), fails, &format!("prod_span({}{})", p, special)),
        ));
    }
    out.join(" ")
}

fn slice(text: &str, s: Span) -> Option<&str> {
    text.get(s.start()..s.end())
}

/// drop trailing blanks, line ends and comments (a comment never contains a quote-delimited token
/// boundary issue here: the defining text of a production ends in a quote, a name or a keyword)
fn trim_layout_end<'a>(mut t: &'a str, def: &str) -> &'a str {
    // the defining text is a prefix of the slice; what follows must be layout only
    if t.len() >= def.len() && t.is_char_boundary(def.len()) && &t[..def.len()] == def {
        let rest = &t[def.len()..];
        let mut r = rest;
        loop {
            let r0 = r.trim_start_matches(|c| c == ' ' || c == '\t' || c == '\n' || c == '\r');
            if let Some(q) = r0.strip_prefix("//") {
                let e = q.find(|c| c == '\n' || c == '\r').map_or(q.len(), |i| i + 1);
                r = &q[e..];
            } else if let Some(q) = r0.strip_prefix("/*") {
                match q.find("*/") {
                    Some(i) => r = &q[i + 2..],
                    None => break,
                }
            } else {
                r = r0;
                break;
            }
        }
        if r.is_empty() {
            t = &t[..def.len()];
        }
    }
    t
}

/// harness-side verdicts on one built grammar
fn api_checks(g: &YaccGrammar<u32>, text: &str, o: &OAst, fails: &mut Vec<String>) {
    let nr = usize::from(g.rules_len());
    let nt = usize::from(g.tokens_len());
    let np = usize::from(g.prods_len());
    if g.iter_rules().map(usize::from).collect::<Vec<_>>() != (0..nr).collect::<Vec<_>>()
        || g.iter_tidxs().map(usize::from).collect::<Vec<_>>() != (0..nt).collect::<Vec<_>>()
        || g.iter_pidxs().map(usize::from).collect::<Vec<_>>() != (0..np).collect::<Vec<_>>()
    {
        fails.push("iter_rules/iter_tidxs/iter_pidxs are not 0..len".to_string());
    }
    if let Err(e) = crate::gen::grammar::api_consistent(g) {
        fails.push(format!("api-inconsistent {}", e));
    }
    // name lookups
    for r in 0..nr {
        let n = g.rule_name_str(RIdx(r as u32)).to_string();
        if g.rule_idx(&n) != Some(RIdx(r as u32)) {
            fails.push(format!("rule_idx({:?}) = {:?}, rule {} has that name", n, g.rule_idx(&n), r));
        }
    }
    let tm = g.tokens_map();
    let mut named = 0;
    for t in 0..nt {
        if let Some(n) = g.token_name(TIdx(t as u32)) {
            named += 1;
            if g.token_idx(n) != Some(TIdx(t as u32)) || tm.get(n) != Some(&TIdx(t as u32)) {
                fails.push(format!("token_idx/tokens_map({:?}) do not give token {}", n, t));
            }
        }
    }
    if tm.len() != named || named + 1 != nt {
        fails.push(format!("{} named tokens of {}, tokens_map has {}", named, nt, tm.len()));
    }
    // spans spell the defining text
    for r in &o.rules {
        if let Some(ri) = g.rule_idx(&r.name) {
            let sp = g.rule_name_span(ri);
            if slice(text, sp) != Some(r.name.as_str()) {
                fails.push(format!("rule_name_span({}) = {:?} spells {:?}, not the rule's name {:?}", usize::from(ri), sp, slice(text, sp), r.name));
            }
        }
    }
    for (n, _) in &o.tokens {
        if let Some(ti) = g.token_idx(n) {
            match g.token_span(ti) {
                Some(sp) if slice(text, sp) == Some(n.as_str()) => {}
                other => fails.push(format!("token_span({}) = {:?} does not spell the token's name {:?}", usize::from(ti), other, n)),
            }
        }
    }
    for (i, p) in o.prods.iter().enumerate() {
        if i >= np {
            break;
        }
        let pi = PIdx(i as u32);
        if let Ok(sp) = guarded(AssertUnwindSafe(|| g.prod_span(pi))) {
            let def = &text[p.span.0..p.def_end.max(p.span.0)];
            match slice(text, sp) {
                Some(t) if sp.start() == p.span.0 && trim_layout_end(t, def) == def => {}
                other => fails.push(format!("prod_span({}) = {:?} spells {:?}, the production's text is {:?} at {}", i, sp, other, def, p.span.0)),
            }
        }
        if let Ok(asp) = guarded(AssertUnwindSafe(|| g.action_span(pi))) {
            let want = p.action.as_ref().map(|(s, _)| s.as_str());
            let got = asp.and_then(|sp| slice(text, sp));
            if got != want || asp.is_some() != p.action.is_some() {
                // the known deviation: the span starts right after the '{' although the text it is
                // meant to cover starts after the white space that follows the brace
                let shifted = match (asp, &p.action) {
                    (Some(sp), Some((code, (st, _)))) => {
                        sp.end() - sp.start() == code.len()
                            && sp.start() < *st
                            && text.as_bytes().get(sp.start().wrapping_sub(1)) == Some(&b'{')
                            && text[sp.start()..*st].trim().is_empty()
                    }
                    _ => false,
                };
                fails.push(format!(
                    "{} action_span({}) = {:?} spells {:?}, the action code is {:?}",
                    if shifted { "action-span-shifted-by-leading-whitespace" } else { "action-span-wrong" },
                    i,
                    asp,
                    got,
                    want
                ));
            }
        }
    }
    if g.parse_param() != &o.parse_param {
        fails.push(format!("parse_param() = {:?}, source defines {:?}", g.parse_param(), o.parse_param));
    }
    if g.programs() != &o.programs {
        fails.push(format!("programs() = {:?}, source defines {:?}", g.programs(), o.programs));
    }
    if g.parse_generics().is_some() {
        fails.push("parse_generics() is set although the source has no %parse-generics".to_string());
    }
}

fn errs_of(v: &ASTWithValidityInfo) -> String {
    v.errors().iter().map(|e| format!("{} at {:?}", e, e.spans().iter().map(|s| (s.start(), s.end())).collect::<Vec<_>>())).collect::<Vec<_>>().join("; ")
}

fn run_case(out: &mut Out, kind: YKind, want: &OAst, text: &str, tag: &str, descr: &str) {
    let id = out.id();
    let mut fails: Vec<String> = Vec::new();
    let mut want = want.clone();
    let mut i_line = "err".to_string();
    let mut views: Option<(String, String)> = None;
    match guarded(AssertUnwindSafe(|| ASTWithValidityInfo::new(yk(kind), text))) {
        Err(e) => fails.push(format!("parser-panic {}", e)),
        Ok(v) => {
            if !v.is_valid() {
                fails.push(format!("parse-error {}", errs_of(&v)));
            } else if let Some(d) = ast_diff(&from_real(v.ast()), &want) {
                fails.push(format!("ast-differs {}", d));
            }
            match guarded(AssertUnwindSafe(|| YaccGrammar::<u32>::new_from_ast_with_validity_info(&v))) {
                Err(e) => fails.push(format!("build-panic {}", e)),
                Ok(Err(_)) => {}
                Ok(Ok(g)) => {
                    // the iteration order of the implicit-token hash map is a parameter of the model
                    if let (Some(ir), Some(imp)) = (g.implicit_rule(), want.implicit.as_ref()) {
                        let order: Vec<String> = g
                            .rule_to_prods(ir)
                            .iter()
                            .filter_map(|p| match g.prod(*p).first() {
                                Some(Symbol::Token(t)) => g.token_name(*t).map(|s| s.to_string()),
                                _ => None,
                            })
                            .collect();
                        if sorted(&order) == sorted(imp) {
                            want.implicit = Some(order);
                        }
                    }
                    i_line = dump(&g, true, &mut fails);
                    if !matches!(kind, YKind::Eco) {
                        views = spec_views(&g).ok();
                    }
                    api_checks(&g, text, &want, &mut fails);
                    // the `FromStr` entry point (kind given by a `%grmtools` section) builds the same grammar
                    // and its spans index the text the user wrote, section included
                    if id % 3 == 0 {
                        let kname = match kind {
                            YKind::Orig(0) => "Original(GenericParseTree)",
                            YKind::Orig(1) => "Original(NoAction)",
                            YKind::Orig(_) => "Original(UserAction)",
                            YKind::Grmtools => "Grmtools",
                            YKind::Eco => "Eco",
                        };
                        let hdr = format!("%grmtools{{yacckind: {}}}\n", kname);
                        let text2 = format!("{}{}", hdr, text);
                        match guarded(AssertUnwindSafe(|| <YaccGrammar<u32> as std::str::FromStr>::from_str(&text2))) {
                            Ok(Ok(g2)) => {
                                let mut f2 = Vec::new();
                                if dump(&g2, false, &mut f2) != dump(&g, false, &mut f2) {
                                    fails.push("from_str-differs: YaccGrammar::from_str with a %grmtools section builds a different grammar than YaccGrammar::new".to_string());
                                }
                                for r in &want.rules {
                                    if let Some(ri) = g2.rule_idx(&r.name) {
                                        let sp = g2.rule_name_span(ri);
                                        if slice(&text2, sp) != Some(r.name.as_str()) {
                                            fails.push(format!("from_str-span: rule_name_span({}) = {:?} spells {:?} in the text given to from_str, not {:?}", usize::from(ri), sp, slice(&text2, sp), r.name));
                                            break;
                                        }
                                    }
                                }
                                for (n, _) in &want.tokens {
                                    if let Some(ti) = g2.token_idx(n) {
                                        match g2.token_span(ti) {
                                            Some(sp) if slice(&text2, sp) == Some(n.as_str()) => {}
                                            other => {
                                                fails.push(format!("from_str-span: token_span({}) = {:?} does not spell {:?} in the text given to from_str", usize::from(ti), other, n));
                                                break;
                                            }
                                        }
                                    }
                                }
                                out.count("from_str_checked");
                            }
                            Ok(Err(e)) => fails.push(format!("from_str-rejects what new accepts: {:?}", e.iter().map(|x| x.to_string()).collect::<Vec<_>>())),
                            Err(e) => fails.push(format!("from_str panicked: {}", e)),
                        }
                    }
                    // the action kind of Original does not influence the grammar object
                    if let YKind::Orig(s) = kind {
                        let mut f2 = Vec::new();
                        for s2 in 0..3u8 {
                            if s2 == s {
                                continue;
                            }
                            match guarded(AssertUnwindSafe(|| YaccGrammar::<u32>::new(yk(YKind::Orig(s2)), text))) {
                                Ok(Ok(g2)) => {
                                    if dump(&g2, true, &mut f2) != i_line {
                                        fails.push(format!("Original action kind {} gives a different grammar than {}", s2, s));
                                    }
                                }
                                _ => fails.push(format!("Original action kind {} does not parse what kind {} parses", s2, s)),
                            }
                        }
                    }
                }
            }
        }
    }
    out.case("C10", id, &encode(kind, &want, text));
    out.imp(id, "I", &i_line);
    if let Some((pp, tk)) = &views {
        out.imp(id, "Ipp", pp);
        out.imp(id, "Itk", tk);
    }
    let known: Vec<String> = fails.iter().filter(|f| f.starts_with("action-span-shifted-by-leading-whitespace")).cloned().collect();
    fails.retain(|f| !f.starts_with("action-span-shifted-by-leading-whitespace"));
    if !known.is_empty() {
        out.count("finding.action_span_shifted_by_leading_whitespace");
        if out.stats["finding.action_span_shifted_by_leading_whitespace"] <= 2 || tag == "replay" {
            fails.push(known[0].clone());
        }
    }
    if fails.is_empty() {
        out.imp(id, "H", "ok");
    } else {
        fails.dedup();
        for f in fails.iter().take(4) {
            out.imp(id, "H", &format!("fail {}", f.replace('\n', "\\n").replace('\r', "\\r")));
        }
    }
    out.imp(id, "D", &format!("{} {:?} text={:?} {}", tag, kind, text, descr));
    out.count(&format!("kind.{}", match kind { YKind::Orig(_) => "original", YKind::Grmtools => "grmtools", YKind::Eco => "eco" }));
    out.count(&format!("tag.{}", tag));
    out.count(&format!("rules.{}", want.rules.len()));
    out.count(&format!("prods.{}", want.prods.len().min(12)));
    out.count(&format!("tokens.{}", want.tokens.len()));
    if want.rules.iter().any(|r| r.pidxs.windows(2).any(|w| w[1] != w[0] + 1)) {
        out.count("has.split_rule");
    }
    if !want.precs.is_empty() {
        out.count("has.precedence_lines");
    }
    if want.prods.iter().any(|p| p.prec.is_some()) {
        out.count("has.%prec");
    }
    if !want.epp.is_empty() {
        out.count("has.%epp");
    }
    if want.avoid.is_some() {
        out.count("has.%avoid_insert");
    }
    if want.implicit.is_some() {
        out.count("has.%implicit_tokens");
    }
    if want.implicit.as_ref().map_or(false, |v| v.len() > 1) {
        out.count("has.implicit_tokens>=2");
    }
    if want.expect.is_some() || want.expectrr.is_some() {
        out.count("has.%expect");
    }
    if want.parse_param.is_some() {
        out.count("has.%parse-param");
    }
    if want.rules.iter().any(|r| r.actiont.is_some()) {
        out.count("has.actiontype");
    }
    if want.prods.iter().any(|p| p.action.is_some()) {
        out.count("has.action");
    }
    if want.prods.iter().any(|p| p.syms.is_empty()) {
        out.count("has.empty_production");
    }
    if want.programs.is_some() {
        out.count("has.programs");
    }
    if text.contains("/*") || text.contains("//") {
        out.count("text.comments");
    }
    if text.contains("\r\n") {
        out.count("text.crlf");
    }
    if text.chars().any(|c| c.len_utf8() > 1) {
        out.count("text.multibyte");
    }
    if out.next_id % 211 == 1 {
        out.sample(format!("{:?} {:?}", kind, text));
    }
}

/// corpus witness: `text` and `plain` (the same source without its comments / with plain layout) must
/// both parse and give the same grammar apart from spans
fn run_witness(out: &mut Out, kind: YKind, text: &str, plain: &str, name: &str) {
    let id = out.id();
    let mut v: Vec<u64> = vec![1, kcode(kind)];
    e_str(&mut v, text);
    e_str(&mut v, plain);
    out.case("C10", id, &crate::out::join(&v));
    let mut fails = Vec::new();
    let mut f2 = Vec::new();
    let a = guarded(AssertUnwindSafe(|| YaccGrammar::<u32>::new(yk(kind), text)));
    let b = guarded(AssertUnwindSafe(|| YaccGrammar::<u32>::new(yk(kind), plain)));
    match (a, b) {
        (Ok(Ok(ga)), Ok(Ok(gb))) => {
            let da = dump(&ga, false, &mut fails);
            let db = dump(&gb, false, &mut f2);
            if da != db {
                fails.push("witness-differs the text and its plain form give different grammars".to_string());
            }
            let _ = dump(&ga, true, &mut fails);
        }
        (Ok(Err(e)), Ok(Ok(_))) => fails.push(format!(
            "witness-rejected {} (the plain form parses)",
            e.iter().map(|e| format!("{} at {:?}", e, e.spans().iter().map(|s| s.start()).collect::<Vec<_>>())).collect::<Vec<_>>().join("; ")
        )),
        (Err(e), _) => fails.push(format!("parser-panic {}", e)),
        (_, b) => fails.push(format!("witness-plain-form-invalid {:?}", b.map(|r| r.is_ok()))),
    }
    if fails.is_empty() {
        out.imp(id, "H", "ok");
    } else {
        out.imp(id, "H", &format!("fail {}", fails[0]));
    }
    out.imp(id, "D", &format!("witness {} {:?} text={:?}", name, kind, text));
    out.count("tag.witness");
}

const WS_PRE_T: &str = "%%\nA:";
const WS_POST_T: &str = "'a';";
const WS_PRE_F: &str = "%start";
const WS_POST_F: &str = "A\n%%\nA:'a';";

/// stage B tie: the private `parse_ws` observed through a whole parse. `inc = true`: the layout
/// stands between `A:` and `'a';`; `inc = false`: between `%start` and the rule name.
fn run_ws(out: &mut Out, inc: bool, w: &str) {
    let id = out.id();
    let mut v: Vec<u64> = vec![2, inc as u64];
    e_str(&mut v, w);
    e_str(&mut v, if inc { WS_POST_T } else { WS_POST_F });
    out.case("C10", id, &crate::out::join(&v));
    let pre = if inc { WS_PRE_T } else { WS_PRE_F };
    let text = format!("{}{}{}", pre, w, if inc { WS_POST_T } else { WS_POST_F });
    let r = guarded(AssertUnwindSafe(|| ASTWithValidityInfo::new(yk(YKind::Orig(0)), &text)));
    let line = match r {
        Err(e) => format!("panic {}", e),
        Ok(v) => {
            if v.is_valid() {
                let pos = if inc { v.ast().prods.first().map(|p| p.prod_span.start()) } else { v.ast().start.as_ref().map(|(_, s)| s.start()) };
                match pos {
                    Some(p) if p >= pre.len() => format!("ok {}", p - pre.len()),
                    _ => "ok ?".to_string(),
                }
            } else {
                let e = &v.errors()[0];
                let p = e.spans()[0].start();
                format!("err {} {}", format!("{}", e).replace(' ', "_"), p as i64 - pre.len() as i64)
            }
        }
    };
    out.imp(id, "I", &line);
    out.imp(id, "D", &format!("ws inc={} layout={:?}", inc, w));
    out.count("tag.ws");
    if w.contains("/*") {
        out.count("ws.block_comment");
    }
}

fn corpus(out: &mut Out) {
    let dir = std::path::Path::new("corpus/C10");
    let mut names: Vec<String> = match std::fs::read_dir(dir) {
        Ok(rd) => rd.filter_map(|e| e.ok()).map(|e| e.file_name().to_string_lossy().to_string()).collect(),
        Err(_) => vec![],
    };
    names.sort();
    for n in names {
        // <name>.<kind 0-4>.y with <name>.<kind>.plain.y
        if !n.ends_with(".y") || n.ends_with(".plain.y") {
            continue;
        }
        let stem = &n[..n.len() - 2];
        let kind = stem.rsplit('.').next().and_then(|k| k.parse::<u64>().ok()).unwrap_or(0);
        let text = std::fs::read_to_string(dir.join(&n)).unwrap_or_default();
        let plain = std::fs::read_to_string(dir.join(format!("{}.plain.y", stem))).unwrap_or_default();
        run_witness(out, kind_of(kind), &text, &plain, &n);
    }
}


// ---- text -> AST stage: canonical rendering of a description of the rules section (request 3) ------------

#[derive(Clone, Debug)]
struct RTok {
    /// the quote character, or None for a bare name
    q: Option<char>,
    text: String,
}
#[derive(Clone, Debug)]
struct RProd {
    empty: bool,
    syms: Vec<RTok>,
    prec: Option<RTok>,
    action: Option<String>,
}
#[derive(Clone, Debug)]
struct RRule {
    name: String,
    /// the `-> type` of the rule header (Grmtools), else empty
    ty: String,
    prods: Vec<RProd>,
}

/// `[a-zA-Z_.][a-zA-Z0-9_.]*` (RE_NAME and the third alternative of RE_TOKEN)
fn rt_is_name(s: &str) -> bool {
    let mut cs = s.chars();
    match cs.next() {
        Some(c) if c.is_ascii_alphabetic() || c == '_' || c == '.' => cs.all(|c| c.is_ascii_alphanumeric() || c == '_' || c == '.'),
        _ => false,
    }
}
/// Lean `wfQuotedText`
fn rt_wf_quoted(q: char, s: &str) -> bool {
    let mut cs = s.chars();
    match cs.next() {
        Some(c) if c != '\n' => cs.all(|d| d != q && d != '\n'),
        _ => false,
    }
}
/// Lean `braceScan 1 a == some 1`
fn rt_wf_action(a: &str) -> bool {
    let mut c: usize = 1;
    for ch in a.chars() {
        if ch == '{' {
            c += 1;
        } else if ch == '}' {
            if c <= 1 {
                return false;
            }
            c -= 1;
        }
    }
    c == 1
}
fn rt_tok_text(t: &RTok) -> String {
    match t.q {
        Some(q) => format!("{}{}{}", q, t.text, q),
        None => t.text.clone(),
    }
}
/// Lean `wfType`
fn rt_wf_type(t: &str) -> bool {
    let cs: Vec<char> = t.chars().collect();
    match cs.first() {
        Some(c) if !matches!(c, ' ' | '\t' | '\n' | '\r' | '/') => {}
        _ => return false,
    }
    let mut i = 0;
    while i < cs.len() {
        if cs[i] == ':' {
            if i + 1 < cs.len() && cs[i + 1] == ':' {
                i += 2;
            } else {
                return false;
            }
        } else {
            i += 1;
        }
    }
    true
}
/// Lean `renderRules`
fn rt_render(grm: bool, rs: &[RRule]) -> String {
    let mut s = String::new();
    for r in rs {
        s.push_str(&r.name);
        if grm {
            s.push_str(" -> ");
            s.push_str(&r.ty);
        }
        s.push_str(": ");
        for (i, p) in r.prods.iter().enumerate() {
            if i > 0 {
                s.push_str("| ");
            }
            if p.empty {
                s.push_str("%empty ");
            }
            for t in &p.syms {
                s.push_str(&rt_tok_text(t));
                s.push(' ');
            }
            if let Some(t) = &p.prec {
                s.push_str("%prec ");
                s.push_str(&rt_tok_text(t));
                s.push(' ');
            }
            if let Some(a) = &p.action {
                s.push('{');
                s.push_str(a);
                s.push_str("} ");
            }
        }
        s.push_str(";\n");
    }
    s
}
fn rt_e_tok(v: &mut Vec<u64>, t: &RTok) {
    match t.q {
        Some(q) => {
            v.push(1);
            v.push(q as u64);
        }
        None => {
            v.push(0);
            v.push(0);
        }
    }
    e_str(v, &t.text);
}
fn rt_e_prod(v: &mut Vec<u64>, p: &RProd) {
    v.push(p.empty as u64);
    v.push(p.syms.len() as u64);
    for t in &p.syms {
        rt_e_tok(v, t);
    }
    match &p.prec {
        None => v.push(0),
        Some(t) => {
            v.push(1);
            rt_e_tok(v, t);
        }
    }
    e_ostr(v, &p.action);
}
fn rt_encode(kind: YKind, pre: &str, post: &str, rs: &[RRule]) -> String {
    let mut v: Vec<u64> = vec![3, kcode(kind)];
    e_str(&mut v, pre);
    e_str(&mut v, post);
    v.push(rs.len() as u64);
    for r in rs {
        e_str(&mut v, &r.name);
        e_str(&mut v, &r.ty);
        rt_e_prod(&mut v, &r.prods[0]);
        v.push((r.prods.len() - 1) as u64);
        for p in &r.prods[1..] {
            rt_e_prod(&mut v, p);
        }
    }
    crate::out::join(&v)
}
fn rt_d_tok(c: &mut Cur) -> Option<RTok> {
    let t = c.nat()?;
    let q = c.nat()?;
    let text = c.str()?;
    Some(RTok { q: if t == 0 { None } else { Some(char::from_u32(q as u32)?) }, text })
}
fn rt_d_prod(c: &mut Cur) -> Option<RProd> {
    let empty = c.nat()? == 1;
    let n = c.us()?;
    let mut syms = Vec::new();
    for _ in 0..n {
        syms.push(rt_d_tok(c)?);
    }
    let prec = if c.nat()? == 0 { None } else { Some(rt_d_tok(c)?) };
    let action = c.ostr()?;
    Some(RProd { empty, syms, prec, action })
}
fn rt_decode(v: &[u64]) -> Option<(YKind, String, String, Vec<RRule>)> {
    let mut c = Cur { v, i: 0 };
    let kind = kind_of(c.nat()?);
    let pre = c.str()?;
    let post = c.str()?;
    let n = c.us()?;
    let mut rs = Vec::new();
    for _ in 0..n {
        let name = c.str()?;
        let ty = c.str()?;
        let mut prods = vec![rt_d_prod(&mut c)?];
        let m = c.us()?;
        for _ in 0..m {
            prods.push(rt_d_prod(&mut c)?);
        }
        rs.push(RRule { name, ty, prods });
    }
    Some((kind, pre, post, rs))
}

/// the format of `Drive/C10T.lean`'s `fAst`
fn rt_dump(o: &OAst) -> String {
    let fns = |n: &str, sp: Sp| format!("{} {}-{}", f_str(n), sp.0, sp.1);
    let st = match &o.start {
        None => "N".to_string(),
        Some((n, sp)) => fns(n, *sp),
    };
    let mut rule_of = vec![String::new(); o.prods.len()];
    for r in &o.rules {
        for &p in &r.pidxs {
            if p < rule_of.len() {
                rule_of[p] = r.name.clone();
            }
        }
    }
    let mut rl = vec![o.rules.len().to_string()];
    rl.extend(o.rules.iter().map(|r| fns(&r.name, r.span)));
    let pl: Vec<String> = o
        .prods
        .iter()
        .enumerate()
        .map(|(i, p)| {
            let mut sy = vec![p.syms.len().to_string()];
            sy.extend(p.syms.iter().map(|(t, n, sp)| format!("{}{} {}-{}", if *t { "t" } else { "r" }, f_str(n), sp.0, sp.1)));
            format!(
                "P {} {} {} {} {}-{}",
                f_str(&rule_of[i]),
                sy.join(" "),
                p.prec.as_ref().map_or("N".to_string(), |n| f_str(n)),
                p.action.is_some() as u8,
                p.span.0,
                p.span.1
            )
        })
        .collect();
    let mut tl = vec![o.tokens.len().to_string()];
    tl.extend(o.tokens.iter().map(|(n, sp)| fns(n, *sp)));
    format!("st {} R {} {} T {}", st, rl.join(" "), pl.join(" "), tl.join(" "))
}

/// the description of the rules section of `g` in the abstract syntax of `Lemmas/YaccRender.lean`, or the
/// reason why `g` falls outside the hypotheses of `parse_rules_roundtrip`
fn rt_describe(g: &YGrammar, rng: &mut Rng, moved: &mut bool) -> Result<Vec<RRule>, &'static str> {
    let spell = |t: usize, declared_ok: bool, rng: &mut Rng| -> Result<RTok, &'static str> {
        let name = &g.toks[t];
        let mut opts: Vec<RTok> = Vec::new();
        if declared_ok && rt_is_name(name) {
            opts.push(RTok { q: None, text: name.clone() });
        }
        for q in ['\'', '"'] {
            if rt_wf_quoted(q, name) {
                opts.push(RTok { q: Some(q), text: name.clone() });
            }
        }
        if opts.is_empty() {
            return Err("token_text_cannot_be_quoted");
        }
        Ok(opts[rng.below(opts.len())].clone())
    };
    let mut rs = Vec::new();
    for ch in &g.chunks {
        let name = g.rules[ch.rule].clone();
        if !rt_is_name(&name) {
            return Err("rule_name");
        }
        if ch.prods.is_empty() {
            return Err("rule_without_production");
        }
        let ty = if g.kind == YKind::Grmtools { g.rule_types[ch.rule].clone().unwrap_or_else(|| "()".to_string()) } else { String::new() };
        if g.kind == YKind::Grmtools && !rt_wf_type(&ty) {
            return Err("action_type_has_a_single_colon_or_leading_layout");
        }
        let mut prods = Vec::new();
        for p in &ch.prods {
            let mut syms = Vec::new();
            for s in &p.syms {
                match s {
                    YS::T(t) => syms.push(spell(*t, g.declared[*t], rng)?),
                    YS::R(r) => {
                        if !rt_is_name(&g.rules[*r]) {
                            return Err("rule_name");
                        }
                        syms.push(RTok { q: None, text: g.rules[*r].clone() })
                    }
                }
            }
            let prec = match p.prec {
                None => None,
                Some((t, pos)) => {
                    if pos < p.syms.len() {
                        *moved = true;
                    }
                    Some(spell(t, true, rng)?)
                }
            };
            let action = p.action.as_ref().map(|a| format!("{}{}{}", a.lpad, a.core, a.rpad));
            if let Some(a) = &action {
                if !rt_wf_action(a) {
                    return Err("action_braces_not_balanced");
                }
            }
            prods.push(RProd { empty: p.syms.is_empty() && p.empty_kw, syms, prec, action });
        }
        rs.push(RRule { name, ty, prods });
    }
    Ok(rs)
}

fn run_rt(out: &mut Out, kind: YKind, pre: &str, post: &str, rs: &[RRule], tag: &str) {
    let id = out.id();
    let text = format!("{}%%\n{}{}", pre, rt_render(kind == YKind::Grmtools, rs), post);
    let i_line = match guarded(AssertUnwindSafe(|| ASTWithValidityInfo::new(yk(kind), &text))) {
        Err(e) => format!("panic {}", e),
        Ok(v) => {
            if !v.is_valid() {
                format!("err {}", v.errors().len())
            } else {
                format!("ok {} {}", text.len(), rt_dump(&from_real(v.ast())))
            }
        }
    };
    out.case("C10", id, &rt_encode(kind, pre, post, rs));
    out.imp(id, "I", &i_line);
    out.imp(id, "D", &format!("roundtrip {} {:?} text={:?}", tag, kind, text));
    out.count("tag.roundtrip");
    out.count("cases_within_the_roundtrip_hypotheses");
    out.count(&format!("roundtrip.kind.{}", match kind { YKind::Orig(_) => "original", YKind::Grmtools => "grmtools", YKind::Eco => "eco" }));
    let np: usize = rs.iter().map(|r| r.prods.len()).sum();
    out.count(&format!("roundtrip.rules.{}", rs.len()));
    out.count(&format!("roundtrip.prods.{}", np.min(12)));
    let mut names: Vec<&str> = rs.iter().map(|r| r.name.as_str()).collect();
    names.sort();
    names.dedup();
    if names.len() < rs.len() {
        out.count("roundtrip.has.rule_defined_twice");
    }
    if rs.iter().any(|r| r.prods.iter().any(|p| p.empty)) {
        out.count("roundtrip.has.%empty");
    }
    if rs.iter().any(|r| r.prods.iter().any(|p| p.syms.is_empty() && !p.empty)) {
        out.count("roundtrip.has.empty_production_without_keyword");
    }
    if rs.iter().any(|r| r.prods.iter().any(|p| p.prec.is_some())) {
        out.count("roundtrip.has.%prec");
    }
    if rs.iter().any(|r| r.prods.iter().any(|p| p.prec.as_ref().is_some_and(|t| t.q.is_none()))) {
        out.count("roundtrip.has.%prec_bare");
    }
    if rs.iter().any(|r| r.prods.iter().any(|p| p.action.is_some())) {
        out.count("roundtrip.has.action");
    }
    if rs.iter().any(|r| r.prods.iter().any(|p| p.action.as_ref().is_some_and(|a| a.contains('{')))) {
        out.count("roundtrip.has.action_with_nested_braces");
    }
    if rs.iter().any(|r| r.prods.iter().any(|p| p.action.as_ref().is_some_and(|a| a.contains('\n') || a.contains('\r')))) {
        out.count("roundtrip.has.action_with_newline");
    }
    if rs.iter().any(|r| r.prods.iter().any(|p| p.syms.iter().any(|t| t.q.is_none() && !rs.iter().any(|r2| r2.name == t.text)))) {
        out.count("roundtrip.has.bare_token_or_undefined_rule");
    }
    if rs.iter().any(|r| r.prods.iter().any(|p| p.syms.iter().any(|t| t.q == Some('"')))) {
        out.count("roundtrip.has.double_quoted");
    }
    if !text.is_ascii() {
        out.count("roundtrip.has.multibyte");
    }
    if !post.is_empty() {
        out.count("roundtrip.has.programs");
    }
}

/// the rules section of a generated grammar, described abstractly and rendered canonically after the
/// grammar's own declarations (plain layout)
fn run_rt_gen(out: &mut Out, g: &YGrammar, rng: &mut Rng) {
    let mut moved = false;
    match rt_describe(g, rng, &mut moved) {
        Err(why) => {
            out.count("cases_outside_the_roundtrip_hypotheses");
            out.count(&format!("roundtrip.outside.{}", why));
        }
        Ok(rs) => {
            if moved {
                out.count("roundtrip.%prec_moved_behind_the_symbols");
            }
            let mut g0 = g.clone();
            g0.chunks.clear();
            g0.programs = None;
            let (t0, _, _, _) = g0.render(rng, 0);
            let cut = t0.rfind("%%").unwrap_or(t0.len());
            let pre = &t0[..cut];
            let post = match &g.programs {
                None => String::new(),
                Some(p) => format!("%%\n{}", p),
            };
            run_rt(out, g.kind, pre, &post, &rs, "generated");
        }
    }
}

// ---- text -> AST stage: a whole file described abstractly (request 4) ----------------------------------------

#[derive(Clone, Debug)]
enum RDecl {
    Start(String),
    Token(Vec<RTok>),
    Prec(u8, Vec<RTok>),
    Avoid(Vec<RTok>),
    Implicit(Vec<RTok>),
    Expect(String),
    ExpectRR(String),
    ActionType(String),
    ParseParam(String, String),
    Epp(RTok, String),
}

/// Lean `wfLine`
fn rt_wf_line(t: &str) -> bool {
    match t.chars().next() {
        Some(c) if !matches!(c, ' ' | '\t' | '\n' | '\r' | '/') => !t.contains('\n') && !t.contains('\r'),
        _ => false,
    }
}
fn rt_render_toks(s: &mut String, ts: &[RTok]) {
    for (i, t) in ts.iter().enumerate() {
        if i > 0 {
            s.push(' ');
        }
        s.push_str(&rt_tok_text(t));
    }
    s.push('\n');
}
/// Lean `renderDecls`
fn rt_render_decls(ds: &[RDecl]) -> String {
    let mut s = String::new();
    for d in ds {
        match d {
            RDecl::Start(n) => s.push_str(&format!("%start {}\n", n)),
            RDecl::Token(ts) => {
                s.push_str("%token ");
                rt_render_toks(&mut s, ts);
            }
            RDecl::Prec(k, ts) => {
                s.push_str(["%left ", "%right ", "%nonassoc "][*k as usize]);
                rt_render_toks(&mut s, ts);
            }
            RDecl::Avoid(ts) => {
                s.push_str("%avoid_insert ");
                rt_render_toks(&mut s, ts);
            }
            RDecl::Implicit(ts) => {
                s.push_str("%implicit_tokens ");
                rt_render_toks(&mut s, ts);
            }
            RDecl::Expect(n) => s.push_str(&format!("%expect {}\n", n)),
            RDecl::ExpectRR(n) => s.push_str(&format!("%expect-rr {}\n", n)),
            RDecl::ActionType(t) => s.push_str(&format!("%actiontype {}\n", t)),
            RDecl::ParseParam(n, t) => s.push_str(&format!("%parse-param {}: {}\n", n, t)),
            RDecl::Epp(t, v) => s.push_str(&format!("%epp {} \"{}\"\n", rt_tok_text(t), v.replace('"', "\\\""))),
        }
    }
    s
}
fn rt_e_toks(v: &mut Vec<u64>, ts: &[RTok]) {
    v.push(ts.len() as u64);
    for t in ts {
        rt_e_tok(v, t);
    }
}
fn rt_e_rules(v: &mut Vec<u64>, rs: &[RRule]) {
    v.push(rs.len() as u64);
    for r in rs {
        e_str(v, &r.name);
        e_str(v, &r.ty);
        rt_e_prod(v, &r.prods[0]);
        v.push((r.prods.len() - 1) as u64);
        for p in &r.prods[1..] {
            rt_e_prod(v, p);
        }
    }
}
fn rt_encode_file(kind: YKind, ds: &[RDecl], rs: &[RRule], prog: &Option<String>) -> String {
    let mut v: Vec<u64> = vec![4, kcode(kind), ds.len() as u64];
    for d in ds {
        match d {
            RDecl::Start(n) => {
                v.push(0);
                e_str(&mut v, n);
            }
            RDecl::Token(ts) => {
                v.push(1);
                rt_e_toks(&mut v, ts);
            }
            RDecl::Prec(k, ts) => {
                v.push(2);
                v.push(*k as u64);
                rt_e_toks(&mut v, ts);
            }
            RDecl::Avoid(ts) => {
                v.push(3);
                rt_e_toks(&mut v, ts);
            }
            RDecl::Implicit(ts) => {
                v.push(4);
                rt_e_toks(&mut v, ts);
            }
            RDecl::Expect(n) => {
                v.push(5);
                e_str(&mut v, n);
            }
            RDecl::ExpectRR(n) => {
                v.push(6);
                e_str(&mut v, n);
            }
            RDecl::ActionType(t) => {
                v.push(7);
                e_str(&mut v, t);
            }
            RDecl::ParseParam(n, t) => {
                v.push(8);
                e_str(&mut v, n);
                e_str(&mut v, t);
            }
            RDecl::Epp(t, x) => {
                v.push(9);
                rt_e_tok(&mut v, t);
                e_str(&mut v, x);
            }
        }
    }
    rt_e_rules(&mut v, rs);
    e_ostr(&mut v, prog);
    crate::out::join(&v)
}
fn rt_d_toks(c: &mut Cur) -> Option<Vec<RTok>> {
    let n = c.us()?;
    let mut l = Vec::new();
    for _ in 0..n {
        l.push(rt_d_tok(c)?);
    }
    Some(l)
}
fn rt_decode_file(v: &[u64]) -> Option<(YKind, Vec<RDecl>, Vec<RRule>, Option<String>)> {
    let mut c = Cur { v, i: 0 };
    let kind = kind_of(c.nat()?);
    let nd = c.us()?;
    let mut ds = Vec::new();
    for _ in 0..nd {
        ds.push(match c.nat()? {
            0 => RDecl::Start(c.str()?),
            1 => RDecl::Token(rt_d_toks(&mut c)?),
            2 => {
                let k = c.nat()? as u8;
                RDecl::Prec(k, rt_d_toks(&mut c)?)
            }
            3 => RDecl::Avoid(rt_d_toks(&mut c)?),
            4 => RDecl::Implicit(rt_d_toks(&mut c)?),
            5 => RDecl::Expect(c.str()?),
            6 => RDecl::ExpectRR(c.str()?),
            7 => RDecl::ActionType(c.str()?),
            8 => {
                let n = c.str()?;
                RDecl::ParseParam(n, c.str()?)
            }
            9 => {
                let t = rt_d_tok(&mut c)?;
                RDecl::Epp(t, c.str()?)
            }
            _ => return None,
        });
    }
    let n = c.us()?;
    let mut rs = Vec::new();
    for _ in 0..n {
        let name = c.str()?;
        let ty = c.str()?;
        let mut prods = vec![rt_d_prod(&mut c)?];
        let m = c.us()?;
        for _ in 0..m {
            prods.push(rt_d_prod(&mut c)?);
        }
        rs.push(RRule { name, ty, prods });
    }
    let prog = c.ostr()?;
    Some((kind, ds, rs, prog))
}

/// the format of `Drive/C10T.lean`'s `fAstFull`, read off the real `GrammarAST`
fn rt_dump_full(a: &GrammarAST) -> String {
    let fsp = |s: Span| format!("{}-{}", s.start(), s.end());
    let mut td: Vec<String> = a.token_directives.iter().filter_map(|i| a.tokens.get_index(*i)).map(|n| f_str(n)).collect();
    td.sort();
    let mut pr: Vec<String> = a.precs.iter().map(|(n, (p, sp))| format!("{} {} {} {}", f_str(n), p.level, akind(p.kind), fsp(*sp))).collect();
    pr.sort();
    let fset = |m: &Option<std::collections::HashMap<String, Span>>| match m {
        None => "N".to_string(),
        Some(m) => {
            let mut l: Vec<String> = m.iter().map(|(n, sp)| format!("{} {}", f_str(n), fsp(*sp))).collect();
            l.sort();
            let mut v = vec![l.len().to_string()];
            v.extend(l);
            v.join(" ")
        }
    };
    let fon = |o: &Option<(usize, Span)>| o.map_or("N".to_string(), |(n, sp)| format!("{} {}", n, fsp(sp)));
    let mut tdv = vec![td.len().to_string()];
    tdv.extend(td);
    let mut prv = vec![pr.len().to_string()];
    prv.extend(pr);
    let mut ep: Vec<String> =
        a.epp.iter().map(|(n, (sp, (v, vsp)))| format!("{} {} {} {}", f_str(n), fsp(*sp), f_str(v), fsp(*vsp))).collect();
    ep.sort();
    let mut epv = vec![ep.len().to_string()];
    epv.extend(ep);
    format!(
        "{} TD {} PR {} AV {} IM {} EX {} ER {} PP {} EP {} PG {}",
        rt_dump(&from_real(a)),
        tdv.join(" "),
        prv.join(" "),
        fset(&a.avoid_insert),
        fset(&a.implicit_tokens),
        fon(&a.expect),
        fon(&a.expectrr),
        a.parse_param.as_ref().map_or("N".to_string(), |(_, t)| f_str(t)),
        epv.join(" "),
        a.programs.as_ref().map_or("N".to_string(), |p| p.len().to_string())
    )
}

fn run_file(out: &mut Out, kind: YKind, ds: &[RDecl], rs: &[RRule], prog: &Option<String>, tag: &str) {
    let id = out.id();
    let post = match prog {
        None => String::new(),
        Some(p) => format!("%%\n{}", p),
    };
    let text = format!("{}%%\n{}{}", rt_render_decls(ds), rt_render(kind == YKind::Grmtools, rs), post);
    let i_line = match guarded(AssertUnwindSafe(|| ASTWithValidityInfo::new(yk(kind), &text))) {
        Err(e) => format!("panic {}", e),
        Ok(v) => {
            if !v.is_valid() {
                format!("err {}", v.errors().len())
            } else {
                format!("ok {} {}", text.len(), rt_dump_full(v.ast()))
            }
        }
    };
    out.case("C10", id, &rt_encode_file(kind, ds, rs, prog));
    out.imp(id, "I", &i_line);
    out.imp(id, "D", &format!("file-roundtrip {} {:?} text={:?}", tag, kind, text));
    out.count("tag.file_roundtrip");
    out.count("cases_within_the_file_roundtrip_hypotheses");
    out.count(&format!("file_roundtrip.decls.{}", ds.len().min(10)));
    for d in ds {
        out.count(match d {
            RDecl::Start(_) => "file_roundtrip.has.%start",
            RDecl::Token(_) => "file_roundtrip.has.%token",
            RDecl::Prec(..) => "file_roundtrip.has.precedence_line",
            RDecl::Avoid(_) => "file_roundtrip.has.%avoid_insert",
            RDecl::Implicit(_) => "file_roundtrip.has.%implicit_tokens",
            RDecl::Expect(_) => "file_roundtrip.has.%expect",
            RDecl::ExpectRR(_) => "file_roundtrip.has.%expect-rr",
            RDecl::ActionType(_) => "file_roundtrip.has.%actiontype",
            RDecl::ParseParam(..) => "file_roundtrip.has.%parse-param",
            RDecl::Epp(..) => "file_roundtrip.has.%epp",
        });
    }
}

/// the declarations of `g` in the abstract syntax of `Lemmas/YaccDeclRender.lean`, or why not
fn rt_describe_decls(g: &YGrammar, rng: &mut Rng) -> Result<Vec<RDecl>, &'static str> {
    let spell = |t: usize, rng: &mut Rng| -> Result<RTok, &'static str> {
        let name = &g.toks[t];
        let mut opts: Vec<RTok> = Vec::new();
        if rt_is_name(name) {
            opts.push(RTok { q: None, text: name.clone() });
        }
        for q in ['\'', '"'] {
            if rt_wf_quoted(q, name) {
                opts.push(RTok { q: Some(q), text: name.clone() });
            }
        }
        if opts.is_empty() {
            return Err("token_text_cannot_be_quoted");
        }
        Ok(opts[rng.below(opts.len())].clone())
    };
    let spell_all = |ts: &[usize], rng: &mut Rng| -> Result<Vec<RTok>, &'static str> {
        if ts.is_empty() {
            return Err("empty_token_list");
        }
        ts.iter().map(|t| spell(*t, rng)).collect()
    };
    let mut ds = Vec::new();
    for d in &g.decls {
        ds.push(match d {
            YDecl::Start(r) => {
                if !rt_is_name(&g.rules[*r]) {
                    return Err("rule_name");
                }
                RDecl::Start(g.rules[*r].clone())
            }
            YDecl::Token(ts) => RDecl::Token(spell_all(ts, rng)?),
            YDecl::Prec(k, ts) => RDecl::Prec(*k, spell_all(ts, rng)?),
            YDecl::Epp(t, v) => {
                if v.contains('\\') || v.contains('\n') || v.contains('\r') {
                    return Err("%epp_text_with_backslash_or_newline");
                }
                RDecl::Epp(spell(*t, rng)?, v.clone())
            }
            YDecl::Avoid(ts) => RDecl::Avoid(spell_all(ts, rng)?),
            YDecl::Implicit(ts) => {
                if g.kind != YKind::Eco {
                    return Err("%implicit_tokens_outside_Eco");
                }
                RDecl::Implicit(spell_all(ts, rng)?)
            }
            YDecl::Expect(n) => RDecl::Expect(n.to_string()),
            YDecl::ExpectRR(n) => RDecl::ExpectRR(n.to_string()),
            YDecl::ParseParam(n, ty) => {
                if !rt_wf_type(n) || n.contains('\n') || n.contains('\r') || !rt_wf_line(ty) {
                    return Err("%parse-param_text");
                }
                RDecl::ParseParam(n.clone(), ty.clone())
            }
            YDecl::ActionType(ty) => {
                if !matches!(g.kind, YKind::Orig(_)) {
                    return Err("%actiontype_outside_Original");
                }
                if !rt_wf_line(ty) {
                    return Err("%actiontype_text");
                }
                RDecl::ActionType(ty.clone())
            }
        });
    }
    Ok(ds)
}

fn run_file_gen(out: &mut Out, g: &YGrammar, rng: &mut Rng) {
    let mut moved = false;
    let r = rt_describe(g, rng, &mut moved).and_then(|rs| rt_describe_decls(g, rng).map(|ds| (ds, rs)));
    match r {
        Err(why) => {
            out.count("cases_outside_the_file_roundtrip_hypotheses");
            out.count(&format!("file_roundtrip.outside.{}", why));
        }
        Ok((ds, rs)) => {
            if let Some(p) = &g.programs {
                if p.starts_with(|c: char| matches!(c, ' ' | '\t' | '\n' | '\r' | '/')) {
                    out.count("cases_outside_the_file_roundtrip_hypotheses");
                    out.count("file_roundtrip.outside.programs_begin_with_layout");
                    return;
                }
            }
            run_file(out, g.kind, &ds, &rs, &g.programs, "generated");
        }
    }
}

const WS_ALPHA: &[&str] = &[" ", "\t", "\n", "\r", "/", "/", "*", "*", "/*", "*/", "//", "\u{e9}", "\n/"];

pub fn run(a: &Args) {
    let mut out = Out::new(&a.out);
    if let Some(rp) = &a.replay {
        let txt = std::fs::read_to_string(rp).unwrap_or_default();
        for line in txt.lines() {
            let mut it = line.splitn(3, ' ');
            if it.next() != Some("C10") {
                continue;
            }
            let _ = it.next();
            let v: Option<Vec<u64>> = it.next().map(|p| p.split_whitespace().map(|t| t.parse().ok()).collect()).unwrap_or(None);
            let v = match v {
                Some(v) if !v.is_empty() => v,
                _ => continue,
            };
            match v[0] {
                0 => {
                    if let Some((kind, o, text)) = decode(&v[1..]) {
                        run_case(&mut out, kind, &o, &text, "replay", "");
                    }
                }
                1 => {
                    let mut c = Cur { v: &v, i: 1 };
                    if let (Some(k), Some(t), Some(p)) = (c.nat(), c.str(), c.str()) {
                        run_witness(&mut out, kind_of(k), &t, &p, "replay");
                    }
                }
                3 => {
                    if let Some((kind, pre, post, rs)) = rt_decode(&v[1..]) {
                        run_rt(&mut out, kind, &pre, &post, &rs, "replay");
                    }
                }
                4 => {
                    if let Some((kind, ds, rs, prog)) = rt_decode_file(&v[1..]) {
                        run_file(&mut out, kind, &ds, &rs, &prog, "replay");
                    }
                }
                _ => {
                    let mut c = Cur { v: &v, i: 1 };
                    if let (Some(inc), Some(w)) = (c.nat(), c.str()) {
                        run_ws(&mut out, inc == 1, &w);
                    }
                }
            }
        }
        out.finish(&a.out);
        return;
    }
    let shard = a.shard as u64;
    let shards = a.shards.max(1) as u64;
    if shard == 0 {
        corpus(&mut out);
        for w in ["", " ", "/", "/x", "//a", "/*", "/**/", "/***/", "/*/", "/* x \n/ y */", "/*\n/*/", "/* \r/ */ ", "//\n//\r\n/**/\t", "/*\u{e9}*/"] {
            run_ws(&mut out, true, w);
            run_ws(&mut out, false, w);
        }
    }
    let n = if a.thorough { 80000 } else { 12000 };
    for case in 0..n as u64 {
        if case % shards != shard {
            continue;
        }
        let mut rng = Rng::for_case(a.seed, 10, case);
        let g = random_ygrammar(&mut rng);
        let descr = g.describe();
        for level in 0..3u8 {
            let (text, o, _, _) = g.render(&mut rng, level);
            run_case(&mut out, g.kind, &o, &text, ["plain", "moderate", "wild"][level as usize], if level == 0 { "" } else { &descr });
        }
        run_rt_gen(&mut out, &g, &mut rng);
        run_file_gen(&mut out, &g, &mut rng);
    }
    let n = if a.thorough { 400000 } else { 40000 };
    for case in 0..n as u64 {
        if case % shards != shard {
            continue;
        }
        let mut rng = Rng::for_case(a.seed, 1010, case);
        let k = rng.range(0, 7);
        let mut w = String::new();
        for _ in 0..k {
            w.push_str(*rng.pick(WS_ALPHA));
        }
        run_ws(&mut out, rng.chance(2, 3), &w);
    }
    out.finish(&a.out);
}
