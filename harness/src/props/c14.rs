//! C14: a grammar and its state table, serialised the way `CTParserBuilder::build` does and
//! reconstituted the way every generated parser does at start-up (`lrpar::ctbuilder::_reconstitute`),
//! answer every public query like the originals and parse every input identically.
//!
//! Per grammar × storage width {u8,u16,u32} × encoding {fixed, variable}:
//!   stage 1 (`H`): every public query on every index of the reconstituted grammar/table equals the
//!     original's answer; generated inputs are parsed with both (no recovery and CPCT+) and trees, error
//!     lists and repair lists are compared.
//!   stage 2 (request to the Lean driver): the serialised BYTES. The driver decodes them under the schema
//!     extracted from the derive structs, re-encodes (must give the identical bytes: `V`), and answers
//!     the queries from the decoded fields (`S`); the `I` line carries the answers of the RECONSTITUTED
//!     objects in the same format.
//!   stage 3 (a few cases per run): `CTParserBuilder::build` itself is run; the bytes it embeds in the
//!     generated source must be the bytes of stage 1, and the start-up code it generates must
//!     reconstitute with the configuration the bytes were written with.
//!
//! Request: `cfg width nstates  n b…(grammar bytes)  n b…(table bytes)`   (cfg 0 fixed, 1 variable)
use crate::gen::grammar::{self, AGrammar, Deco, GenCfg, S};
use crate::out::{guarded, Out};
use crate::rng::Rng;
use crate::Args;
use cfgrammar::yacc::{AssocKind, Precedence, YaccGrammar, YaccKind, YaccOriginalActionKind};
use cfgrammar::{PIdx, RIdx, Span, Symbol, TIdx};
use lrlex::{DefaultLexeme, DefaultLexerTypes};
use lrpar::ctbuilder::{_reconstitute, wincode};
use lrpar::{LexParseError, Lexeme, Lexer, NonStreamingLexer, ParseRepair, RTParserBuilder, RecoveryKind};
use lrtable::{Action, Minimiser, StIdx, StateTable};
use num_traits::{AsPrimitive, PrimInt, Unsigned};
use std::fmt::Debug;
use std::fmt::Write as _;
use std::hash::Hash;
use std::panic::AssertUnwindSafe;
use std::time::Instant;

// ---------------------------------------------------------------------------------------------------
// canonical dump of the public queries (format shared with Drive/C14.lean)

fn w_str(o: &mut String, s: &str) {
    let _ = write!(o, " {}", s.len());
    for b in s.bytes() {
        let _ = write!(o, " {}", b);
    }
}
fn w_ostr(o: &mut String, s: Option<&str>) {
    match s {
        None => o.push_str(" 0"),
        Some(s) => {
            o.push_str(" 1");
            w_str(o, s)
        }
    }
}
fn w_span(o: &mut String, s: Span) {
    let _ = write!(o, " {} {}", s.start(), s.end());
}
fn w_ospan(o: &mut String, s: Option<Span>) {
    match s {
        None => o.push_str(" 0"),
        Some(s) => {
            o.push_str(" 1");
            w_span(o, s)
        }
    }
}
fn w_oprec(o: &mut String, p: Option<Precedence>) {
    match p {
        None => o.push_str(" 0"),
        Some(p) => {
            let k = match p.kind {
                AssocKind::Left => 0,
                AssocKind::Right => 1,
                AssocKind::Nonassoc => 2,
            };
            let _ = write!(o, " 1 {} {}", p.level, k);
        }
    }
}
fn w_onat(o: &mut String, n: Option<usize>) {
    match n {
        None => o.push_str(" 0"),
        Some(n) => {
            let _ = write!(o, " 1 {}", n);
        }
    }
}

fn u<S: PrimInt + Unsigned>(x: S) -> usize {
    num_traits::cast(x).unwrap()
}

/// every field-level query of the grammar and the table, on every index
pub fn dump<T>(g: &YaccGrammar<T>, st: &StateTable<T>, nstates: usize) -> String
where
    T: 'static + Debug + Hash + PrimInt + Unsigned,
    usize: AsPrimitive<T>,
{
    let mut o = String::new();
    let _ = write!(
        o,
        "g {} {} {} {} {} {}",
        u(g.rules_len().0),
        u(g.tokens_len().0),
        u(g.prods_len().0),
        u(g.eof_token_idx().0),
        u(g.start_prod().0),
        u(g.start_rule_idx().0)
    );
    w_onat(&mut o, g.implicit_rule().map(|r| u(r.0)));
    for r in g.iter_rules() {
        o.push_str(" r");
        w_str(&mut o, g.rule_name_str(r));
        w_span(&mut o, g.rule_name_span(r));
        w_ostr(&mut o, g.actiontype(r).as_deref());
        let ps = g.rule_to_prods(r);
        let _ = write!(o, " {}", ps.len());
        for p in ps {
            let _ = write!(o, " {}", u(p.0));
        }
    }
    for t in g.iter_tidxs() {
        o.push_str(" t");
        w_ostr(&mut o, g.token_name(t));
        w_ospan(&mut o, g.token_span(t));
        w_oprec(&mut o, g.token_precedence(t));
        w_ostr(&mut o, g.token_epp(t));
        let _ = write!(o, " {}", g.avoid_insert(t) as u8);
    }
    for p in g.iter_pidxs() {
        o.push_str(" p");
        let syms = g.prod(p);
        let _ = write!(o, " {}", syms.len());
        for s in syms {
            match s {
                Symbol::Rule(r) => {
                    let _ = write!(o, " {}", 2 * u(r.0));
                }
                Symbol::Token(t) => {
                    let _ = write!(o, " {}", 2 * u(t.0) + 1);
                }
            }
        }
        let _ = write!(o, " {} {}", u(g.prod_len(p).0), u(g.prod_to_rule(p).0));
        w_oprec(&mut o, g.prod_precedence(p));
        // (prod_span has no entry for the productions cfgrammar adds itself: the query panics on the
        // original object too; "same answer" then means: panics on both)
        match guarded(AssertUnwindSafe(|| g.prod_span(p))) {
            Ok(sp) => w_span(&mut o, sp),
            Err(_) => o.push_str(" P"),
        }
        match guarded(AssertUnwindSafe(|| g.action(p).clone())) {
            Ok(a) => w_ostr(&mut o, a.as_deref()),
            Err(_) => o.push_str(" P"),
        }
        match guarded(AssertUnwindSafe(|| g.action_span(p))) {
            Ok(sp) => w_ospan(&mut o, sp),
            Err(_) => o.push_str(" P"),
        }
    }
    o.push_str(" x");
    match g.parse_param() {
        None => o.push_str(" 0"),
        Some((a, b)) => {
            o.push_str(" 1");
            w_str(&mut o, a);
            w_str(&mut o, b);
        }
    }
    w_ostr(&mut o, g.parse_generics().as_deref());
    w_ostr(&mut o, g.programs().as_deref());
    w_onat(&mut o, g.expect());
    w_onat(&mut o, g.expectrr());
    // table
    let _ = write!(o, " s {}", u(st.start_state().0));
    let nt = u(g.tokens_len().0);
    let nr = u(g.rules_len().0);
    for s in 0..nstates {
        let si: StIdx<T> = StIdx(s.as_());
        o.push_str(" q");
        for t in 0..nt {
            let a = match st.action(si, TIdx(t.as_())) {
                Action::Error => 0,
                Action::Shift(x) => 1 + 4 * u(x.0),
                Action::Reduce(x) => 2 + 4 * u(x.0),
                Action::Accept => 3,
            };
            let _ = write!(o, " {}", a);
        }
        o.push_str(" j");
        for r in 0..nr {
            let _ = write!(o, " {}", st.goto(si, RIdx(r.as_())).map(|x| u(x.0) + 1).unwrap_or(0));
        }
        let sa: Vec<usize> = st.state_actions(si).map(|t| u(t.0)).collect();
        let sh: Vec<usize> = st.state_shifts(si).map(|t| u(t.0)).collect();
        let cr: Vec<usize> = st.core_reduces(si).map(|p| u(p.0)).collect();
        let _ = write!(o, " a {}", crate::out::plist(&sa));
        let _ = write!(o, " h {}", crate::out::plist(&sh));
        let _ = write!(o, " c {}", crate::out::plist(&cr));
        let _ = write!(o, " o {}", st.reduce_only_state(si) as u8);
    }
    match st.conflicts() {
        None => o.push_str(" k 0"),
        Some(c) => {
            let _ = write!(o, " k 1 {}", c.rr_len());
            for (t, p1, p2, s) in c.rr_conflicts() {
                let _ = write!(o, " {} {} {} {}", u(t.0), u(p1.0), u(p2.0), u(s.0));
            }
            let _ = write!(o, " {}", c.sr_len());
            for (t, p, s) in c.sr_conflicts() {
                let _ = write!(o, " {} {} {}", u(t.0), u(p.0), u(s.0));
            }
        }
    }
    o
}

/// the derived / name-based queries (not reproduced by the Lean side; compared original vs reconstituted)
fn dump_derived<T>(g: &YaccGrammar<T>, st: &StateTable<T>) -> String
where
    T: 'static + Debug + Hash + PrimInt + Unsigned,
    usize: AsPrimitive<T>,
{
    let mut o = String::new();
    for r in g.iter_rules() {
        let n = g.rule_name_str(r).to_string();
        #[allow(deprecated)]
        let n2 = g.rule_name(r).to_string();
        let _ = write!(o, "ri {:?} {:?} {:?};", n, n2, g.rule_idx(&n).map(|x| u(x.0)));
    }
    let _ = write!(o, "ri? {:?};", g.rule_idx("no such rule é"));
    for t in g.iter_tidxs() {
        if let Some(n) = g.token_name(t) {
            let _ = write!(o, "ti {:?} {:?};", n, g.token_idx(n).map(|x| u(x.0)));
        }
    }
    let _ = write!(o, "ti? {:?};", g.token_idx("no such token 日本"));
    let mut tm: Vec<(String, usize)> = g.tokens_map().iter().map(|(k, v)| (k.to_string(), u(v.0))).collect();
    tm.sort();
    let _ = write!(o, "tm {:?};", tm);
    let _ = write!(o, "iters {:?} {:?} {:?};", g.iter_rules().count(), g.iter_tidxs().count(), g.iter_pidxs().count());
    for p in g.iter_pidxs() {
        let _ = write!(o, "pp {:?};", g.pp_prod(p));
    }
    let firsts = g.firsts();
    let follows = g.follows();
    for r in g.iter_rules() {
        let _ = write!(o, "ff {} ", firsts.is_epsilon_set(r) as u8);
        for t in g.iter_tidxs() {
            let _ = write!(o, "{}{}", firsts.is_set(r, t) as u8, follows.is_set(r, t) as u8);
        }
        o.push(' ');
        for r2 in g.iter_rules() {
            let _ = write!(o, "{}", g.has_path(r, r2) as u8);
        }
        o.push(';');
    }
    if let Some(c) = st.conflicts() {
        let _ = write!(o, "cpp {:?};", c.pp(g));
    }
    o
}

// ---------------------------------------------------------------------------------------------------
// parsing with a lexeme vector

struct VLexer<T: Debug> {
    lexemes: Vec<DefaultLexeme<T>>,
}

impl<T> Lexer<DefaultLexerTypes<T>> for VLexer<T>
where
    T: 'static + Debug + Hash + PrimInt + Unsigned,
    usize: AsPrimitive<T>,
{
    fn iter<'a>(&'a self) -> Box<dyn Iterator<Item = Result<DefaultLexeme<T>, lrlex::LRLexError>> + 'a> {
        Box::new(self.lexemes.iter().map(|l| Ok(*l)))
    }
}

impl<'input, T> NonStreamingLexer<'input, DefaultLexerTypes<T>> for VLexer<T>
where
    T: 'static + Debug + Hash + PrimInt + Unsigned,
    usize: AsPrimitive<T>,
{
    fn span_str(&self, _: Span) -> &'input str {
        ""
    }
    fn span_lines_str(&self, _: Span) -> &'input str {
        ""
    }
    fn line_col(&self, s: Span) -> ((usize, usize), (usize, usize)) {
        ((1, s.start() + 1), (1, s.end() + 1))
    }
}

/// the part of a CPCT+ parse result that does not depend on which of several equally ranked repair
/// sequences was applied (their order comes out of a hash map): the errors up to and including the
/// first one that offers more than one sequence; the whole result (tree included) if there is none
fn choice_free(r: &str) -> String {
    let parts: Vec<&str> = r.split(" E ").collect();
    let mut o = String::new();
    for (i, p) in parts.iter().enumerate() {
        if i == 0 {
            continue;
        }
        o.push_str(" E ");
        o.push_str(p);
        if p.matches('<').count() > 1 {
            return o;
        }
    }
    r.to_string()
}

fn fmt_lexeme<T: Debug + PrimInt + Unsigned + Hash>(l: &DefaultLexeme<T>) -> String {
    format!("{}@{}+{}{}", u(l.tok_id()), l.span().start(), l.span().len(), if l.faulty() { "!" } else { "" })
}

/// result of one parse as text: tree, then errors with state, lexeme and all repair sequences
fn parse_text<T>(g: &YaccGrammar<T>, st: &StateTable<T>, toks: &[usize], rk: RecoveryKind) -> (String, u128)
where
    T: 'static + Debug + Hash + PrimInt + Unsigned,
    usize: AsPrimitive<T>,
{
    let lexemes: Vec<DefaultLexeme<T>> = toks.iter().enumerate().map(|(i, t)| DefaultLexeme::new((*t).as_(), 2 * i, 1)).collect();
    let lexer = VLexer { lexemes };
    let t0 = Instant::now();
    let r = guarded(AssertUnwindSafe(|| {
        let pb: RTParserBuilder<T, DefaultLexerTypes<T>> = RTParserBuilder::new(g, st).recoverer(rk);
        let (tree, errs) = pb.parse_map(
            &lexer,
            &|l: DefaultLexeme<T>| format!("[{}]", fmt_lexeme(&l)),
            &|r: RIdx<T>, kids: Vec<String>| format!("({} {})", u(r.0), kids.join(" ")),
        );
        let mut o = format!("tree {:?} errs", tree);
        for e in errs {
            match e {
                LexParseError::LexError(_) => o.push_str(" lexerror"),
                LexParseError::ParseError(pe) => {
                    let _ = write!(o, " E st={} lx={} reps=", u(pe.stidx().0), fmt_lexeme(pe.lexeme()));
                    // equally ranked repair sequences come out in hash order: compared as a set
                    let mut seqs: Vec<String> = Vec::new();
                    for seq in pe.repairs() {
                        let mut q = String::from("<");
                        for rp in seq {
                            match rp {
                                ParseRepair::Insert(t) => {
                                    let _ = write!(q, "I{} ", u(t.0));
                                }
                                ParseRepair::Delete(l) => {
                                    let _ = write!(q, "D{} ", fmt_lexeme(l));
                                }
                                ParseRepair::Shift(l) => {
                                    let _ = write!(q, "S{} ", fmt_lexeme(l));
                                }
                            }
                        }
                        q.push('>');
                        seqs.push(q);
                    }
                    seqs.sort();
                    o.push_str(&seqs.join(""));
                }
            }
        }
        o
    }));
    let ms = t0.elapsed().as_millis();
    (r.unwrap_or_else(|e| format!("PANIC {}", e)), ms)
}

/// a random derivation from the start rule (depth-bounded; `None` if it grows too long)
fn sample_sentence<T>(g: &YaccGrammar<T>, rng: &mut Rng) -> Option<Vec<usize>>
where
    T: 'static + Debug + Hash + PrimInt + Unsigned,
    usize: AsPrimitive<T>,
{
    fn go<T>(g: &YaccGrammar<T>, r: RIdx<T>, depth: usize, rng: &mut Rng, out: &mut Vec<usize>, steps: &mut usize) -> bool
    where
        T: 'static + Debug + Hash + PrimInt + Unsigned,
        usize: AsPrimitive<T>,
    {
        *steps += 1;
        if *steps > 200 || out.len() > 24 {
            return false;
        }
        let ps = g.rule_to_prods(r);
        let p = if depth > 5 {
            // fewest rule symbols
            *ps.iter().min_by_key(|p| g.prod(**p).iter().filter(|s| matches!(s, Symbol::Rule(_))).count()).unwrap()
        } else {
            ps[rng.below(ps.len())]
        };
        for s in g.prod(p) {
            match s {
                Symbol::Token(t) => out.push(u(t.0)),
                Symbol::Rule(r2) => {
                    if !go(g, *r2, depth + 1, rng, out, steps) {
                        return false;
                    }
                }
            }
        }
        true
    }
    let mut out = Vec::new();
    let mut steps = 0;
    let start = match g.prod(g.start_prod())[0] {
        Symbol::Rule(r) => r,
        _ => return None,
    };
    if go(g, start, 0, rng, &mut out, &mut steps) {
        Some(out)
    } else {
        None
    }
}

fn gen_inputs<T>(g: &YaccGrammar<T>, rng: &mut Rng, n: usize) -> Vec<Vec<usize>>
where
    T: 'static + Debug + Hash + PrimInt + Unsigned,
    usize: AsPrimitive<T>,
{
    let nt = u(g.tokens_len().0);
    let eof = u(g.eof_token_idx().0);
    let real: Vec<usize> = (0..nt).filter(|t| *t != eof).collect();
    let mut v = vec![vec![]];
    if real.is_empty() {
        return v;
    }
    for i in 0..n {
        let mut s = match sample_sentence(g, rng) {
            Some(s) if i % 3 != 2 => s,
            _ => (0..rng.range(1, 7)).map(|_| *rng.pick(&real)).collect(),
        };
        // 0..2 mutations
        for _ in 0..rng.below(3) {
            match rng.below(3) {
                0 if !s.is_empty() => {
                    let k = rng.below(s.len());
                    s.remove(k);
                }
                1 => {
                    let k = rng.below(s.len() + 1);
                    s.insert(k, *rng.pick(&real));
                }
                _ if !s.is_empty() => {
                    let k = rng.below(s.len());
                    s[k] = *rng.pick(&real);
                }
                _ => {}
            }
        }
        s.truncate(14);
        v.push(s);
    }
    v
}

// ---------------------------------------------------------------------------------------------------

#[derive(Clone, Copy)]
pub struct CaseCtx<'a> {
    pub text: &'a str,
    pub kind: u8,
    pub label: &'a str,
    pub seed: u64,
    pub ninputs: usize,
}


/// parse comparison in a child (`vharness C14 --child BITS KIND SEED NINPUTS`, grammar on stdin);
/// returns the failures as (cfgid, message); counts go to `out`
fn run_parse_child(c: &CaseCtx, bits: usize, out: &mut Out) -> Vec<(usize, String)> {
    use std::io::{Read, Write};
    use std::process::{Command, Stdio};
    let exe = std::env::current_exe().unwrap();
    let mut ch = match Command::new("sh")
        .arg("-c")
        .arg(format!("ulimit -v 1500000; exec {} C14 --child {} {} {} {}", exe.display(), bits, c.kind, c.seed, c.ninputs))
        .stdin(Stdio::piped())
        .stdout(Stdio::piped())
        .stderr(Stdio::null())
        .spawn()
    {
        Ok(ch) => ch,
        Err(_) => return vec![],
    };
    {
        let mut si = ch.stdin.take().unwrap();
        let _ = si.write_all(c.text.as_bytes());
    }
    // reader thread so that a full pipe never blocks the child
    let mut so = ch.stdout.take().unwrap();
    let rd = std::thread::spawn(move || {
        let mut s = String::new();
        let _ = so.read_to_string(&mut s);
        s
    });
    let t0 = Instant::now();
    let deadline = std::time::Duration::from_millis(1500 + 1200 * c.ninputs as u64);
    loop {
        match ch.try_wait() {
            Ok(Some(_)) => break,
            Ok(None) => {
                let over = match crate::gen::worker::cpu_ms(ch.id()) {
                    Some(u) => u as u128 > deadline.as_millis(),
                    None => t0.elapsed() > deadline,
                };
                if over || t0.elapsed() > deadline * crate::gen::worker::WALL_FACTOR {
                    let _ = ch.kill();
                    let _ = ch.wait();
                    break;
                }
                std::thread::sleep(std::time::Duration::from_millis(2));
            }
            Err(_) => break,
        }
    }
    let s = rd.join().unwrap_or_default();
    let mut fails = Vec::new();
    let mut done = false;
    for l in s.lines() {
        if l == "DONE" {
            done = true;
        } else if l.starts_with('C') {
            out.count("parse.compared");
            if l.contains(" err") {
                out.count("parse.with_errors");
            }
            if l.contains(" rep") {
                out.count("parse.with_repairs");
            }
            if l.contains(" tree") {
                out.count("parse.with_tree");
            }
        } else if l == "X" {
            out.count("parse.inconclusive_nondeterministic_or_slow");
        } else if let Some(rest) = l.strip_prefix("F ") {
            let mut it = rest.splitn(2, ' ');
            let k = it.next().and_then(|x| x.parse::<usize>().ok()).unwrap_or(0);
            fails.push((k, it.next().unwrap_or("").to_string()));
        }
    }
    if !done {
        // the driver looped / exhausted memory / died on the ORIGINAL or the reconstituted objects;
        // which one cannot be told from outside: not a verdict
        out.count("parse.child_did_not_finish");
    }
    fails
}

/// the serialisation of `CTParserBuilder::build`, the reconstitution of the generated code
macro_rules! ser_de {
    ($t:ty, $g:expr, $st:expr, $cfgid:expr) => {{
        if $cfgid == 0 {
            let config = wincode::config::Configuration::default().with_fixint_encoding();
            let gb = wincode::config::serialize($g, config);
            let sb = wincode::config::serialize($st, config);
            match (gb, sb) {
                (Ok(gb), Ok(sb)) => {
                    let pd = guarded(AssertUnwindSafe(|| _reconstitute::<_, $t>(&gb, &sb, config)));
                    Ok((gb, sb, pd))
                }
                (Err(e), _) | (_, Err(e)) => Err(format!("{}", e)),
            }
        } else {
            let config = wincode::config::Configuration::default().with_varint_encoding();
            let gb = wincode::config::serialize($g, config);
            let sb = wincode::config::serialize($st, config);
            match (gb, sb) {
                (Ok(gb), Ok(sb)) => {
                    let pd = guarded(AssertUnwindSafe(|| _reconstitute::<_, $t>(&gb, &sb, config)));
                    Ok((gb, sb, pd))
                }
                (Err(e), _) | (_, Err(e)) => Err(format!("{}", e)),
            }
        }
    }};
}

macro_rules! width_case {
    ($fname:ident, $child:ident, $t:ty, $bits:expr) => {
        fn $child(c: &CaseCtx) {
            use std::io::Write;
            let so = std::io::stdout();
            let g = match YaccGrammar::<$t>::new_with_storaget(grammar::yacc_kind(c.kind), c.text) {
                Ok(g) => g,
                Err(_) => return,
            };
            let (_, st) = match lrtable::from_yacc(&g, Minimiser::Pager) {
                Ok(x) => x,
                Err(_) => return,
            };
            let mut rng = Rng::for_case(c.seed, 1414, 7);
            let inputs = gen_inputs(&g, &mut rng, c.ninputs);
            // watchdog: one input's parses taking over 2.5 s = the driver loops; give up (no DONE line)
            let tick = std::sync::Arc::new(std::sync::atomic::AtomicU64::new(0));
            {
                let tick = tick.clone();
                std::thread::spawn(move || {
                    let mut last = 0;
                    let mut since = Instant::now();
                    loop {
                        std::thread::sleep(std::time::Duration::from_millis(20));
                        let now = tick.load(std::sync::atomic::Ordering::Relaxed);
                        if now != last {
                            last = now;
                            since = Instant::now();
                        } else if since.elapsed().as_millis() > 2500 {
                            std::process::exit(3);
                        }
                    }
                });
            }
            let mut pds = Vec::new();
            for cfgid in 0..2usize {
                match ser_de!($t, &g, &st, cfgid) {
                    Ok((_, _, Ok(pd))) => pds.push((cfgid, pd)),
                    _ => {}
                }
            }
            for inp in &inputs {
                tick.fetch_add(1, std::sync::atomic::Ordering::Relaxed);
                // reference parses on the original objects
                let (n1, _) = parse_text(&g, &st, inp, RecoveryKind::None);
                let (a1, ms1) = parse_text(&g, &st, inp, RecoveryKind::CPCTPlus);
                let stable_ref = ms1 <= 400;
                for (cfgid, pd) in &pds {
                    let (nb, _) = parse_text(pd.grm(), pd.stable(), inp, RecoveryKind::None);
                    let mut line = String::from("C");
                    if n1 != nb {
                        line = format!("F {} input {:?} (no recovery): original {} / reconstituted {}", cfgid, inp, n1, nb);
                    } else if stable_ref {
                        let (b, ms) = parse_text(pd.grm(), pd.stable(), inp, RecoveryKind::CPCTPlus);
                        if choice_free(&a1) != choice_free(&b) && ms <= 400 {
                            line = format!("F {} input {:?} (CPCT+): original {} / reconstituted {}", cfgid, inp, a1, b);
                        } else if a1 != b {
                            // same up to the first error with several equally ranked repairs (the applied
                            // one is the first in hash order), or the time budget was hit
                            line = "X".to_string();
                        }
                    } else {
                        line = "X".to_string();
                    }
                    if line == "C" {
                        if a1.contains(" E ") {
                            line.push_str(" err");
                        }
                        if a1.contains("reps=<") {
                            line.push_str(" rep");
                        }
                        if a1.starts_with("tree Some") {
                            line.push_str(" tree");
                        }
                    }
                    let _ = writeln!(so.lock(), "{}", line.replace('\n', " "));
                    let _ = so.lock().flush();
                }
            }
            let _ = writeln!(so.lock(), "DONE");
        }

        fn $fname(out: &mut Out, c: &CaseCtx) {
            let built = guarded(AssertUnwindSafe(|| YaccGrammar::<$t>::new_with_storaget(grammar::yacc_kind(c.kind), c.text)));
            let g = match built {
                Ok(Ok(g)) => g,
                Ok(Err(_)) => {
                    out.count(&format!("rejected.u{}", $bits));
                    return;
                }
                Err(_) => {
                    out.count(&format!("build_panicked.u{}", $bits));
                    return;
                }
            };
            let (sg, st) = match guarded(AssertUnwindSafe(|| lrtable::from_yacc(&g, Minimiser::Pager))) {
                Ok(Ok(x)) => x,
                Ok(Err(_)) => {
                    out.count(&format!("table_rejected.u{}", $bits));
                    return;
                }
                Err(_) => {
                    out.count(&format!("table_panicked.u{}", $bits));
                    return;
                }
            };
            let nstates = u(sg.all_states_len().0);
            let d0 = dump(&g, &st, nstates);
            let x0 = dump_derived(&g, &st);
            // parses run in a child process under a deadline and a memory limit: the LR driver itself
            // can loop (growing its stack) on tables of cyclic grammars, with the original objects too
            let pres = run_parse_child(&CaseCtx { ninputs: if $bits == 16 { c.ninputs } else { 2 }, ..*c }, $bits, out);
            for cfgid in 0..2usize {
                let id = out.id();
                let desc = format!(
                    "{} kind={} width=u{} enc={} grammar=[{}]",
                    c.label,
                    c.kind,
                    $bits,
                    if cfgid == 0 { "fixed" } else { "variable" },
                    c.text.replace('\n', " ").trim()
                );
                out.imp(id, "D", &desc);
                out.imp(id, "G", &format!("{} {}", c.kind, c.text.replace('\\', "\\\\").replace('\n', "\\n")));
                let r = ser_de!($t, &g, &st, cfgid);
                let (gb, sb, pd) = match r {
                    Err(e) => {
                        // refused at build time: nothing comes back, nothing to compare
                        out.count("serialise_refused");
                        out.case("C14", id, &format!("{} {} 0 0 0", cfgid, $bits));
                        out.imp(id, "H", &format!("ok serialise refused: {}", e.replace('\n', " ")));
                        continue;
                    }
                    Ok(x) => x,
                };
                out.case(
                    "C14",
                    id,
                    &format!("{} {} {} {} {}", cfgid, $bits, nstates, crate::out::plist(&gb), crate::out::plist(&sb)),
                );
                out.add("bytes.grammar", gb.len() as u64);
                out.add("bytes.table", sb.len() as u64);
                let pd = match pd {
                    Ok(pd) => pd,
                    Err(e) => {
                        out.imp(id, "H", &format!("fail reconstitution panicked: {}", e.replace('\n', " ")));
                        continue;
                    }
                };
                let mut fails: Vec<String> = Vec::new();
                let d1 = guarded(AssertUnwindSafe(|| dump(pd.grm(), pd.stable(), nstates)));
                match &d1 {
                    Ok(d1) => {
                        out.imp(id, "I", d1);
                        if *d1 != d0 {
                            fails.push(format!("query answers differ: {}", first_diff(&d0, d1)));
                        }
                    }
                    Err(e) => fails.push(format!("a query panicked on the reconstituted objects: {}", e)),
                }
                match guarded(AssertUnwindSafe(|| dump_derived(pd.grm(), pd.stable()))) {
                    Ok(x1) => {
                        if x1 != x0 {
                            fails.push(format!("derived query answers differ: {}", first_diff(&x0, &x1)));
                        }
                    }
                    Err(e) => fails.push(format!("a derived query panicked on the reconstituted objects: {}", e)),
                }
                // serialising the reconstituted objects gives the same bytes again
                if let Ok((gb2, sb2, _)) = ser_de!($t, pd.grm(), pd.stable(), cfgid) {
                    if gb2 != gb || sb2 != sb {
                        fails.push("re-serialising the reconstituted objects gives different bytes".to_string());
                    }
                }
                for f in pres.iter().filter(|(k, _)| *k == cfgid) {
                    fails.push(f.1.clone());
                }
                if fails.is_empty() {
                    out.imp(id, "H", "ok");
                } else {
                    out.imp(id, "H", &format!("fail {}", fails.join(" || ").replace('\n', " ")));
                }
                out.count(&format!("width.u{}", $bits));
                out.count(&format!("enc.{}", if cfgid == 0 { "fixed" } else { "variable" }));
                out.count(&format!("kind.{}", c.kind));
                out.count(&format!("states.{}", if nstates < 8 { "lt8" } else if nstates < 32 { "8to31" } else if nstates < 251 { "32to250" } else { "ge251" }));
                if g.iter_tidxs().any(|t| g.avoid_insert(t)) {
                    out.count("has.avoid_insert");
                }
                if g.iter_tidxs().any(|t| g.token_epp(t).is_some()) {
                    out.count("has.epp");
                }
                if g.iter_pidxs().any(|p| guarded(AssertUnwindSafe(|| g.action(p).is_some())).unwrap_or(false)) {
                    out.count("has.actions");
                }
                if g.iter_rules().any(|r| g.actiontype(r).is_some()) {
                    out.count("has.actiontype");
                }
                if g.parse_param().is_some() {
                    out.count("has.parse_param");
                }
                if g.parse_generics().is_some() {
                    out.count("has.parse_generics");
                }
                if g.programs().is_some() {
                    out.count("has.programs");
                }
                if g.expect().is_some() || g.expectrr().is_some() {
                    out.count("has.expect");
                }
                if g.implicit_rule().is_some() {
                    out.count("has.implicit_rule");
                }
                if st.conflicts().is_some() {
                    out.count("has.conflicts");
                }
                if g.iter_tidxs().any(|t| g.token_precedence(t).is_some()) {
                    out.count("has.precedence");
                }
                if !c.text.is_ascii() {
                    out.count("has.non_ascii");
                }
                if out.next_id % 97 == 1 {
                    out.sample(desc);
                }
            }
        }
    };
}

width_case!(case_u8, child_u8, u8, 8);
width_case!(case_u16, child_u16, u16, 16);
width_case!(case_u32, child_u32, u32, 32);

/// a dump without the `c` (core_reduces) lists and with sorted conflict lists
fn strip_core(d: &str) -> String {
    let mut o = Vec::new();
    let mut skip = false;
    for t in d.split(' ') {
        if t == "c" {
            skip = true;
        } else if t == "o" {
            skip = false;
        }
        if !skip {
            o.push(t.to_string());
        }
    }
    // conflict lists are in hash order per build: sorted
    if let Some(k) = o.iter().position(|t| t == "k") {
        if o.get(k + 1).map(|x| x == "1").unwrap_or(false) {
            let nums: Vec<usize> = o[k + 2..].iter().filter_map(|x| x.parse().ok()).collect();
            if !nums.is_empty() {
                let nrr = nums[0];
                let mut rr: Vec<Vec<usize>> = nums[1..].chunks(4).take(nrr).map(|c| c.to_vec()).collect();
                let rest = &nums[(1 + 4 * nrr).min(nums.len())..];
                if !rest.is_empty() {
                    let nsr = rest[0];
                    let mut sr: Vec<Vec<usize>> = rest[1..].chunks(3).take(nsr).map(|c| c.to_vec()).collect();
                    rr.sort();
                    sr.sort();
                    o.truncate(k + 2);
                    o.push(format!("{:?} {:?}", rr, sr));
                }
            }
        }
    }
    o.join(" ")
}

fn first_diff(a: &str, b: &str) -> String {
    let x: Vec<&str> = a.split(' ').collect();
    let y: Vec<&str> = b.split(' ').collect();
    for i in 0..x.len().min(y.len()) {
        if x[i] != y[i] {
            let lo = i.saturating_sub(6);
            return format!("token {}: original …{}… / reconstituted …{}…", i, x[lo..(i + 3).min(x.len())].join(" "), y[lo..(i + 3).min(y.len())].join(" "));
        }
    }
    format!("lengths {} / {}", x.len(), y.len())
}

fn all_widths(out: &mut Out, c: &CaseCtx) {
    case_u8(out, c);
    case_u16(out, c);
    case_u32(out, c);
}

// ---------------------------------------------------------------------------------------------------
// stage 3: CTParserBuilder::build itself

fn parse_byte_array(src: &str, name: &str) -> Option<Vec<u8>> {
    let i = src.find(name)?;
    let rest = &src[i..];
    let a = rest.find('=')?;
    let rest = &rest[a..];
    let lb = rest.find('[')?;
    let rb = rest.find(']')?;
    let body = &rest[lb + 1..rb];
    let mut v = Vec::new();
    for x in body.split(',') {
        let x = x.trim().trim_end_matches("u8").trim();
        if x.is_empty() {
            continue;
        }
        v.push(x.parse::<u8>().ok()?);
    }
    Some(v)
}

/// which `with_…_encoding` the generated start-up code uses in the match arm of `fmt`
fn arm_encoding(src: &str, fmt: &str) -> Option<&'static str> {
    let flat: String = src.split_whitespace().collect::<Vec<_>>().join("");
    let key = format!("SerialisationFormat::{}=>", fmt);
    let i = flat.find(&key)?;
    let rest = &flat[i + key.len()..];
    let j = rest.find("_reconstitute(")?;
    let call = &rest[j..];
    let e = call.find("_encoding()")?;
    let call = &call[..e];
    if call.ends_with("with_fixint") {
        Some("fixint")
    } else if call.ends_with("with_varint") {
        Some("varint")
    } else {
        None
    }
}

fn ct_case(out: &mut Out, a: &Args, text: &str, kind: u8, n: usize) {
    use lrpar::{CTParserBuilder, SerialisationFormat};
    let dir = a.out.join("ct");
    let _ = std::fs::create_dir_all(&dir);
    for (fi, fmt) in [SerialisationFormat::FixedSizeInteger, SerialisationFormat::VariableSizedInteger].iter().enumerate() {
        let id = out.id();
        let gp = dir.join(format!("g{}_{}.y", n, fi));
        let op = dir.join(format!("g{}_{}.y.rs", n, fi));
        std::fs::write(&gp, text).unwrap();
        let desc = format!("CTParserBuilder::build kind={} format={:?} grammar=[{}]", kind, fmt, text.replace('\n', " ").trim());
        out.imp(id, "D", &desc);
        out.imp(id, "G", &format!("{} {}", kind, text.replace('\\', "\\\\").replace('\n', "\\n")));
        let r = guarded(AssertUnwindSafe(|| {
            CTParserBuilder::<DefaultLexerTypes<u32>>::new()
                .yacckind(grammar::yacc_kind(kind))
                .grammar_path(&gp)
                .output_path(&op)
                .mod_name("m")
                .error_on_conflicts(false)
                .warnings_are_errors(false)
                .show_warnings(false)
                .serialisation_format(*fmt)
                .build()
                .map_err(|e| e.to_string())
        }));
        let ctp = match r {
            Ok(Ok(ctp)) => ctp,
            Ok(Err(_)) | Err(_) => {
                out.count("ct.build_rejected");
                out.case("C14", id, &format!("{} 32 0 0 0", fi));
                out.imp(id, "H", "ok build refused");
                continue;
            }
        };
        let src = std::fs::read_to_string(&op).unwrap_or_default();
        let gb = parse_byte_array(&src, "__GRM_DATA");
        let sb = parse_byte_array(&src, "__STABLE_DATA");
        let (gb, sb) = match (gb, sb) {
            (Some(g), Some(s)) => (g, s),
            _ => {
                out.case("C14", id, &format!("{} 32 0 0 0", fi));
                out.imp(id, "H", "fail generated source does not carry __GRM_DATA/__STABLE_DATA byte arrays in the expected form (harness cannot tie)");
                continue;
            }
        };
        // the builder's own grammar; a table built afresh from it (the builder does not hand out its
        // table; `core_reduces` is documented to be an arbitrary choice per build and is left out)
        let g = ctp.yacc_grammar();
        let (sg, st) = lrtable::from_yacc(g, Minimiser::Pager).unwrap();
        let nstates = u(sg.all_states_len().0);
        out.case("C14", id, &format!("{} 32 {} {} {}", fi, nstates, crate::out::plist(&gb), crate::out::plist(&sb)));
        let mut fails = Vec::new();
        let fmtname = if fi == 0 { "FixedSizeInteger" } else { "VariableSizedInteger" };
        if !src.split_whitespace().collect::<Vec<_>>().join("").contains(&format!("__SERIALISATION_FORMAT:::lrpar::ctbuilder::SerialisationFormat=::lrpar::ctbuilder::SerialisationFormat::{}", fmtname))
            && !src.split_whitespace().collect::<Vec<_>>().join("").contains(&format!("SerialisationFormat::{};", fmtname))
        {
            fails.push(format!("generated source does not record format {}", fmtname));
        }
        let enc = arm_encoding(&src, fmtname);
        // reconstitute the embedded bytes with the configuration the generated start-up code names
        let pd = match enc {
            Some("fixint") => guarded(AssertUnwindSafe(|| _reconstitute::<_, u32>(&gb, &sb, wincode::config::Configuration::default().with_fixint_encoding()))),
            Some("varint") => guarded(AssertUnwindSafe(|| _reconstitute::<_, u32>(&gb, &sb, wincode::config::Configuration::default().with_varint_encoding()))),
            _ => Err("generated start-up code not recognised".to_string()),
        };
        let d0 = dump(g, &st, nstates);
        match pd {
            Err(e) => fails.push(format!("generated start-up code ({:?}) cannot reconstitute the embedded bytes: {}", enc, e)),
            Ok(pd) => match guarded(AssertUnwindSafe(|| dump(pd.grm(), pd.stable(), nstates))) {
                Ok(d1) => {
                    out.imp(id, "I", &d1);
                    if strip_core(&d1) != strip_core(&d0) {
                        fails.push(format!("generated parser's objects differ from the builder's: {}", first_diff(&strip_core(&d0), &strip_core(&d1))));
                    }
                }
                Err(e) => fails.push(format!("query panicked on generated parser's objects: {}", e)),
            },
        }
        // the embedded bytes are the bytes of the harness's own serialisation (stage 1 = what build does)
        if let Ok((gb1, _, _)) = ser_de!(u32, g, &st, fi) {
            if gb1 != gb {
                fails.push("grammar bytes embedded by build differ from wincode::config::serialize with the configuration of that format".to_string());
            }
        }
        out.count("ct.builds");
        if fails.is_empty() {
            out.imp(id, "H", "ok");
        } else {
            out.imp(id, "H", &format!("fail {}", fails.join(" || ").replace('\n', " ")));
        }
    }
}

/// a grammar whose programs section is larger than wincode's 4 MiB preallocation limit: `build` may
/// refuse it, but if it writes a parser, the start-up configuration that parser names must be able to
/// reconstitute what was embedded (the bytes are not sent to the Lean decoder: too large for a request)
fn ct_big_case(out: &mut Out, a: &Args) {
    use lrpar::{CTParserBuilder, SerialisationFormat};
    let dir = a.out.join("ct");
    let _ = std::fs::create_dir_all(&dir);
    let text = format!("%start S\n%%\nS: 'a' S | 'b';\n%%\n{}", "#[allow(dead_code)] const FILLER: &str = \"a large programs section\";\n".repeat(70_000));
    for (fi, fmt) in [SerialisationFormat::FixedSizeInteger, SerialisationFormat::VariableSizedInteger].iter().enumerate() {
        let id = out.id();
        let gp = dir.join(format!("big_{}.y", fi));
        let op = dir.join(format!("big_{}.y.rs", fi));
        std::fs::write(&gp, &text).unwrap();
        out.imp(id, "D", &format!("CTParserBuilder::build format={:?} grammar with a {} byte programs section", fmt, text.len()));
        out.case("C14", id, &format!("{} 32 0 0 0", fi));
        let r = guarded(AssertUnwindSafe(|| {
            CTParserBuilder::<DefaultLexerTypes<u32>>::new()
                .yacckind(grammar::yacc_kind(0))
                .grammar_path(&gp)
                .output_path(&op)
                .mod_name("m")
                .show_warnings(false)
                .serialisation_format(*fmt)
                .build()
                .map(|_| ())
                .map_err(|e| e.to_string())
        }));
        let verdict = match r {
            Ok(Err(_)) | Err(_) => {
                out.count("ct.big_build_refused");
                "ok build refused".to_string()
            }
            Ok(Ok(())) => {
                out.count("ct.big_build_accepted");
                let src = std::fs::read_to_string(&op).unwrap_or_default();
                let fmtname = if fi == 0 { "FixedSizeInteger" } else { "VariableSizedInteger" };
                match (parse_byte_array(&src, "__GRM_DATA"), parse_byte_array(&src, "__STABLE_DATA"), arm_encoding(&src, fmtname)) {
                    (Some(gb), Some(sb), Some(enc)) => {
                        let pd = if enc == "fixint" {
                            guarded(AssertUnwindSafe(|| _reconstitute::<_, u32>(&gb, &sb, wincode::config::Configuration::default().with_fixint_encoding()).grm().prods_len()))
                        } else {
                            guarded(AssertUnwindSafe(|| _reconstitute::<_, u32>(&gb, &sb, wincode::config::Configuration::default().with_varint_encoding()).grm().prods_len()))
                        };
                        match pd {
                            Ok(_) => "ok".to_string(),
                            Err(e) => format!("fail build accepted a grammar with a {} byte programs section, but the start-up configuration of the generated parser cannot reconstitute what it embeds: {}", text.len(), e.replace('\n', " ")),
                        }
                    }
                    _ => "fail generated source of the large grammar not recognised (harness cannot tie)".to_string(),
                }
            }
        };
        out.imp(id, "H", &verdict);
        let _ = std::fs::remove_file(&gp);
        let _ = std::fs::remove_file(&op);
    }
}

// ---------------------------------------------------------------------------------------------------

/// hand-written cases: (kind, text)
fn corpus() -> Vec<(u8, String)> {
    let mut v: Vec<(u8, String)> = Vec::new();
    for t in grammar::classics() {
        v.push((0, t.to_string()));
    }
    v.push((3, "%start Expr\n%avoid_insert \"INT\"\n%epp \"+\" \"plus é\"\n%expect 1\n%parse-param p: &'input mut Vec<String>\n%%\nExpr -> Result<u64, ()>: Expr \"+\" Expr { Ok($1? + $3?) } | \"INT\" { Ok(1) /* 日本 */ };\n%%\nfn f() -> char { '🦀' }\n".to_string()));
    v.push((1, "%start A\n%actiontype Größe\n%token \"ü\" 'ß'\n%left \"é\"\n%right \"日本\"\n%nonassoc '🦀'\n%expect-rr 0\n%%\nA: A \"é\" A { a } | A \"日本\" A { b } | A '🦀' A %prec \"é\" { c } | \"x\" { é };\n".to_string()));
    v.push((4, "%start S\n%implicit_tokens WS \"ws2\"\n%%\nS: 'a' S | 'b';\n".to_string()));
    v.push((2, "%start S\n%%\nS: ;\n".to_string()));
    // more than 250 tokens / productions: multi-byte variable-length integers, wide indices
    let mut big = String::from("%start S\n%%\nS: ");
    let alts: Vec<String> = (0..300).map(|i| format!("'k{}' S 'e{}'", i, i)).collect();
    big.push_str(&alts.join(" | "));
    big.push_str(" | ;\n");
    v.push((0, big));
    let mut big2 = String::from("%start R0\n%%\n");
    for i in 0..270 {
        big2.push_str(&format!("R{}: 'a' R{} | 'b{}';\n", i, (i + 1) % 270, i % 7));
    }
    v.push((0, big2));
    v
}

fn parse_replay(txt: &str) -> Vec<(u8, String)> {
    let mut v = Vec::new();
    for line in txt.lines() {
        if let Some(rest) = line.strip_prefix("# G ") {
            let mut it = rest.splitn(2, ' ');
            let kind = it.next().and_then(|k| k.parse::<u8>().ok()).unwrap_or(0);
            let enc = it.next().unwrap_or("");
            // undo the escaping of the G line
            let mut text = String::new();
            let mut chars = enc.chars();
            while let Some(ch) = chars.next() {
                if ch == '\\' {
                    match chars.next() {
                        Some('n') => text.push('\n'),
                        Some('\\') => text.push('\\'),
                        Some(x) => {
                            text.push('\\');
                            text.push(x)
                        }
                        None => text.push('\\'),
                    }
                } else {
                    text.push(ch);
                }
            }
            v.push((kind, text));
        }
    }
    v
}

pub fn run(a: &Args) {
    if std::env::var("VHARNESS_SHOW_PANICS").is_ok() {
        let _ = std::panic::take_hook();
    }
    if let Some(i) = a.extra.iter().position(|x| x == "--child") {
        use std::io::Read;
        let g = |k: usize| a.extra.get(i + k).and_then(|x| x.parse::<u64>().ok()).unwrap_or(0);
        let mut text = String::new();
        let _ = std::io::stdin().read_to_string(&mut text);
        let c = CaseCtx { text: &text, kind: g(2) as u8, label: "child", seed: g(3), ninputs: g(4) as usize };
        match g(1) {
            8 => child_u8(&c),
            16 => child_u16(&c),
            _ => child_u32(&c),
        }
        return;
    }
    let mut out = Out::new(&a.out);
    let ninputs = if a.thorough { 12 } else { 6 };
    if let Some(rp) = &a.replay {
        let txt = std::fs::read_to_string(rp).unwrap_or_default();
        let is_ct = txt.contains("CTParserBuilder::build");
        for (n, (kind, text)) in parse_replay(&txt).into_iter().enumerate() {
            if is_ct {
                ct_case(&mut out, a, &text, kind, n);
            } else {
                all_widths(&mut out, &CaseCtx { text: &text, kind, label: "replay", seed: a.seed, ninputs });
            }
        }
        out.finish(&a.out);
        return;
    }
    let corp = corpus();
    for (i, (kind, text)) in corp.iter().enumerate() {
        if i % a.shards != a.shard {
            continue;
        }
        all_widths(&mut out, &CaseCtx { text, kind: *kind, label: "corpus", seed: a.seed, ninputs });
    }
    // stage 3 on a few corpus grammars and generated ones (CTParserBuilder does not take Eco)
    if a.shard == 0 {
        let mut n = 0;
        for (kind, text) in corp.iter().filter(|(k, _)| *k != 4).skip(3).step_by(5) {
            ct_case(&mut out, a, text, *kind, n);
            n += 1;
        }
    }
    if a.shard == 1 % a.shards {
        ct_big_case(&mut out, a);
    }
    let n = if a.thorough { 1500 } else { 130 };
    for case in 0..n {
        if case % a.shards != a.shard {
            continue;
        }
        let mut rng = Rng::for_case(a.seed, 14, case as u64 + 1);
        let big = rng.chance(1, 8);
        let cfg = GenCfg {
            max_rules: if big { 9 } else { 5 },
            max_toks: if big { 8 } else { 5 },
            max_prods: if big { 5 } else { 3 },
            max_len: 4,
            precs: rng.chance(1, 2),
        };
        let mut g: AGrammar = grammar::random_grammar(&mut rng, &cfg);
        let d: Deco = grammar::random_deco(&mut rng, &mut g);
        let text = grammar::render_deco(&g, &d);
        let _: &S = &S::T(0);
        all_widths(&mut out, &CaseCtx { text: &text, kind: d.kind, label: "random", seed: a.seed.wrapping_add(case as u64), ninputs });
        if case % 40 == 7 && d.kind != 4 {
            ct_case(&mut out, a, &text, d.kind, 1000 + case);
        }
    }
    let _ = (YaccKind::Eco, YaccOriginalActionKind::NoAction, PIdx(0u8));
    out.finish(&a.out);
}
