//! C17: FIRST / FOLLOW / nullable / has_path / sentence costs of the real `YaccGrammar` against the
//! verified reference computations of the Lean side.
//!
//! Request:  <grammar> ntoks×cost | mincost nrules×ans | maxcost nrules×ans | minsent nrules×(ans) | minsents …
//!   (cost answers carried in the request are validated by the driver: `V` lines)
//! `I` line: `eps … first … follow … path …` — compared for equality with the driver's `S` line.
//! `If` line: `eps … first … follow …` — compared with the driver's `Mf` line (faithful Lean models of
//! the loops of `YaccFirsts::new` / `YaccFollows::new`).
use crate::gen::grammar::{self, GenCfg};
use crate::out::{guarded, join, Out};
use crate::rng::Rng;
use crate::Args;
use cfgrammar::yacc::YaccGrammar;
use cfgrammar::{RIdx, TIdx};
use std::io::{Read, Write};
use std::process::{Command, Stdio};
use std::time::{Duration, Instant};

fn bits(v: &[bool]) -> String {
    v.iter().map(|b| if *b { '1' } else { '0' }).collect()
}

/// cost queries run in a child process (they may not terminate or may overflow the stack); one answer
/// line per query, flushed as soon as it is known. `mode` = costs | sent | sents, from rule `start`.
pub fn child(mode: &str, start: usize) {
    let mut inp = String::new();
    std::io::stdin().read_to_string(&mut inp).unwrap();
    let mut parts = inp.splitn(2, '\n');
    let costs: Vec<u8> = parts.next().unwrap().split_whitespace().map(|x| x.parse().unwrap()).collect();
    let text = parts.next().unwrap_or("");
    let g = match grammar::build(text) {
        Ok(g) => g,
        Err(_) => return,
    };
    let out = std::io::stdout();
    let rules: Vec<RIdx<u32>> = g.iter_rules().collect();
    if mode == "costs" {
        let sg = g.sentence_generator(|t: TIdx<u32>| costs[usize::from(t)]);
        let v: Vec<String> = rules
            .iter()
            .map(|r| match guarded(std::panic::AssertUnwindSafe(|| sg.max_sentence_cost(*r))) {
                Ok(Some(c)) => c.to_string(),
                Ok(None) => "N".to_string(),
                Err(_) => "P".to_string(),
            })
            .collect();
        writeln!(out.lock(), "maxcost {}", v.join(" ")).unwrap();
        out.lock().flush().unwrap();
        let sg = g.sentence_generator(|t: TIdx<u32>| costs[usize::from(t)]);
        let v: Vec<String> = rules
            .iter()
            .map(|r| match guarded(std::panic::AssertUnwindSafe(|| sg.min_sentence_cost(*r))) {
                Ok(c) => c.to_string(),
                Err(_) => "P".to_string(),
            })
            .collect();
        writeln!(out.lock(), "mincost {}", v.join(" ")).unwrap();
        out.lock().flush().unwrap();
        // the two kinds of query on ONE generator, interleaved in both orders: the answers must be those
        // of the fresh generators above (the accessors share nothing but the grammar)
        let mut mixed: Vec<String> = Vec::new();
        for order in 0..2 {
            let sg = g.sentence_generator(|t: TIdx<u32>| costs[usize::from(t)]);
            let mut mx: Vec<String> = Vec::new();
            let mut mn: Vec<String> = Vec::new();
            for r in rules.iter() {
                let qmax = |mx: &mut Vec<String>| {
                    mx.push(match guarded(std::panic::AssertUnwindSafe(|| sg.max_sentence_cost(*r))) {
                        Ok(Some(c)) => c.to_string(),
                        Ok(None) => "N".to_string(),
                        Err(_) => "P".to_string(),
                    })
                };
                let qmin = |mn: &mut Vec<String>| {
                    mn.push(match guarded(std::panic::AssertUnwindSafe(|| sg.min_sentence_cost(*r))) {
                        Ok(c) => c.to_string(),
                        Err(_) => "P".to_string(),
                    })
                };
                if order == 0 {
                    qmin(&mut mn);
                    qmax(&mut mx);
                } else {
                    qmax(&mut mx);
                    qmin(&mut mn);
                }
            }
            mixed.push(format!("{}|{}", mx.join(" "), mn.join(" ")));
        }
        writeln!(out.lock(), "mixed {}", mixed.join("|")).unwrap();
        out.lock().flush().unwrap();
        return;
    }
    for r in rules.iter().skip(start) {
        let sg = g.sentence_generator(|t: TIdx<u32>| costs[usize::from(t)]);
        // a rule that derives no sentence has no minimal sentence to generate
        if let Ok(c) = guarded(std::panic::AssertUnwindSafe(|| sg.min_sentence_cost(*r))) {
            if c == u16::MAX {
                writeln!(out.lock(), "{} {} U", mode, usize::from(*r)).unwrap();
                out.lock().flush().unwrap();
                continue;
            }
        }
        let s = if mode == "sent" {
            match guarded(std::panic::AssertUnwindSafe(|| sg.min_sentence(*r))) {
                Ok(s) => format!("{} {}", s.len(), join(&s.iter().map(|t| usize::from(*t)).collect::<Vec<_>>())),
                Err(_) => "P".to_string(),
            }
        } else {
            match guarded(std::panic::AssertUnwindSafe(|| sg.min_sentences(*r))) {
                Ok(ss) => {
                    let mut o = format!("{}", ss.len().min(40));
                    for s in ss.iter().take(40) {
                        o.push_str(&format!(" {} {}", s.len(), join(&s.iter().map(|t| usize::from(*t)).collect::<Vec<_>>())));
                    }
                    o
                }
                Err(_) => "P".to_string(),
            }
        };
        let s = s.split_whitespace().collect::<Vec<_>>().join(" ");
        writeln!(out.lock(), "{} {} {}", mode, usize::from(*r), s).unwrap();
        out.lock().flush().unwrap();
    }
}

/// run the child with a deadline and an address-space limit; returns the lines it managed to print
fn run_child(text: &str, costs: &[u8], mode: &str, start: usize, deadline: Duration) -> Vec<String> {
    let exe = std::env::current_exe().unwrap();
    let mut ch = Command::new("sh")
        .arg("-c")
        .arg(format!("ulimit -v 1500000; exec {} C17 --child {} {}", exe.display(), mode, start))
        .stdin(Stdio::piped())
        .stdout(Stdio::piped())
        .stderr(Stdio::null())
        .spawn()
        .unwrap();
    {
        let mut si = ch.stdin.take().unwrap();
        let _ = si.write_all(format!("{}\n{}", join(costs), text).as_bytes());
    }
    let t0 = Instant::now();
    let pid = ch.id();
    loop {
        match ch.try_wait() {
            Ok(Some(_)) => break,
            Ok(None) => {
                // the deadline is CPU time of the child (a loaded machine is not a hang); wall-clock fallback
                let over = match crate::gen::worker::cpu_ms(pid) {
                    Some(u) => u as u128 > deadline.as_millis(),
                    None => t0.elapsed() > deadline,
                };
                if over || t0.elapsed() > deadline * crate::gen::worker::WALL_FACTOR {
                    let _ = ch.kill();
                    let _ = ch.wait();
                    break;
                }
                std::thread::sleep(Duration::from_millis(1));
            }
            Err(_) => break,
        }
    }
    let mut s = String::new();
    if let Some(mut so) = ch.stdout.take() {
        let _ = so.read_to_string(&mut s);
    }
    s.lines().map(|l| l.to_string()).collect()
}

/// all per-rule answers of one sentence query kind; a rule whose query kills or hangs the child is
/// recorded as "H" and the remaining rules are asked in a fresh child
fn per_rule(text: &str, costs: &[u8], mode: &str, nr: usize, hung: &mut u64) -> Vec<String> {
    let mut ans = vec!["H".to_string(); nr];
    let mut start = 0;
    while start < nr {
        let lines = run_child(text, costs, mode, start, Duration::from_millis(250));
        let mut last = None;
        for l in &lines {
            let mut it = l.splitn(3, ' ');
            if it.next() != Some(mode) {
                continue;
            }
            if let Some(ri) = it.next().and_then(|x| x.parse::<usize>().ok()) {
                if ri < nr {
                    ans[ri] = it.next().unwrap_or("0").to_string();
                    last = Some(ri);
                }
            }
        }
        let next = last.map(|x| x + 1).unwrap_or(start);
        if next >= nr {
            break;
        }
        // rule `next` did not answer
        *hung += 1;
        start = next + 1;
    }
    ans
}

fn emit(out: &mut Out, text: &str, costs_in: Option<Vec<u8>>, rng: &mut Rng, kind: &str) {
    let g: YaccGrammar<u32> = match grammar::build(text) {
        Ok(g) => g,
        Err(_) => {
            out.count("rejected_grammars");
            return;
        }
    };
    let id = out.id();
    let nt = usize::from(g.tokens_len());
    let nr = usize::from(g.rules_len());
    let costs: Vec<u8> = costs_in.map(|c| (0..nt).map(|i| *c.get(i).unwrap_or(&1)).collect()).unwrap_or_else(|| {
        let mode = rng.below(3);
        (0..nt).map(|_| if mode == 0 { 1 } else { *rng.pick(&[1u8, 1, 2, 3, 5, 9, 200]) }).collect()
    });
    let mut hfail: Option<String> = grammar::api_consistent(&g).err();
    // analyses that are plain fixed points: in-process
    let firsts = g.firsts();
    let follows = g.follows();
    let mut eps = Vec::new();
    let mut first = Vec::new();
    let mut follow = Vec::new();
    let mut path = Vec::new();
    for r in g.iter_rules() {
        eps.push(firsts.is_epsilon_set(r));
        for t in g.iter_tidxs() {
            first.push(firsts.is_set(r, t));
            follow.push(follows.is_set(r, t));
        }
        for r2 in g.iter_rules() {
            path.push(g.has_path(r, r2));
        }
    }
    // cost queries: child processes with a deadline
    let lines = run_child(text, &costs, "costs", 0, Duration::from_millis(1500));
    let mut maxcost = vec!["H".to_string(); nr];
    let mut mincost = vec!["H".to_string(); nr];
    let mut mixed: Option<String> = None;
    for l in &lines {
        let mut it = l.splitn(2, ' ');
        match (it.next(), it.next()) {
            (Some("maxcost"), Some(r)) => maxcost = r.split(' ').map(|x| x.to_string()).collect(),
            (Some("mincost"), Some(r)) => mincost = r.split(' ').map(|x| x.to_string()).collect(),
            (Some("mixed"), Some(r)) => mixed = Some(r.to_string()),
            _ => {}
        }
    }
    if let Some(m) = &mixed {
        let f: Vec<&str> = m.split('|').collect();
        let (mx, mn) = (maxcost.join(" "), mincost.join(" "));
        // a query that panicked on the fresh generator (known finding) is not compared
        if f.len() == 4 && !mx.contains('P') && !mn.contains('P') && !mx.contains('H') && !mn.contains('H') {
            out.count("cost_queries_interleaved");
            if f[0] != mx || f[2] != mx {
                hfail.get_or_insert(format!("sentence-cost-queries-interfere: max_sentence_cost answers [{}] on a fresh generator but [{}] / [{}] when min_sentence_cost is asked on the same generator before / after it", mx, f[0], f[2]));
            }
            if f[1] != mn || f[3] != mn {
                hfail.get_or_insert(format!("sentence-cost-queries-interfere: min_sentence_cost answers [{}] on a fresh generator but [{}] / [{}] when max_sentence_cost is asked on the same generator after / before it", mn, f[1], f[3]));
            }
        }
    }
    let mut hung = 0u64;
    let (minsent, minsents) = if mincost.iter().any(|x| x == "H") {
        (vec!["H".to_string(); nr], vec!["H".to_string(); nr])
    } else {
        (per_rule(text, &costs, "sent", nr, &mut hung), per_rule(text, &costs, "sents", nr, &mut hung))
    };
    out.add("sentence_queries_not_returning", hung);
    // request: grammar, costs, then the cost answers with H = 65535+1, P = 65535+2, N = 65535+3 as
    // sentinels (the wire format carries naturals only)
    let enc = |s: &String| match s.as_str() {
        "H" => "70001".to_string(),
        "P" => "70002".to_string(),
        "N" => "70003".to_string(),
        x => x.to_string(),
    };
    let enc_list = |s: &String| -> String {
        match s.as_str() {
            "H" => "70001".to_string(),
            "P" => "70002".to_string(),
            "U" => "70004".to_string(),
            x => format!("0 {}", x),
        }
    };
    let payload = format!(
        "{} {} {} {} {} {}",
        grammar::dump_grammar(&g),
        join(&costs),
        mincost.iter().map(enc).collect::<Vec<_>>().join(" "),
        maxcost.iter().map(enc).collect::<Vec<_>>().join(" "),
        minsent.iter().map(enc_list).collect::<Vec<_>>().join(" "),
        minsents.iter().map(enc_list).collect::<Vec<_>>().join(" "),
    );
    out.case("C17", id, &payload);
    out.imp(id, "I", &format!("eps {} first {} follow {} path {}", bits(&eps), bits(&first), bits(&follow), bits(&path)));
    // the same FIRST/FOLLOW/epsilon bits again, for the comparison with the Lean MODEL of
    // YaccFirsts::new / YaccFollows::new (driver line `Mf`; a difference there breaks the tie)
    out.imp(id, "If", &format!("eps {} first {} follow {}", bits(&eps), bits(&first), bits(&follow)));
    // has_path, the two cost vectors and the minimal sentences again, for the comparison with the Lean
    // MODELS of has_path / rule_min_costs / rule_max_costs / min_sentence / min_sentences (driver line `Mc`)
    let sent_txt = |s: &String| match s.as_str() {
        "H" | "P" | "U" => s.clone(),
        x => format!("[{}]", x.split(' ').skip(1).collect::<Vec<_>>().join(",")),
    };
    // … and what `min_sentences` returned, in the order of the returned vector (the first 40 sentences and
    // the capped count, as recorded by the child), for the comparison with the Lean MODEL of min_sentences
    let sents_txt = |s: &String| match s.as_str() {
        "H" | "P" | "U" => s.clone(),
        x => {
            let v: Vec<&str> = x.split(' ').collect();
            let mut o = format!("{}:", v[0]);
            let mut i = 1;
            while i < v.len() {
                let n: usize = v[i].parse().unwrap_or(0);
                o.push_str(&format!("[{}]", v[i + 1..(i + 1 + n).min(v.len())].join(",")));
                i += 1 + n;
            }
            o
        }
    };
    out.imp(
        id,
        "Ic",
        &format!(
            "path {} mincost {} maxcost {} minsent {} minsents {}",
            bits(&path),
            mincost.join(" "),
            maxcost.join(" "),
            minsent.iter().map(sent_txt).collect::<Vec<_>>().join(" "),
            minsents.iter().map(sents_txt).collect::<Vec<_>>().join(" ")
        ),
    );
    if hfail.is_none() && g.firsts().firsts(g.start_rule_idx()).len() != nt {
        hfail = Some("firsts() vob has wrong length".to_string());
    }
    match hfail {
        None => out.imp(id, "H", "ok"),
        Some(e) => out.imp(id, "H", &format!("fail {}", e)),
    }
    let desc = format!("grammar=[{}] costs={:?}", text.replace('\n', " ").trim(), costs);
    out.imp(id, "D", &desc);
    out.imp(id, "G", &text.replace('\n', "\\n"));
    out.count(&format!("kind.{}", kind));
    out.count(&format!("rules.{}", nr));
    out.count(&format!("tokens.{}", nt));
    out.count(&format!("prods.{}", (usize::from(g.prods_len()) / 3) * 3));
    if eps.iter().any(|b| *b) {
        out.count("has_nullable_rule");
    }
    if (0..nr).any(|r| path[r * nr + r]) {
        out.count("has_recursive_rule");
    }
    if maxcost.iter().any(|x| x == "N") {
        out.count("has_unbounded_rule");
    }
    if mincost.iter().any(|x| x == "P") {
        out.count("mincost_panicked");
    }
    if out.next_id % 41 == 1 {
        out.sample(desc);
    }
}

/// minimised past failures of the cost loops (grammar, token costs)
fn extras() -> Vec<(String, Vec<u8>)> {
    let toks = |n: usize| vec!["'t'"; n].join(" ");
    vec![
        // rule_max_costs: I's first production completes one sweep before its second one; the interim
        // cost of I dropped and a debug assertion failed (fixed: 290e7fe)
        (
            "%start S\n%%\nS: B I C D E F;\nB: D 'b' 'b' 'b';\nI: B | C 'x';\nC: E;\nD: 'd';\nE: F;\nF: 'f';".to_string(),
            vec![1; 8],
        ),
        // rule_min_costs: every minimal cost fits a u16 (S 50000, A 50000, B 40000) but the dearer
        // production `B B` of S is summed too (finding C17-mincost-overflow-dearer-production)
        (format!("%start S\n%%\nS: A | B B | S;\nA: {};\nB: {};", toks(250), toks(200)), vec![200; 4]),
        // min_sentences: three odometer columns of different bases, a nullable column, a token column, two
        // cheapest productions (the second one empty on one side), 72 > 40 minimal sentences for S (the
        // recorded prefix is compared, in order, with the Lean model of the odometer)
        (
            "%start S\n%%\nS: X N Y 'e' Z | Y 'e' X N Z;\nN: ;\nX: 'a' | 'b' | 'c';\nY: 'a' | 'b' | 'c' | 'd';\nZ: 'a' | 'b' | 'e';".to_string(),
            vec![1; 8],
        ),
        // … and with costs that leave one cheapest production per rule but several cheapest sentences
        (
            "%start S\n%%\nS: X N Y | Y X 'e';\nN: ;\nX: 'a' | 'b' 'c' | 'c';\nY: 'a' | 'b' | 'c' 'c' | 'd';".to_string(),
            vec![2, 3, 1, 2, 9, 1],
        ),
    ]
}

pub fn run(a: &Args) {
    if let Some(i) = a.extra.iter().position(|x| x == "--child") {
        let mode = a.extra.get(i + 1).cloned().unwrap_or_default();
        let start = a.extra.get(i + 2).and_then(|x| x.parse().ok()).unwrap_or(0);
        child(&mode, start);
        return;
    }
    let mut out = Out::new(&a.out);
    if let Some(rp) = &a.replay {
        // replay files carry the grammar text on a `# G` line (the wire grammar alone cannot be rebuilt
        // into a YaccGrammar) and the costs in the description
        let txt = std::fs::read_to_string(rp).unwrap_or_default();
        let mut rng = Rng::for_case(a.seed, 17, 0);
        for line in txt.lines() {
            if let Some(rest) = line.strip_prefix("# G ") {
                let text = rest.replace("\\n", "\n");
                let costs = txt
                    .lines()
                    .find_map(|l| l.find("costs=[").map(|i| l[i + 7..].split(']').next().unwrap_or("").to_string()))
                    .map(|c| c.split(',').filter_map(|x| x.trim().parse::<u8>().ok()).collect::<Vec<u8>>());
                emit(&mut out, &text, costs, &mut rng, "replay");
            }
        }
        out.finish(&a.out);
        return;
    }
    let mut rng = Rng::for_case(a.seed, 17, 0);
    for t in grammar::classics() {
        emit(&mut out, t, Some(vec![1; 16]), &mut rng, "classic");
        emit(&mut out, t, None, &mut rng, "classic");
    }
    for (t, costs) in extras() {
        emit(&mut out, &t, Some(costs), &mut rng, "extra");
    }
    let n = if a.thorough { 4000 } else { 300 };
    let cfg = GenCfg::default();
    for case in 0..n {
        if case % a.shards != a.shard {
            continue;
        }
        let mut rng = Rng::for_case(a.seed, 17, case as u64 + 1);
        if case % 5 == 2 {
            let g = grammar::layered_grammar(&mut rng);
            emit(&mut out, &g.render(), None, &mut rng, "layered");
            continue;
        }
        let g = grammar::random_grammar(&mut rng, &cfg);
        if case % 10 == 8 {
            let t = grammar::with_many_tokens(&g.render(), &mut rng);
            emit(&mut out, &t, None, &mut rng, "random_many_tokens");
            continue;
        }
        emit(&mut out, &g.render(), None, &mut rng, "random");
    }
    out.finish(&a.out);
}
