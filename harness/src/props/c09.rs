//! C09: `LRNonStreamingLexerDef::lexer` (scan loop, start-state stack, `state_matches`) and
//! `set_rule_ids` / `set_rule_ids_spanned` on generated lexer definitions x inputs.
//!
//! Definitions are built two ways: from `.l` text (`from_str`) and directly (`Rule::new` + `from_rules`,
//! which can also express what the parser refuses: duplicate names, unset token ids, missing states).
//! For every rule the harness compiles ITS OWN `regex::Regex` from `re_str()` and the effective flags
//! (`\A(?:..)`), tabulates the match length at every character boundary of the input, and sends rule
//! metadata + table to the Lean model; the real lexer's lexeme stream is the `I` line.
//!
//! Request payload: `<model part> <replay part>`; the model part is what `Drive/C09.lean` reads, the
//! replay part (ignored by the driver) is a self-contained encoding of the case (definition source or
//! rule list, flags, id map, input text) from which `--replay` rebuilds everything.
use crate::out::{guarded, plist, Out};
use crate::rng::Rng;
use crate::Args;
use cfgrammar::Span;
use lrlex::{
    unstable_api::InternalPublicApi, DefaultLexerTypes, LRNonStreamingLexerDef, LexFlags, LexerDef, Rule, StartState,
    StartStateOperation, DEFAULT_LEX_FLAGS,
};
use lrpar::{LexError, Lexeme, Lexer};
use regex::RegexBuilder;
use std::collections::{BTreeSet, HashMap};
use std::panic::AssertUnwindSafe;

type Def = LRNonStreamingLexerDef<DefaultLexerTypes<u32>>;

// flag bits
const F_CI: u32 = 1; // case_insensitive
const F_NODOTNL: u32 = 2; // !dot_matches_new_line
const F_SWAP: u32 = 4; // swap_greed
const F_X: u32 = 8; // ignore_whitespace
const F_NOUNI: u32 = 16; // !unicode
const F_NOML: u32 = 32; // !multi_line
const F_NOOCT: u32 = 64; // !octal

#[derive(Clone, Debug)]
struct DRule {
    tok: Option<u32>,
    name: Option<String>,
    span: (usize, usize),
    re: String,
    sts: Vec<usize>,
    target: Option<(usize, u8)>, // op: 0 replace, 1 push, 2 pop
    flags: u32,
}

#[derive(Clone, Debug)]
enum Route {
    Text { src: String, flags: u32 },
    Direct { states: Vec<(usize, bool)>, rules: Vec<DRule> },
}

#[derive(Clone, Debug)]
struct Desc {
    route: Route,
    sync: Option<Vec<(String, u32)>>,
}

// ---------------------------------------------------------------- replay encoding (naturals only)
fn enc_str(v: &mut Vec<u64>, s: &str) {
    v.push(s.chars().count() as u64);
    v.extend(s.chars().map(|c| c as u64));
}
fn enc_desc(d: &Desc) -> Vec<u64> {
    let mut v = Vec::new();
    match &d.route {
        Route::Text { src, flags } => {
            v.push(0);
            enc_str(&mut v, src);
            v.push(*flags as u64);
        }
        Route::Direct { states, rules } => {
            v.push(1);
            v.push(states.len() as u64);
            for (id, ex) in states {
                v.push(*id as u64);
                v.push(*ex as u64);
            }
            v.push(rules.len() as u64);
            for r in rules {
                v.push(r.tok.map(|t| t as u64 + 1).unwrap_or(0));
                match &r.name {
                    None => v.push(0),
                    Some(n) => {
                        v.push(1);
                        enc_str(&mut v, n);
                    }
                }
                v.push(r.span.0 as u64);
                v.push(r.span.1 as u64);
                enc_str(&mut v, &r.re);
                v.push(r.sts.len() as u64);
                v.extend(r.sts.iter().map(|x| *x as u64));
                match r.target {
                    None => v.push(0),
                    Some((id, op)) => {
                        v.push(1);
                        v.push(id as u64);
                        v.push(op as u64);
                    }
                }
                v.push(r.flags as u64);
            }
        }
    }
    match &d.sync {
        None => v.push(0),
        Some(m) => {
            v.push(1);
            v.push(m.len() as u64);
            for (n, id) in m {
                enc_str(&mut v, n);
                v.push(*id as u64);
            }
        }
    }
    v
}

struct Dec<'a> {
    v: &'a [u64],
    p: usize,
}
impl<'a> Dec<'a> {
    fn n(&mut self) -> Option<u64> {
        let x = *self.v.get(self.p)?;
        self.p += 1;
        Some(x)
    }
    fn s(&mut self) -> Option<String> {
        let k = self.n()? as usize;
        let mut o = String::new();
        for _ in 0..k {
            o.push(char::from_u32(self.n()? as u32)?);
        }
        Some(o)
    }
    fn desc(&mut self) -> Option<Desc> {
        let route = match self.n()? {
            0 => {
                let src = self.s()?;
                Route::Text { src, flags: self.n()? as u32 }
            }
            _ => {
                let ns = self.n()? as usize;
                let mut states = Vec::new();
                for _ in 0..ns {
                    states.push((self.n()? as usize, self.n()? != 0));
                }
                let nr = self.n()? as usize;
                let mut rules = Vec::new();
                for _ in 0..nr {
                    let tok = match self.n()? {
                        0 => None,
                        t => Some(t as u32 - 1),
                    };
                    let name = if self.n()? == 0 { None } else { Some(self.s()?) };
                    let span = (self.n()? as usize, self.n()? as usize);
                    let re = self.s()?;
                    let k = self.n()? as usize;
                    let mut sts = Vec::new();
                    for _ in 0..k {
                        sts.push(self.n()? as usize);
                    }
                    let target = if self.n()? == 0 { None } else { Some((self.n()? as usize, self.n()? as u8)) };
                    let flags = self.n()? as u32;
                    rules.push(DRule { tok, name, span, re, sts, target, flags });
                }
                Route::Direct { states, rules }
            }
        };
        let sync = if self.n()? == 0 {
            None
        } else {
            let k = self.n()? as usize;
            let mut m = Vec::new();
            for _ in 0..k {
                let n = self.s()?;
                m.push((n, self.n()? as u32));
            }
            Some(m)
        };
        Some(Desc { route, sync })
    }
}

// ---------------------------------------------------------------- building definitions and regexes
fn flags_of(bits: u32) -> LexFlags {
    let mut f = DEFAULT_LEX_FLAGS.clone();
    if bits & F_CI != 0 {
        f.case_insensitive = Some(true);
    }
    if bits & F_NODOTNL != 0 {
        f.dot_matches_new_line = Some(false);
    }
    if bits & F_SWAP != 0 {
        f.swap_greed = Some(true);
    }
    if bits & F_X != 0 {
        f.ignore_whitespace = Some(true);
    }
    if bits & F_NOUNI != 0 {
        f.unicode = Some(false);
    }
    if bits & F_NOML != 0 {
        f.multi_line = Some(false);
    }
    if bits & F_NOOCT != 0 {
        f.octal = Some(false);
    }
    f
}

fn header_of(bits: u32, rng: &mut Rng) -> String {
    if bits == 0 {
        return String::new();
    }
    let mut parts = Vec::new();
    for (b, s) in [
        (F_CI, "case_insensitive"),
        (F_NODOTNL, "!dot_matches_new_line"),
        (F_SWAP, "swap_greed"),
        (F_X, "ignore_whitespace"),
        (F_NOUNI, "!unicode"),
        (F_NOML, "!multi_line"),
        (F_NOOCT, "!octal"),
    ] {
        if bits & b != 0 {
            parts.push(s);
        }
    }
    if rng.chance(1, 2) {
        format!("%grmtools {{{}}}\n", parts.join(", "))
    } else {
        format!("%grmtools {{\n  {}\n}}\n", parts.join(",\n  "))
    }
}

/// the harness's own matcher for one rule: anchored, same documented flag semantics, built without lrlex
fn own_regex(re_str: &str, bits: u32) -> Result<regex::Regex, regex::Error> {
    let mut b = RegexBuilder::new(&format!("\\A(?:{})", re_str));
    b.octal(bits & F_NOOCT == 0).multi_line(bits & F_NOML == 0).dot_matches_new_line(bits & F_NODOTNL == 0);
    if bits & F_CI != 0 {
        b.case_insensitive(true);
    }
    if bits & F_SWAP != 0 {
        b.swap_greed(true);
    }
    if bits & F_X != 0 {
        b.ignore_whitespace(true);
    }
    if bits & F_NOUNI != 0 {
        b.unicode(false);
    }
    b.build()
}

fn op_of(o: u8) -> StartStateOperation {
    match o {
        0 => StartStateOperation::ReplaceStack,
        1 => StartStateOperation::Push,
        _ => StartStateOperation::Pop,
    }
}
fn op_num(o: &StartStateOperation) -> u8 {
    match o {
        StartStateOperation::ReplaceStack => 0,
        StartStateOperation::Push => 1,
        StartStateOperation::Pop => 2,
    }
}

/// Build the definition; `Err` = the definition is refused (not a C09 matter), with the reason.
fn build(d: &Desc) -> Result<(Def, Vec<u32>), String> {
    match &d.route {
        Route::Text { src, flags } => {
            let def = Def::from_str(src).map_err(|e| format!("{:?}", e))?;
            let n = def.iter_rules().count();
            Ok((def, vec![*flags; n]))
        }
        Route::Direct { states, rules } => {
            let mut rs = Vec::new();
            for r in rules {
                let rule = Rule::new(
                    InternalPublicApi,
                    r.tok,
                    r.name.clone(),
                    Span::new(r.span.0, r.span.1),
                    r.re.clone(),
                    r.sts.clone(),
                    r.target.map(|(i, o)| (i, op_of(o))),
                    &flags_of(r.flags),
                )
                .map_err(|e| format!("{:?}", e))?;
                rs.push(rule);
            }
            let ss: Vec<StartState> =
                states.iter().enumerate().map(|(k, (id, ex))| StartState::new(*id, &format!("S{}", k), *ex, Span::new(0, 0))).collect();
            Ok((Def::from_rules(ss, rs), rules.iter().map(|r| r.flags).collect()))
        }
    }
}

/// `(id, exclusive)` of every start state, in order. The two fields have no accessor; they are read off
/// the derived `Debug` text.
fn states_of(def: &Def) -> Vec<(usize, bool)> {
    def.iter_start_states()
        .map(|s| {
            let t = format!("{:?}", s);
            let id = t.split("id: ").nth(1).and_then(|x| x.split(|c: char| !c.is_ascii_digit()).next()).and_then(|x| x.parse().ok()).unwrap_or(usize::MAX);
            let ex = t.rsplit("exclusive: ").next().map(|x| x.starts_with("true")).unwrap_or(false);
            (id, ex)
        })
        .collect()
}

fn opt(x: Option<u64>) -> u64 {
    x.map(|v| v + 1).unwrap_or(0)
}

/// rule lists of the model part; `names` interns rule names (None: 1 for every named rule)
fn rules_payload(def: &Def, names: Option<&Vec<String>>) -> String {
    let mut parts = vec![def.iter_rules().count().to_string()];
    for r in def.iter_rules() {
        let nm = match (r.name(), names) {
            (None, _) => 0,
            (Some(_), None) => 1,
            (Some(n), Some(tbl)) => tbl.iter().position(|x| x == n).unwrap() as u64 + 1,
        };
        let mut l: Vec<u64> = vec![nm, opt(r.tok_id().map(|t| t as u64))];
        match r.target_state() {
            None => l.extend([0, 0, 0]),
            Some((id, op)) => l.extend([1, id as u64, op_num(&op) as u64]),
        }
        l.push(r.name_span().start() as u64);
        l.push(r.name_span().end() as u64);
        l.extend(r.start_states().iter().map(|x| *x as u64));
        parts.push(plist(&l));
    }
    parts.join(" ")
}

fn state_id_of_err(e: &lrlex::LRLexError) -> String {
    match e.lexing_state() {
        None => "N".to_string(),
        Some(s) => {
            let t = format!("{:?}", s);
            t.split("_id: ").nth(1).and_then(|x| x.split(|c: char| !c.is_ascii_digit()).next()).unwrap_or("?").to_string()
        }
    }
}

struct Prepared {
    def: Def,
    bits: Vec<u32>,
    own: Vec<regex::Regex>,
}

fn describe(d: &Desc) -> String {
    match &d.route {
        Route::Text { src, .. } => format!("route=text src={:?} sync={:?}", src, d.sync),
        Route::Direct { states, rules } => format!("route=direct states={:?} rules={:?} sync={:?}", states, rules, d.sync),
    }
}

/// One id-synchronisation case (kind 1) on a fresh copy of the definition.
fn emit_sync(out: &mut Out, d: &Desc, def0: &Def, map: &[(String, u32)]) {
    let id = out.id();
    let mut names: BTreeSet<String> = map.iter().map(|(n, _)| n.clone()).collect();
    for r in def0.iter_rules() {
        if let Some(n) = r.name() {
            names.insert(n.to_string());
        }
    }
    let names: Vec<String> = names.into_iter().collect();
    let idx = |n: &str| names.iter().position(|x| x == n).unwrap() as u64;
    let mut flat: Vec<u64> = Vec::new();
    for (n, t) in map {
        flat.push(idx(n));
        flat.push(*t as u64);
    }
    let payload = format!("1 {} {} {}", rules_payload(def0, Some(&names)), plist(&flat), crate::out::join(&enc_desc(d)));
    out.case("C09", id, &payload);
    let hm: HashMap<&str, u32> = map.iter().map(|(n, t)| (n.as_str(), *t)).collect();
    let canon_names = |s: Option<Vec<u64>>| match s {
        None => "N".to_string(),
        Some(mut v) => {
            v.sort();
            v.dedup();
            format!("{} {}", v.len(), crate::out::join(&v))
        }
    };
    // set_rule_ids_spanned
    let mut d1 = def0.clone();
    let r1 = guarded(AssertUnwindSafe(|| {
        let (mfl, mfp) = d1.set_rule_ids_spanned(&hm);
        let mfl: Option<Vec<u64>> = mfl.map(|s| s.iter().map(|n| idx(n)).collect());
        let mfp: Option<Vec<(u64, usize, usize)>> = mfp.map(|s| s.iter().map(|(n, sp)| (idx(n), sp.start(), sp.end())).collect());
        (mfl, mfp)
    }));
    // set_rule_ids
    let mut d2 = def0.clone();
    let r2 = guarded(AssertUnwindSafe(|| {
        let (mfl, mfp) = d2.set_rule_ids(&hm);
        let mfl: Option<Vec<u64>> = mfl.map(|s| s.iter().map(|n| idx(n)).collect());
        let mfp: Option<Vec<u64>> = mfp.map(|s| s.iter().map(|n| idx(n)).collect());
        (mfl, mfp)
    }));
    match (r1, r2) {
        (Ok((mfl, mfp)), Ok((mfl1, mfp1))) => {
            let ids: Vec<String> = d1.iter_rules().map(|r| r.tok_id().map(|t| t.to_string()).unwrap_or("N".into())).collect();
            let ids2: Vec<String> = d2.iter_rules().map(|r| r.tok_id().map(|t| t.to_string()).unwrap_or("N".into())).collect();
            let mfp_s = match mfp {
                None => "N".to_string(),
                Some(mut v) => {
                    v.sort();
                    v.dedup();
                    format!("{} {}", v.len(), v.iter().map(|(a, b, c)| format!("{},{},{}", a, b, c)).collect::<Vec<_>>().join(" "))
                }
            };
            if mfl.is_some() {
                out.count("sync.missing_from_lexer");
            }
            if mfp_s != "N" {
                out.count("sync.missing_from_parser");
            }
            out.imp(id, "I", &format!("ids {} mfl {} mfp {} mfl1 {} mfp1 {}", ids.join(" "), canon_names(mfl), mfp_s, canon_names(mfl1), canon_names(mfp1)));
            if ids == ids2 {
                out.imp(id, "H", "ok");
            } else {
                out.imp(id, "H", "fail set_rule_ids and set_rule_ids_spanned assign different ids");
            }
        }
        (a, b) => {
            out.imp(id, "I", "P");
            out.imp(id, "H", &format!("fail panic in set_rule_ids: {:?} {:?}", a.err(), b.err()));
        }
    }
    let rn: Vec<&str> = def0.iter_rules().filter_map(|r| r.name()).collect();
    let mut u = rn.clone();
    u.sort();
    u.dedup();
    if u.len() != rn.len() {
        out.count("sync.duplicate_rule_names");
    }
    out.count("kind.sync");
    out.imp(id, "D", &format!("sync {}", describe(d)));
}

/// One lexing case (kind 0).
fn emit_lex(out: &mut Out, d: &Desc, p: &Prepared, input: &str, expect_meta: Option<&str>) {
    let id = out.id();
    let def = &p.def;
    let states = states_of(def);
    let sflat: Vec<u64> = states.iter().flat_map(|(i, e)| [*i as u64, *e as u64]).collect();
    let mut bounds: Vec<usize> = input.char_indices().map(|(i, _)| i).collect();
    bounds.push(input.len());
    let mut tables = Vec::new();
    let mut any_empty_match = false;
    for re in &p.own {
        let row: Vec<u64> = bounds
            .iter()
            .map(|&b| match re.find(&input[b..]) {
                None => 0,
                Some(m) => {
                    if m.end() == 0 {
                        any_empty_match = true;
                    }
                    m.end() as u64 + 1
                }
            })
            .collect();
        tables.push(plist(&row));
    }
    let mut renc = enc_desc(d);
    enc_str(&mut renc, input);
    let meta = format!("{} {}", plist(&sflat), rules_payload(def, None));
    let payload = format!("0 {} {} {} {} {}", meta, input.len(), plist(&bounds), tables.join(" "), crate::out::join(&renc));
    out.case("C09", id, &payload);
    // the real lexer
    let r = guarded(AssertUnwindSafe(|| {
        let lexer = def.lexer(input);
        let mut toks = Vec::new();
        let (mut nl, mut ne) = (0u64, 0u64);
        for x in lexer.iter() {
            match x {
                Ok(l) => {
                    nl += 1;
                    toks.push(format!("T {} {} {}", l.tok_id(), l.span().start(), l.span().len()));
                }
                Err(e) => {
                    ne += 1;
                    toks.push(format!("E {} {} {}", e.span().start(), e.span().end(), state_id_of_err(&e)));
                }
            }
        }
        (toks.join(" "), nl, ne)
    }));
    let mut h: Vec<String> = Vec::new();
    match r {
        Ok((s, nl, ne)) => {
            out.imp(id, "I", &s);
            out.add("lexemes", nl);
            if ne > 0 {
                out.count("ends_in_error");
            }
            out.count(&format!("lexemes.{}", (nl.min(12) / 3) * 3));
        }
        Err(e) => {
            out.imp(id, "I", "P");
            h.push(format!("panic in lexer(): {}", e));
        }
    }
    if let Some(m) = expect_meta {
        if m != meta {
            h.push(format!("parsed definition differs from the generated one: parsed `{}` generated `{}`", meta, m));
        }
    }
    if h.is_empty() {
        out.imp(id, "H", "ok");
    } else {
        out.imp(id, "H", &format!("fail {}", h[0]));
    }
    out.imp(id, "D", &format!("lex input={:?} {}", input, describe(d)));
    out.count("kind.lex");
    match &d.route {
        Route::Text { .. } => out.count("route.text"),
        Route::Direct { .. } => out.count("route.direct"),
    }
    if !input.is_ascii() {
        out.count("input.multibyte");
    }
    if any_empty_match {
        out.count("some_rule_matches_empty");
    }
    out.count(&format!("input_len.{}", (input.chars().count() / 4) * 4));
    if out.next_id % 499 == 1 {
        out.sample(format!("input={:?} {}", input, describe(d)));
    }
}

/// Build, optionally synchronise ids, then lex every input. Returns false if the definition was refused.
fn run_desc(out: &mut Out, d: &Desc, inputs: &[String], expect_meta: Option<&str>, lex: bool, sync: bool) -> bool {
    let (mut def, bits) = match guarded(AssertUnwindSafe(|| build(d))) {
        Ok(Ok(x)) => x,
        Ok(Err(_)) => {
            out.count("definition_refused");
            return false;
        }
        Err(_) => {
            out.count("definition_build_panicked");
            return false;
        }
    };
    let mut own = Vec::new();
    for (r, b) in def.iter_rules().zip(bits.iter()) {
        match own_regex(r.re_str(), *b) {
            Ok(re) => own.push(re),
            Err(_) => {
                // lrlex compiled it but the same recipe does not compile here: cannot happen
                let id = out.id();
                out.case("C09", id, "9");
                out.imp(id, "H", &format!("fail harness regex for {:?} does not build although lrlex accepted it", r.re_str()));
                out.imp(id, "D", &describe(d));
                return false;
            }
        }
    }
    if let Some(map) = &d.sync {
        if sync {
            emit_sync(out, d, &def, map);
        }
        let hm: HashMap<&str, u32> = map.iter().map(|(n, t)| (n.as_str(), *t)).collect();
        let mut d2 = def.clone();
        let _ = d2.set_rule_ids(&hm);
        def = d2;
        out.count("def.ids_synchronised");
    }
    for r in def.iter_rules() {
        if let Some((_, op)) = r.target_state() {
            out.count(&format!("rules.op.{:?}", op));
        }
        if r.name().is_none() {
            out.count("rules.skip");
        }
        if !r.start_states().is_empty() {
            out.count("rules.qualified");
        }
    }
    for (_, ex) in states_of(&def).iter().skip(1) {
        out.count(if *ex { "states.exclusive" } else { "states.inclusive" });
    }
    if bits.iter().any(|b| *b != 0) {
        out.count("def.with_flags");
    }
    out.count("definitions");
    if lex {
        let p = Prepared { def, bits, own };
        for i in inputs {
            emit_lex(out, d, &p, i, expect_meta);
        }
    }
    true
}

// ---------------------------------------------------------------- generators
/// (regex, sample strings the regex matches a prefix of) — the samples only steer the input generator
const RES: &[(&str, &[&str])] = &[
    ("a", &["a"]), ("b", &["b"]), ("c", &["c"]), ("ab", &["ab"]), ("a|ab", &["a", "ab"]), ("ab|a", &["ab", "a"]),
    ("abc|ab|a", &["abc", "ab", "a"]), ("a+", &["a", "aaa"]), ("a*", &["aa", ""]), ("b*", &["bb"]), ("[ab]+", &["ab", "bba"]),
    ("a+b?", &["aab", "a"]), ("(a|b)*c", &["abc", "c"]), ("[a-c]+", &["cab"]), (".", &["d", "\n", "\u{e9}"]), (".+", &["d1"]),
    (".*b", &["dab"]), ("[ ]", &[" "]), ("[ \\n]+", &[" \n ", " "]), ("\\n", &["\n"]), ("[ \\t\\n]", &[" ", "\n"]),
    ("\u{e9}", &["\u{e9}"]), ("\u{e9}+", &["\u{e9}\u{e9}"]), ("[\u{e9}\u{2764}]+", &["\u{2764}\u{e9}"]), ("\u{2764}", &["\u{2764}"]),
    ("\\p{L}+", &["a\u{e9}A"]), ("[^a]", &["b", "\u{1F600}"]), ("[^a]+", &["b\u{2764}c"]), ("a|\u{e9}", &["a", "\u{e9}"]),
    ("\u{1F600}|a", &["\u{1F600}", "a"]), ("(?i)a", &["A", "a"]), ("A", &["A"]), ("[A-Z]+", &["AA"]), ("1+", &["11"]),
    ("[0-9]+", &["1"]), ("a?", &["a"]), ("a{2}", &["aa"]), ("a{2,}?", &["aaa"]), ("(ab)+", &["abab"]), ("b|ba|bab", &["bab", "ba"]),
    ("\\x61", &["a"]), ("a$", &["a\n", "a"]), ("^a", &["a"]), ("\\bab", &["ab"]), ("a\\b", &["a ", "a"]), ("(?s:.)", &["\n", "d"]),
    ("[[:alpha:]]+", &["dA"]), ("\\w+", &["a1\u{e9}"]), ("\\s+", &[" \n"]), ("\\S", &["d", "\u{2764}"]), ("a.c", &["abc", "a\nc"]),
    ("b+?", &["bb"]), ("(a|ab)(c|bcd)", &["abcd", "ac"]), ("\\141", &["a"]), ("a+|b+", &["aa", "bb"]), ("\u{e9}|.", &["\u{e9}", "d"]),
    ("\\n|a\\n", &["a\n", "\n"]),
];
const ALPHA: &[char] = &['a', 'a', 'a', 'b', 'b', 'c', ' ', '\n', 'A', '1', 'd', '\u{e9}', '\u{2764}', '\u{1F600}'];
const STATE_NAMES: &[&str] = &["A", "B", "Cc", "S1", "x.y"];
const TOK_NAMES: &[&str] = &["T", "ID", "k_w", "\u{e9}t", "+", "N"];

fn gen_input(rng: &mut Rng, maxlen: usize, samples: &(Vec<&'static str>, Vec<&'static str>)) -> String {
    let n = rng.range(0, maxlen);
    let narrow = rng.chance(1, 3);
    let guided = !samples.1.is_empty() && rng.chance(5, 6);
    let mut s = String::new();
    // a byte order mark is a character like any other: it is lexed (or is a lexing error), never skipped
    if rng.chance(1, 10) {
        s.push('\u{feff}');
    }
    while s.chars().count() < n {
        if guided && rng.chance(14, 15) {
            // start with something a rule active in the initial state matches
            let pool = if s.is_empty() && !samples.0.is_empty() && rng.chance(4, 5) { &samples.0 } else { &samples.1 };
            s.push_str(pool[rng.below(pool.len())]);
        } else if narrow {
            s.push(ALPHA[rng.below(7)]);
        } else {
            s.push(*rng.pick(ALPHA));
        }
    }
    s
}

fn samples_of(res: &[(String, bool)]) -> (Vec<&'static str>, Vec<&'static str>) {
    let (mut ini, mut all) = (Vec::new(), Vec::new());
    for (r, initial) in res {
        if let Some((_, ex)) = RES.iter().find(|(x, _)| x == r) {
            all.extend(ex.iter().copied());
            if *initial {
                ini.extend(ex.iter().copied());
            }
        }
    }
    (ini, all)
}

fn gen_flags(rng: &mut Rng) -> u32 {
    if rng.chance(3, 4) {
        return 0;
    }
    let mut b = 0;
    for _ in 0..rng.range(1, 2) {
        b |= *rng.pick(&[F_CI, F_CI, F_NODOTNL, F_NODOTNL, F_SWAP, F_SWAP, F_NOML, F_X, F_NOUNI, F_NOOCT]);
    }
    b
}

fn gen_sync(rng: &mut Rng, names: &[String]) -> Option<Vec<(String, u32)>> {
    if !rng.chance(3, 10) {
        return None;
    }
    let mut m: Vec<(String, u32)> = Vec::new();
    let all = rng.chance(1, 3);
    for n in names {
        if (all || rng.chance(3, 4)) && !m.iter().any(|(x, _)| x == n) {
            m.push((n.clone(), rng.below(12) as u32));
        }
    }
    for k in 0..rng.below(3) {
        if rng.chance(1, 2) {
            m.push((format!("X{}", k), rng.below(12) as u32));
        }
    }
    Some(m)
}

/// a `.l` text with random layout, plus the metadata the parse must produce (model-part format)
fn gen_text(rng: &mut Rng) -> (Desc, String, Vec<(String, bool)>) {
    let mut res_used: Vec<(String, bool)> = Vec::new();
    let flags = gen_flags(rng);
    let ns = rng.below(4);
    let mut states: Vec<(String, bool)> = vec![("INITIAL".to_string(), false)];
    let mut src = header_of(flags, rng);
    let mut pool: Vec<&str> = STATE_NAMES.to_vec();
    for _ in 0..ns {
        let k = rng.below(pool.len());
        let name = pool.remove(k);
        let ex = rng.chance(1, 2);
        states.push((name.to_string(), ex));
    }
    // declarations: one state per line or grouped
    let mut k = 1;
    while k < states.len() {
        let ex = states[k].1;
        let mut group = vec![states[k].0.clone()];
        while k + 1 < states.len() && states[k + 1].1 == ex && rng.chance(1, 2) {
            k += 1;
            group.push(states[k].0.clone());
        }
        let kw = if ex { *rng.pick(&["%x", "%X", "%xclusive"]) } else { *rng.pick(&["%s", "%S", "%start"]) };
        src.push_str(&format!("{} {}\n", kw, group.join(if rng.chance(1, 4) { "  " } else { " " })));
        k += 1;
    }
    src.push_str("%%\n");
    let nr = rng.range(1, 7);
    let mut names: Vec<String> = Vec::new();
    let mut meta_rules: Vec<String> = Vec::new();
    let mut nrules = 0u64;
    for ri in 0..nr {
        let mut line = String::new();
        let mut sts: Vec<usize> = Vec::new();
        if rng.chance(2, 5) && states.len() > 1 || rng.chance(1, 10) {
            for _ in 0..rng.range(1, 2) {
                sts.push(rng.below(states.len()));
            }
            let sep = if rng.chance(1, 4) { ", " } else { "," };
            line.push_str(&format!("<{}>", sts.iter().map(|s| states[*s].0.clone()).collect::<Vec<_>>().join(sep)));
        }
        let re = rng.pick(RES).0;
        res_used.push((re.to_string(), sts.is_empty() || sts.contains(&0)));
        line.push_str(re);
        line.push_str(*rng.pick(&[" ", " ", "  ", "\t"]));
        let target = if rng.chance(7, 20) {
            let s = rng.below(states.len());
            let op = *rng.pick(&[0u8, 1, 1, 1, 2, 2]);
            line.push_str(&format!("<{}{}>", ["", "+", "-"][op as usize], states[s].0));
            Some((s, op))
        } else {
            None
        };
        let name = if rng.chance(7, 10) {
            let n = format!("{}{}", rng.pick(TOK_NAMES), ri);
            line.push_str(&if rng.chance(1, 2) { format!("'{}'", n) } else { format!("\"{}\"", n) });
            names.push(n.clone());
            Some(n)
        } else {
            line.push_str(*rng.pick(&[";", ";", "''", "\"\""]));
            None
        };
        src.push_str(&line);
        src.push('\n');
        if rng.chance(1, 10) {
            src.push('\n');
        }
        let mut l: Vec<u64> = vec![name.is_some() as u64, nrules + 1];
        match target {
            None => l.extend([0, 0, 0]),
            Some((s, op)) => l.extend([1, s as u64, op as u64]),
        }
        meta_rules.push(l.iter().map(|x| x.to_string()).collect::<Vec<_>>().join(" ") + "|" + &sts.iter().map(|x| x.to_string()).collect::<Vec<_>>().join(" "));
        nrules += 1;
    }
    let sync = gen_sync(rng, &names);
    // expected metadata is compared without spans and token ids: see `strip_meta`
    let sflat: Vec<u64> = states.iter().enumerate().flat_map(|(i, (_, e))| [i as u64, *e as u64]).collect();
    let expect = format!("{} || {}", plist(&sflat), meta_rules.join(" ; "));
    (Desc { route: Route::Text { src, flags }, sync }, expect, res_used)
}

/// metadata of a built definition in the format of `gen_text`'s expectation (no spans, no token ids)
fn strip_meta(def: &Def) -> String {
    let states = states_of(def);
    let sflat: Vec<u64> = states.iter().flat_map(|(i, e)| [*i as u64, *e as u64]).collect();
    let mut rs = Vec::new();
    for (k, r) in def.iter_rules().enumerate() {
        let mut l: Vec<u64> = vec![r.name().is_some() as u64, k as u64 + 1];
        match r.target_state() {
            None => l.extend([0, 0, 0]),
            Some((s, op)) => l.extend([1, s as u64, op_num(&op) as u64]),
        }
        rs.push(l.iter().map(|x| x.to_string()).collect::<Vec<_>>().join(" ") + "|" + &r.start_states().iter().map(|x| x.to_string()).collect::<Vec<_>>().join(" "));
    }
    format!("{} || {}", plist(&sflat), rs.join(" ; "))
}

fn gen_direct(rng: &mut Rng) -> Desc {
    let idpool = [0usize, 1, 2, 3, 5];
    let mut states: Vec<(usize, bool)> = Vec::new();
    if rng.chance(9, 10) {
        states.push((0, rng.chance(1, 10)));
    }
    for _ in 0..rng.below(4) {
        let id = *rng.pick(&idpool[1..]);
        if states.iter().any(|(i, _)| *i == id) && !rng.chance(1, 5) {
            continue;
        }
        states.push((id, rng.chance(1, 2)));
    }
    let refpool = [0usize, 1, 2, 3, 5, 7];
    let nr = rng.range(1, 6);
    let mut rules = Vec::new();
    for ri in 0..nr {
        let known: Vec<usize> = states.iter().map(|s| s.0).collect();
        let pick_state = |rng: &mut Rng| if !known.is_empty() && rng.chance(9, 10) { *rng.pick(&known) } else { *rng.pick(&refpool) };
        let mut sts = Vec::new();
        if rng.chance(1, 2) {
            for _ in 0..rng.range(1, 2) {
                sts.push(pick_state(rng));
            }
        }
        let name = if rng.chance(7, 10) { Some(format!("T{}", if rng.chance(1, 3) { rng.below(3) } else { ri })) } else { None };
        let tok = if rng.chance(17, 20) { Some(rng.below(7) as u32) } else { None };
        let target = if rng.chance(7, 20) { Some((pick_state(rng), *rng.pick(&[0u8, 1, 1, 1, 2, 2]))) } else { None };
        let flags = if rng.chance(1, 8) { gen_flags(rng) } else { 0 };
        let sp = if rng.chance(1, 4) { (0, 0) } else { (ri * 3, ri * 3 + 2) };
        rules.push(DRule { tok, name, span: sp, re: rng.pick(RES).0.to_string(), sts, target, flags });
    }
    let names: Vec<String> = rules.iter().filter_map(|r| r.name.clone()).collect();
    let sync = gen_sync(rng, &names);
    Desc { route: Route::Direct { states, rules }, sync }
}

fn corpus() -> Vec<(Desc, Vec<&'static str>)> {
    let t = |src: &str, sync: Option<Vec<(&str, u32)>>| Desc {
        route: Route::Text { src: src.to_string(), flags: 0 },
        sync: sync.map(|m| m.into_iter().map(|(a, b)| (a.to_string(), b)).collect()),
    };
    vec![
        // leftmost-first alternation is shorter than a later rule's match; ties go to the earlier rule
        (t("%%\na|ab 'X'\nab 'Y'\nb 'Z'\n", None), vec!["abab", "ba", "aab", ""]),
        (t("%%\n[a-z]+ 'ID'\nif 'IF'\n[ ] ;\n", None), vec!["if", "if iff i", "if1"]),
        (t("%%\nif 'IF'\n[a-z]+ 'ID'\n[ ] ;\n", None), vec!["if", "if iff i"]),
        // repeated pushes of one state (run-length counts > 1), pops down to the initial state and below
        (t("%x A\n%%\na <+A>'P'\n<A>a <+A>'P2'\n<A>b <-A>'Q'\nb 'B'\n<A>c <INITIAL>'R'\n", None), vec!["aaabbbbb", "aaabbbc", "aabab", "aaca", "aaabbbba", "b"]),
        (t("%s I\n%x X\n%%\na <+I>'A'\n<I>b <+X>'B'\n<X>a <+X>'XA'\n<X>b <-X>'XB'\nc <-I>'C'\n[ ] ;\n", None), vec!["abaabbbc c", "aaaccccab", "ab c", "abab\u{e9}"]),
        // inclusive states also activate unqualified rules, exclusive ones do not
        (t("%s I\n%x X\n%%\ni <I>'TOI'\nx <X>'TOX'\n<X>o <INITIAL>'OUT'\na 'A'\n<I>b 'IB'\n<X>c 'XC'\n", None), vec!["aiabxcao", "xa", "ibxco a", "xcoia"]),
        // multi-byte text
        (t("%%\n\u{e9}+ 'E'\n. 'DOT'\n", None), vec!["\u{e9}\u{e9}a\u{2764}", "\u{1F600}\u{e9}", "a\n"]),
        (t("%%\n[a\u{e9}]+ 'W'\n\u{2764} ;\n", None), vec!["a\u{e9}\u{2764}\u{e9}\u{1F600}a", "\u{2764}\u{2764}"]),
        // lexing error in the middle, at the start, none
        (t("%%\na 'A'\n[ ] ;\n", None), vec!["aab a", "b", "a a", ""]),
        // ids synchronised with a parser; a named rule whose id is unset
        (t("%%\n[a-z]+ 'ID'\n[ \\n] ;\n", Some(vec![("INT", 0)])), vec![" a ", "  "]),
        (t("%%\n[0-9]+ 'INT'\n[a-z]+ 'ID'\n[ ] ;\n", Some(vec![("INT", 7), ("ID", 3)])), vec!["a 12 b", "1a"]),
        (t("%%\n[0-9]+ 'INT'\n[a-z]+ 'ID'\n[ ] ;\n", Some(vec![])), vec!["a"]),
        // flags
        (Desc { route: Route::Text { src: "%grmtools {case_insensitive}\n%%\na+ 'A'\n. 'D'\n".into(), flags: F_CI }, sync: None }, vec!["aAab", "A\n"]),
        (Desc { route: Route::Text { src: "%grmtools {!dot_matches_new_line}\n%%\n.+ 'L'\n".into(), flags: F_NODOTNL }, sync: None }, vec!["ab\ncd", "\n"]),
        (Desc { route: Route::Text { src: "%grmtools {swap_greed}\n%%\na+ 'A'\nab 'AB'\n".into(), flags: F_SWAP }, sync: None }, vec!["aaab"]),
        // an empty match never makes progress: error
        (t("%%\na* 'AS'\nb? 'BQ'\n", None), vec!["aabc", "c"]),
        // from_rules: duplicate names, unset id, missing target state, missing initial state
        (
            Desc {
                route: Route::Direct {
                    states: vec![(0, false), (2, true)],
                    rules: vec![
                        DRule { tok: Some(1), name: Some("A".into()), span: (0, 1), re: "a".into(), sts: vec![], target: Some((2, 1)), flags: 0 },
                        DRule { tok: Some(2), name: Some("A".into()), span: (3, 4), re: "a".into(), sts: vec![2], target: Some((2, 1)), flags: 0 },
                        DRule { tok: None, name: Some("B".into()), span: (5, 6), re: "b".into(), sts: vec![2], target: Some((2, 2)), flags: 0 },
                        DRule { tok: Some(4), name: Some("C".into()), span: (7, 8), re: "c".into(), sts: vec![0, 2], target: Some((7, 0)), flags: 0 },
                    ],
                },
                sync: Some(vec![("A".into(), 5), ("Z".into(), 6)]),
            },
            vec!["aab", "aac", "c", "b"],
        ),
        (
            Desc {
                route: Route::Direct {
                    states: vec![(1, false)],
                    rules: vec![DRule { tok: Some(1), name: Some("A".into()), span: (0, 1), re: "a".into(), sts: vec![], target: None, flags: 0 }],
                },
                sync: None,
            },
            vec!["a", ""],
        ),
    ]
}

pub fn run(a: &Args) {
    let mut out = Out::new(&a.out);
    if let Some(rp) = &a.replay {
        let txt = std::fs::read_to_string(rp).unwrap_or_default();
        for line in txt.lines() {
            let mut it = line.splitn(3, ' ');
            if it.next() != Some("C09") {
                continue;
            }
            let _ = it.next();
            let v: Vec<u64> = match it.next().map(|p| p.split_whitespace().map(|t| t.parse().ok()).collect::<Option<Vec<u64>>>()) {
                Some(Some(v)) => v,
                _ => continue,
            };
            if let Some((kind, off)) = replay_offset(&v) {
                let mut dec = Dec { v: &v, p: off };
                if let Some(d) = dec.desc() {
                    if kind == 0 {
                        if let Some(input) = dec.s() {
                            run_desc(&mut out, &d, &[input], None, true, false);
                        }
                    } else {
                        run_desc(&mut out, &d, &[], None, false, true);
                    }
                }
            }
        }
        out.finish(&a.out);
        return;
    }
    for (d, inputs) in corpus() {
        let ins: Vec<String> = inputs.iter().map(|s| s.to_string()).collect();
        if !run_desc(&mut out, &d, &ins, None, true, true) {
            let id = out.id();
            out.case("C09", id, "9");
            out.imp(id, "H", "fail corpus definition refused");
            out.imp(id, "D", &describe(&d));
        }
        out.count("kind.corpus_definitions");
    }
    // start-state machines: 2-4 states (exclusive or inclusive), in every state one rule per operation
    // kind (push / pop / replace) on its own letter plus a marker rule that tells the states apart; inputs
    // are random strings over those letters, so that sequences like push, push, replace, pop — where
    // the state BELOW the top matters — occur
    let nmach = if a.thorough { 2000 } else { 240 };
    for case in 0..nmach {
        if case % a.shards != a.shard {
            continue;
        }
        let mut rng = Rng::for_case(a.seed, 9, 5_000_000 + case as u64);
        let nst = rng.range(2, 4);
        let names = ["A", "B", "C", "D"];
        let mut src = String::new();
        for i in 0..nst {
            src.push_str(&format!("{} {}\n", if rng.chance(3, 4) { "%x" } else { "%s" }, names[i]));
        }
        src.push_str("%%\n");
        // state 0 is INITIAL (unqualified rules), states 1..=nst are the declared ones
        let letters = ['a', 'b', 'c', 'd', 'e', 'f'];
        for st in 0..=nst {
            let q = if st == 0 { String::new() } else { format!("<{}>", names[st - 1]) };
            let nops = rng.range(1, 3);
            for k in 0..nops {
                let tgt = names[rng.below(nst)];
                let op = match rng.below(4) { 0 | 1 => format!("<+{}>", tgt), 2 => format!("<-{}>", tgt), _ => format!("<{}>", tgt) };
                src.push_str(&format!("{}{} {}'O{}_{}'\n", q, letters[(st + 2 * k) % letters.len()], op, st, k));
            }
            src.push_str(&format!("{}x 'X{}'\n", q, st));
        }
        src.push_str("[ ] ;\n");
        let d = Desc { route: Route::Text { src, flags: 0 }, sync: None };
        let inputs: Vec<String> = (0..6)
            .map(|_| {
                let n = rng.range(3, 14);
                (0..n).map(|_| if rng.chance(1, 4) { 'x' } else { letters[rng.below(letters.len())] }).collect()
            })
            .collect();
        if run_desc(&mut out, &d, &inputs, None, true, true) {
            out.count("kind.state_machine_definitions");
        } else {
            out.count("kind.state_machine_refused");
        }
    }
    let (ndefs, ninputs, maxlen) = if a.thorough { (40000, 5, 20) } else { (4000, 4, 14) };
    for case in 0..ndefs {
        if case % a.shards != a.shard {
            continue;
        }
        let mut rng = Rng::for_case(a.seed, 9, case as u64 + 1);
        let direct = rng.chance(3, 10);
        let (d, expect, res_used) = if direct {
            let d = gen_direct(&mut rng);
            let used = match &d.route {
                Route::Direct { rules, .. } => rules.iter().map(|r| (r.re.clone(), r.sts.is_empty() || r.sts.contains(&0))).collect(),
                _ => vec![],
            };
            (d, None, used)
        } else {
            let (d, e, u) = gen_text(&mut rng);
            (d, Some(e), u)
        };
        let samples = samples_of(&res_used);
        let inputs: Vec<String> = (0..ninputs).map(|_| gen_input(&mut rng, maxlen, &samples)).collect();
        // the expectation is in stripped format: compare here, once per definition
        let mut meta_fail = None;
        if let Some(e) = &expect {
            if let Ok(Ok((def, _))) = guarded(AssertUnwindSafe(|| build(&d))) {
                let got = strip_meta(&def);
                if &got != e {
                    meta_fail = Some(format!("parsed definition differs from the generated one: parsed `{}` generated `{}`", got, e));
                }
            }
        }
        if let Some(m) = meta_fail {
            let id = out.id();
            out.case("C09", id, "9");
            out.imp(id, "H", &format!("fail {}", m));
            out.imp(id, "D", &describe(&d));
        }
        run_desc(&mut out, &d, &inputs, None, true, true);
    }
    out.finish(&a.out);
}

/// position of the replay part inside a request payload: skips the model part by its own structure
fn replay_offset(v: &[u64]) -> Option<(u64, usize)> {
    let kind = *v.first()?;
    let mut p = 1usize;
    let skip_list = |p: &mut usize| -> Option<()> {
        let n = *v.get(*p)? as usize;
        *p += 1 + n;
        Some(())
    };
    if kind == 0 {
        skip_list(&mut p)?; // states
        let nr = *v.get(p)? as usize;
        p += 1;
        for _ in 0..nr {
            skip_list(&mut p)?;
        }
        p += 1; // n
        skip_list(&mut p)?; // bounds
        for _ in 0..nr {
            skip_list(&mut p)?;
        }
        Some((0, p))
    } else if kind == 1 {
        let nr = *v.get(p)? as usize;
        p += 1;
        for _ in 0..nr {
            skip_list(&mut p)?;
        }
        skip_list(&mut p)?; // map
        Some((1, p))
    } else {
        None
    }
}
