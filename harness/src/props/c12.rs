//! C12: the specification parsers (`%grmtools` section, yacc grammar of every `YaccKind`, lex
//! specification) on valid texts and a mutation stream, each call under `catch_unwind` and a hang
//! watchdog.
//!
//! Process structure: the harness process (parent) generates the texts and hands them, one line per
//! case, to worker processes (`vharness C12 child`, the same binary). A worker announces every entry
//! point before it calls it and answers with the outcome of every entry point. A worker that stays
//! silent past the deadline is killed (`H fail hang …`), one that dies (abort, stack overflow) is
//! reported (`H fail abort …`); the case is then re-sent with the offending entry point masked out, so
//! a hang costs one deadline and never a stuck check.
//!
//! Ties to the Lean models: the two header entry points answer with `I` lines (model `M`,
//! `Model/Header.lean`); for yacc texts every `ASTWithValidityInfo::new(kind, src)` also answers with an
//! `Iy k …` line — what `YaccParser::parse` returned (Ok / error kinds with spans, in order) and a
//! summary of the AST it built — compared with the `My k …` line of `Model/YaccParse.lean`.
use crate::out::{guarded, Out};
use crate::rng::Rng;
use crate::Args;
use cfgrammar::header::{GrmtoolsSectionParser, Header, HeaderError, HeaderErrorKind, Namespaced, Setting, Value};
use cfgrammar::yacc::ast::{ASTWithValidityInfo, GrammarAST, Symbol};
use cfgrammar::yacc::{YaccGrammar, YaccKind, YaccOriginalActionKind};
use cfgrammar::{Span, Spanned};
use lrlex::{DefaultLexerTypes, LRNonStreamingLexerDef, LexerDef, DEFAULT_LEX_FLAGS};
use lrpar::diagnostics::{DiagnosticFormatter, SpannedDiagnosticFormatter};
use std::io::{BufRead, BufReader, Write};
use std::path::Path;
use std::process::{Child, ChildStdin, Command, Stdio};
use std::str::FromStr;
use std::sync::atomic::{AtomicUsize, Ordering};
use std::sync::mpsc::{channel, Receiver, RecvTimeoutError};
use std::sync::{Arc, Mutex};
use std::time::Duration;

// ---------------------------------------------------------------------------------------------
// entry points

const CAT_HEADER: usize = 0;
const CAT_YACC: usize = 1;
const CAT_LEX: usize = 2;

const KINDS: [YaccKind; 5] = [
    YaccKind::Grmtools,
    YaccKind::Eco,
    YaccKind::Original(YaccOriginalActionKind::NoAction),
    YaccKind::Original(YaccOriginalActionKind::UserAction),
    YaccKind::Original(YaccOriginalActionKind::GenericParseTree),
];
const KIND_NAMES: [&str; 5] = ["Grmtools", "Eco", "Original(NoAction)", "Original(UserAction)", "Original(GenericParseTree)"];

#[derive(Clone, Copy, PartialEq, Debug)]
enum Entry {
    Header(bool),
    AstNew(usize),
    GrammarNew(usize),
    AstFromStr,
    GrammarFromStr,
    LexFromStr,
    LexNewWithOptions,
}

fn entry_name(e: Entry) -> String {
    match e {
        Entry::Header(r) => format!("GrmtoolsSectionParser::new(src, {}).parse()", r),
        Entry::AstNew(k) => format!("ASTWithValidityInfo::new({}, src)", KIND_NAMES[k]),
        Entry::GrammarNew(k) => format!("YaccGrammar::new({}, src)", KIND_NAMES[k]),
        Entry::AstFromStr => "ASTWithValidityInfo::from_str(src)".to_string(),
        Entry::GrammarFromStr => "YaccGrammar::<u32>::from_str(src)".to_string(),
        Entry::LexFromStr => "LRNonStreamingLexerDef::<DefaultLexerTypes<u32>>::from_str(src)".to_string(),
        Entry::LexNewWithOptions => "LRNonStreamingLexerDef::<DefaultLexerTypes<u32>>::new_with_options(src, DEFAULT_LEX_FLAGS)".to_string(),
    }
}

/// the entry points run on a text of category `cat`; the first two are always the header parser
/// (these two are the ones the Lean model answers too)
fn entries(cat: usize) -> Vec<Entry> {
    let mut v = vec![Entry::Header(false), Entry::Header(true)];
    match cat {
        CAT_HEADER => v.extend([Entry::AstFromStr, Entry::LexFromStr, Entry::LexNewWithOptions]),
        CAT_YACC => {
            for k in 0..5 {
                v.push(Entry::AstNew(k));
            }
            for k in 0..5 {
                v.push(Entry::GrammarNew(k));
            }
            v.extend([Entry::AstFromStr, Entry::GrammarFromStr]);
        }
        _ => v.extend([Entry::LexFromStr, Entry::LexNewWithOptions]),
    }
    v
}

/// what one entry point returned, in the driver's `outcome` encoding, plus harness-side findings
struct EntryResult {
    outcome: String,
    iline: Option<String>,
    /// `ASTWithValidityInfo::new(kind, src)`: the answer of the yacc text parser in the format of the
    /// driver's `My` line
    yline: Option<String>,
    fails: Vec<String>,
    stats: Vec<String>,
}

fn spans_str(spans: &[Span]) -> String {
    let mut s = format!("{}", spans.len());
    for sp in spans {
        s.push_str(&format!(" {} {}", sp.start(), sp.end()));
    }
    s
}

fn check_span(src: &str, sp: &Span, what: &str, fails: &mut Vec<String>) {
    let (s, e) = (sp.start(), sp.end());
    if !(s <= e && e <= src.len()) {
        fails.push(format!("{} span {}..{} violates start<=end<=len({})", what, s, e, src.len()));
    } else if !src.is_char_boundary(s) || !src.is_char_boundary(e) {
        fails.push(format!("{} span {}..{} is not on character boundaries", what, s, e));
    }
}

/// errors: every span well-formed, and the error can be rendered against the text
fn check_errors<E: Spanned + std::error::Error + Clone + std::panic::RefUnwindSafe>(
    src: &str,
    errs: &[E],
    fails: &mut Vec<String>,
    stats: &mut Vec<String>,
) -> String {
    let path = Path::new("spec");
    let mut o = format!("2 {}", errs.len());
    if errs.is_empty() {
        fails.push("Err with an empty list of errors".to_string());
    }
    for e in errs {
        o.push(' ');
        o.push_str(&spans_str(e.spans()));
        if e.spans().is_empty() {
            stats.push("error_without_span".to_string());
        }
        for sp in e.spans() {
            check_span(src, sp, "error", fails);
        }
        let r = guarded(std::panic::AssertUnwindSafe(|| {
            let f = SpannedDiagnosticFormatter::new(src, path);
            f.format_error(e.clone()).to_string().len()
        }));
        if let Err(m) = r {
            fails.push(format!("format_error panicked on error '{}' spans {}: {}", e, spans_str(e.spans()), m));
        }
    }
    o
}

// ---------------------------------------------------------------------------------------------
// the yacc text parser's answer (`Iy` lines; format of `fmtYacc` in lean/GrmVerif/Drive/C12.lean)

fn yname(s: &str) -> String {
    let v: Vec<String> = s.chars().map(|c| (c as u32).to_string()).collect();
    format!("n{}", v.join("."))
}

fn ysp(sp: &Span) -> String {
    format!("{} {}", sp.start(), sp.end())
}

fn ysym(s: &Symbol) -> String {
    match s {
        Symbol::Token(n, sp) => format!("T {} {}", yname(n), ysp(sp)),
        Symbol::Rule(n, sp) => format!("R {} {}", yname(n), ysp(sp)),
    }
}

fn ylist(items: Vec<String>) -> String {
    let mut o = format!("{}", items.len());
    for i in items {
        o.push(' ');
        o.push_str(&i);
    }
    o
}

/// entries of a hash map in source order (every entry is created at a different place of the text)
fn by_pos(mut v: Vec<(usize, String)>) -> Vec<String> {
    v.sort();
    v.into_iter().map(|(_, s)| s).collect()
}

fn yast_fmt(a: &GrammarAST) -> String {
    let mut o = String::from("S ");
    match &a.start {
        None => o.push('-'),
        Some((n, sp)) => o.push_str(&format!("{} {}", yname(n), ysp(sp))),
    }
    o.push_str(" T ");
    o.push_str(&ylist(
        a.tokens
            .iter()
            .enumerate()
            .map(|(i, t)| {
                let sp = a.spans.get(i).map(ysp).unwrap_or_else(|| "? ?".to_string());
                format!("{} {} {}", yname(t), sp, if a.token_directives.contains(&i) { 1 } else { 0 })
            })
            .collect(),
    ));
    o.push_str(" R ");
    o.push_str(&ylist(a.rules.values().map(|r| format!("{} {}", yname(&r.name.0), ysp(&r.name.1))).collect()));
    o.push_str(" P ");
    o.push_str(&ylist(
        a.prods
            .iter()
            .enumerate()
            .map(|(pi, p)| {
                let ri = a.rules.values().position(|r| r.pidxs.contains(&pi)).unwrap_or(999999);
                format!(
                    "{} {} {} {} {}",
                    ri,
                    ylist(p.symbols.iter().map(ysym).collect()),
                    p.precedence.as_ref().map(|n| yname(n)).unwrap_or_else(|| "-".to_string()),
                    if p.action.is_some() { 1 } else { 0 },
                    ysp(&p.prod_span)
                )
            })
            .collect(),
    ));
    o.push_str(" C ");
    o.push_str(&ylist(by_pos(
        a.precs
            .iter()
            .map(|(n, (p, sp))| {
                let k = match p.kind {
                    cfgrammar::yacc::AssocKind::Left => 0,
                    cfgrammar::yacc::AssocKind::Right => 1,
                    cfgrammar::yacc::AssocKind::Nonassoc => 2,
                };
                (sp.start(), format!("{} {} {} {}", yname(n), p.level, k, ysp(sp)))
            })
            .collect(),
    )));
    for (tag, m) in [(" A ", &a.avoid_insert), (" I ", &a.implicit_tokens)] {
        o.push_str(tag);
        match m {
            None => o.push('-'),
            Some(m) => o.push_str(&ylist(by_pos(m.iter().map(|(n, sp)| (sp.start(), format!("{} {}", yname(n), ysp(sp)))).collect()))),
        }
    }
    o.push_str(" E ");
    o.push_str(&ylist(by_pos(
        a.epp.iter().map(|(n, (sp, (v, vsp)))| (sp.start(), format!("{} {} {} {}", yname(n), ysp(sp), yname(v), ysp(vsp)))).collect(),
    )));
    for (tag, x) in [(" X ", &a.expect), (" Y ", &a.expectrr)] {
        o.push_str(tag);
        match x {
            None => o.push('-'),
            Some((n, sp)) => o.push_str(&format!("{} {}", n, ysp(sp))),
        }
    }
    o.push_str(" PP ");
    o.push_str(&a.parse_param.as_ref().map(|(_, ty)| yname(ty)).unwrap_or_else(|| "-".to_string()));
    o.push_str(" PG ");
    o.push_str(&a.parse_generics.as_ref().map(|ty| yname(ty)).unwrap_or_else(|| "-".to_string()));
    o.push_str(" G ");
    o.push_str(&a.programs.as_ref().map(|p| p.len().to_string()).unwrap_or_else(|| "-".to_string()));
    o.push_str(" U ");
    o.push_str(&ylist(a.expect_unused.iter().map(ysym).collect()));
    o
}

fn yerr_kind<E: std::fmt::Debug>(er: &E) -> String {
    let d = format!("{:?}", er);
    let kind = d.split("kind: ").nth(1).unwrap_or("?");
    kind.chars().take_while(|c| c.is_alphanumeric()).collect()
}

/// errors of `GrammarAST::complete_and_validate` (at most one, pushed after the parser's errors);
/// the text parser returns none of these kinds
const VALIDATION_KINDS: [&str; 6] = ["NoStartRule", "InvalidStartRule", "UnknownRuleRef", "UnknownToken", "NoPrecForToken", "UnknownEPP"];

/// what `YaccParser::parse` returned (the errors of `ASTWithValidityInfo::new` without the validation
/// error) and the AST it built
fn yacc_fmt(ast: &ASTWithValidityInfo) -> String {
    let perrs: Vec<String> = ast
        .errors()
        .iter()
        .filter(|e| !VALIDATION_KINDS.contains(&yerr_kind(*e).as_str()))
        .map(|e| format!("{} {}", yerr_kind(e), spans_str(e.spans())))
        .collect();
    if perrs.is_empty() {
        format!("ok {}", yast_fmt(ast.ast()))
    } else {
        format!("err {} {}", ylist(perrs), yast_fmt(ast.ast()))
    }
}

fn ns_fmt(n: &Namespaced<Span>, out: &mut String, spans: &mut Vec<Span>) {
    match &n.namespace {
        None => out.push_str(&format!("- {} {}", n.member.1.start(), n.member.1.end())),
        Some((_, s)) => {
            spans.push(*s);
            out.push_str(&format!("+ {} {} {} {}", s.start(), s.end(), n.member.1.start(), n.member.1.end()));
        }
    }
    spans.push(n.member.1);
}

fn setting_fmt(s: &Setting<Span>, out: &mut String, spans: &mut Vec<Span>) {
    match s {
        Setting::Unitary(n) => {
            out.push_str("U ");
            ns_fmt(n, out, spans);
        }
        Setting::Constructor { ctor, arg } => {
            out.push_str("C ");
            ns_fmt(ctor, out, spans);
            out.push(' ');
            ns_fmt(arg, out, spans);
        }
        Setting::Num(n, sp) => {
            spans.push(*sp);
            out.push_str(&format!("N {} {} {}", n, sp.start(), sp.end()));
        }
        Setting::String(_, sp) => {
            spans.push(*sp);
            out.push_str(&format!("T {} {}", sp.start(), sp.end()));
        }
        Setting::Array(xs, o, c) => {
            spans.push(*o);
            spans.push(*c);
            out.push_str(&format!("A {} {} {} {} {}", xs.len(), o.start(), o.end(), c.start(), c.end()));
            for x in xs {
                out.push(' ');
                setting_fmt(x, out, spans);
            }
        }
    }
}

fn kind_fmt(k: &HeaderErrorKind) -> String {
    match k {
        HeaderErrorKind::MissingGrmtoolsSection => "missing".to_string(),
        HeaderErrorKind::IllegalName => "illegalname".to_string(),
        HeaderErrorKind::ExpectedToken(c) => format!("expected.{}", *c as u32),
        HeaderErrorKind::UnexpectedToken(c, _) => format!("unexpected.{}", *c as u32),
        HeaderErrorKind::DuplicateEntry => "dup".to_string(),
        HeaderErrorKind::InvalidEntry(_) => "invalid".to_string(),
        HeaderErrorKind::ConversionError(_, _) => "conv".to_string(),
        _ => "other".to_string(),
    }
}

/// the header parser's answer in exactly the format of the driver's `M` line
fn header_fmt(src: &str, r: &Result<(Header<Span>, usize), Vec<HeaderError<Span>>>, spans: &mut Vec<Span>) -> String {
    match r {
        Ok((h, pos)) => {
            let mut es: Vec<(usize, String)> = Vec::new();
            for (k, v) in h {
                let mut s = String::from("K");
                let cps: Vec<String> = k.chars().map(|c| (c as u32).to_string()).collect();
                s.push_str(&cps.join("."));
                let cfgrammar::header::HeaderValue(loc, val) = v;
                spans.push(*loc);
                s.push_str(&format!(" {} {} ", loc.start(), loc.end()));
                match val {
                    Value::Flag(b, sp) => {
                        spans.push(*sp);
                        s.push_str(&format!("F{} {} {}", if *b { 1 } else { 0 }, sp.start(), sp.end()));
                    }
                    Value::Setting(st) => setting_fmt(st, &mut s, spans),
                }
                es.push((loc.start(), s));
            }
            // the map iterates in key order: canonicalise to source order
            es.sort();
            let mut o = format!("ok {} {}", pos, es.len());
            for (_, s) in es {
                o.push(' ');
                o.push_str(&s);
            }
            let _ = src;
            o
        }
        Err(errs) => {
            let mut o = format!("err {}", errs.len());
            for e in errs {
                o.push_str(&format!(" {} {}", kind_fmt(&e.kind), spans_str(e.spans())));
            }
            o
        }
    }
}

fn run_entry(src: &str, e: Entry) -> EntryResult {
    let mut fails = Vec::new();
    let mut stats = Vec::new();
    let mut iline = None;
    let mut yline = None;
    let outcome;
    match e {
        Entry::Header(req) => {
            let r = guarded(std::panic::AssertUnwindSafe(|| GrmtoolsSectionParser::new(src, req).parse()));
            match r {
                Err(m) => {
                    fails.push(format!("panic in {}: {}", entry_name(e), m));
                    iline = Some("panic".to_string());
                    outcome = "0".to_string();
                }
                Ok(r) => {
                    let mut spans = Vec::new();
                    iline = Some(header_fmt(src, &r, &mut spans));
                    match &r {
                        Ok((_, pos)) => {
                            if !src.is_char_boundary(*pos) {
                                fails.push(format!("header end position {} is not a character boundary", pos));
                            }
                            for sp in &spans {
                                check_span(src, sp, "result", &mut fails);
                            }
                            outcome = format!("1 {} {}", pos, spans_str(&spans));
                            stats.push("header.ok".to_string());
                        }
                        Err(errs) => {
                            outcome = check_errors(src, errs, &mut fails, &mut stats);
                            for er in errs {
                                stats.push(format!("header.err.{}", kind_fmt(&er.kind).split('.').next().unwrap()));
                            }
                        }
                    }
                }
            }
        }
        Entry::AstNew(k) => {
            let r = guarded(std::panic::AssertUnwindSafe(|| {
                let ast = ASTWithValidityInfo::new(KINDS[k], src);
                let w = if ast.is_valid() { ast.ast().warnings() } else { Vec::new() };
                (ast.errors().to_vec(), w, yacc_fmt(&ast))
            }));
            match r {
                Err(m) => {
                    fails.push(format!("panic in {}: {}", entry_name(e), m));
                    outcome = "0".to_string();
                    yline = Some(format!("{} panic", k));
                }
                Ok((errs, warns, yl)) => {
                    yline = Some(format!("{} {}", k, yl));
                    if errs.is_empty() {
                        let mut spans = Vec::new();
                        for w in &warns {
                            for sp in w.spans() {
                                check_span(src, sp, "warning", &mut fails);
                                spans.push(*sp);
                            }
                            let r = guarded(std::panic::AssertUnwindSafe(|| {
                                SpannedDiagnosticFormatter::new(src, Path::new("spec")).format_warning(w.clone()).len()
                            }));
                            if let Err(m) = r {
                                fails.push(format!("format_warning panicked on '{}': {}", w, m));
                            }
                        }
                        outcome = format!("1 0 {}", spans_str(&spans));
                        stats.push(if warns.is_empty() { "yacc.ast.ok" } else { "yacc.ast.ok_with_warnings" }.to_string());
                    } else {
                        outcome = check_errors(src, &errs, &mut fails, &mut stats);
                        stats.push("yacc.ast.err".to_string());
                        for er in &errs {
                            let d = format!("{:?}", er);
                            let kind = d.split("kind: ").nth(1).unwrap_or("?");
                            let kind: String = kind.chars().take_while(|c| c.is_alphanumeric()).collect();
                            stats.push(format!("yacc.errkind.{}", kind));
                        }
                    }
                }
            }
        }
        Entry::GrammarNew(k) => {
            let r = guarded(std::panic::AssertUnwindSafe(|| YaccGrammar::new(KINDS[k], src).map(|_| ())));
            outcome = match r {
                Err(m) => {
                    fails.push(format!("panic in {}: {}", entry_name(e), m));
                    "0".to_string()
                }
                Ok(Ok(())) => {
                    stats.push("yacc.grammar.ok".to_string());
                    "1 0 0".to_string()
                }
                Ok(Err(errs)) => check_errors(src, &errs, &mut fails, &mut stats),
            };
        }
        Entry::AstFromStr => {
            let r = guarded(std::panic::AssertUnwindSafe(|| ASTWithValidityInfo::from_str(src).map(|a| a.errors().to_vec())));
            outcome = match r {
                Err(m) => {
                    fails.push(format!("panic in {}: {}", entry_name(e), m));
                    "0".to_string()
                }
                Ok(Ok(errs)) if errs.is_empty() => {
                    stats.push("yacc.from_str.ok".to_string());
                    "1 0 0".to_string()
                }
                Ok(Ok(errs)) => check_errors(src, &errs, &mut fails, &mut stats),
                Ok(Err(errs)) => check_errors(src, &errs, &mut fails, &mut stats),
            };
        }
        Entry::GrammarFromStr => {
            let r = guarded(std::panic::AssertUnwindSafe(|| YaccGrammar::<u32>::from_str(src).map(|_| ())));
            outcome = match r {
                Err(m) => {
                    fails.push(format!("panic in {}: {}", entry_name(e), m));
                    "0".to_string()
                }
                Ok(Ok(())) => "1 0 0".to_string(),
                Ok(Err(errs)) => check_errors(src, &errs, &mut fails, &mut stats),
            };
        }
        Entry::LexFromStr | Entry::LexNewWithOptions => {
            let r = guarded(std::panic::AssertUnwindSafe(|| {
                if e == Entry::LexFromStr {
                    LRNonStreamingLexerDef::<DefaultLexerTypes<u32>>::from_str(src).map(|_| ())
                } else {
                    LRNonStreamingLexerDef::<DefaultLexerTypes<u32>>::new_with_options(src, DEFAULT_LEX_FLAGS).map(|_| ())
                }
            }));
            outcome = match r {
                Err(m) => {
                    fails.push(format!("panic in {}: {}", entry_name(e), m));
                    "0".to_string()
                }
                Ok(Ok(())) => {
                    stats.push("lex.ok".to_string());
                    "1 0 0".to_string()
                }
                Ok(Err(errs)) => {
                    stats.push("lex.err".to_string());
                    for er in &errs {
                        let d = format!("{:?}", er);
                        let kind = d.split("kind: ").nth(1).unwrap_or("?");
                        let kind: String = kind.chars().take_while(|c| c.is_alphanumeric()).collect();
                        stats.push(format!("lex.errkind.{}", kind));
                    }
                    // LexBuildError is not Clone: render through a wrapper that borrows it
                    let mut o = format!("2 {}", errs.len());
                    if errs.is_empty() {
                        fails.push("Err with an empty list of errors".to_string());
                    }
                    for er in &errs {
                        o.push(' ');
                        o.push_str(&spans_str(er.spans()));
                        for sp in er.spans() {
                            check_span(src, sp, "error", &mut fails);
                        }
                        let r = guarded(std::panic::AssertUnwindSafe(|| {
                            SpannedDiagnosticFormatter::new(src, Path::new("spec")).format_error(Borrowed(er)).to_string().len()
                        }));
                        if let Err(m) = r {
                            fails.push(format!("format_error panicked on error '{}' spans {}: {}", er, spans_str(er.spans()), m));
                        }
                    }
                    o
                }
            };
        }
    }
    EntryResult { outcome, iline, yline, fails, stats }
}

/// `format_error` takes its error by value; this lends it one that cannot be cloned
#[derive(Debug)]
struct Borrowed<'a, E>(&'a E);
impl<E: std::fmt::Display> std::fmt::Display for Borrowed<'_, E> {
    fn fmt(&self, f: &mut std::fmt::Formatter) -> std::fmt::Result {
        self.0.fmt(f)
    }
}
impl<E: std::error::Error> std::error::Error for Borrowed<'_, E> {}
impl<E: Spanned> Spanned for Borrowed<'_, E> {
    fn spans(&self) -> &[Span] {
        self.0.spans()
    }
    fn spanskind(&self) -> cfgrammar::yacc::parser::SpansKind {
        self.0.spanskind()
    }
}

// ---------------------------------------------------------------------------------------------
// worker process

fn cps_of(s: &str) -> String {
    let v: Vec<String> = s.chars().map(|c| (c as u32).to_string()).collect();
    v.join(" ")
}

fn text_of(toks: &[&str]) -> Option<String> {
    toks.iter().map(|t| t.parse::<u32>().ok().and_then(char::from_u32)).collect()
}

/// `vharness C12 child`: stdin lines `<cat> <mask> <cp>…`; per line: `E k` before entry point k is
/// called, `O k <outcome>`, `I <answer>`, `H <failure>`, `S <stat>` lines, then `.`
fn child_main() {
    let stdin = std::io::stdin();
    let stdout = std::io::stdout();
    let mut line = String::new();
    loop {
        line.clear();
        if stdin.lock().read_line(&mut line).unwrap_or(0) == 0 {
            return;
        }
        let toks: Vec<&str> = line.split_whitespace().collect();
        if toks.len() < 2 {
            continue;
        }
        let cat: usize = toks[0].parse().unwrap_or(0);
        let mask: u64 = toks[1].parse().unwrap_or(0);
        let src = text_of(&toks[2..]).unwrap_or_default();
        let mut o = stdout.lock();
        for (k, e) in entries(cat).into_iter().enumerate() {
            if mask & (1 << k) != 0 {
                writeln!(o, "O {} 0", k).unwrap();
                continue;
            }
            writeln!(o, "E {}", k).unwrap();
            o.flush().unwrap();
            let r = run_entry(&src, e);
            writeln!(o, "O {} {}", k, r.outcome).unwrap();
            if let Some(i) = r.iline {
                writeln!(o, "I {}", i).unwrap();
            }
            if let Some(y) = r.yline {
                writeln!(o, "Y {}", y).unwrap();
            }
            for f in r.fails {
                writeln!(o, "H {}", f.replace('\n', " ")).unwrap();
            }
            for s in r.stats {
                writeln!(o, "S {}", s).unwrap();
            }
        }
        writeln!(o, ".").unwrap();
        o.flush().unwrap();
    }
}

struct Worker {
    child: Child,
    stdin: ChildStdin,
    rx: Receiver<Option<String>>,
}

impl Worker {
    fn spawn() -> Worker {
        let exe = std::env::current_exe().unwrap();
        let mut child = Command::new(exe)
            .args(["C12", "child"])
            .stdin(Stdio::piped())
            .stdout(Stdio::piped())
            .stderr(Stdio::null())
            .spawn()
            .unwrap();
        let stdin = child.stdin.take().unwrap();
        let stdout = child.stdout.take().unwrap();
        let (tx, rx) = channel();
        std::thread::spawn(move || {
            let rd = BufReader::new(stdout);
            for l in rd.lines() {
                match l {
                    Ok(l) => {
                        if tx.send(Some(l)).is_err() {
                            return;
                        }
                    }
                    Err(_) => break,
                }
            }
            let _ = tx.send(None);
        });
        Worker { child, stdin, rx }
    }
    fn kill(&mut self) {
        let _ = self.child.kill();
        let _ = self.child.wait();
    }
}

#[derive(Default, Clone)]
struct CaseResult {
    outcomes: Vec<String>,
    ilines: Vec<String>,
    ylines: Vec<String>,
    fails: Vec<String>,
    stats: Vec<String>,
}

enum Attempt {
    Done(CaseResult),
    /// the worker stayed silent for `deadline` while inside entry point k
    Silent(usize),
    /// the worker process died while inside entry point k
    Died(usize, String),
}

fn attempt(w: &mut Worker, cat: usize, mask: u64, cps: &str, deadline: Duration) -> Attempt {
    let n = entries(cat).len();
    let mut res = CaseResult { outcomes: vec![String::from("0"); n], ..Default::default() };
    if writeln!(w.stdin, "{} {} {}", cat, mask, cps).and_then(|_| w.stdin.flush()).is_err() {
        w.kill();
        return Attempt::Died(0, "worker not accepting input".to_string());
    }
    let mut cur = 0usize;
    loop {
        match crate::gen::worker::recv_cpu_deadline(&w.rx, w.child.id(), deadline) {
            Ok(Some(l)) => {
                if l == "." {
                    return Attempt::Done(res);
                }
                let (tag, rest) = l.split_at(l.len().min(2));
                match tag {
                    "E " => cur = rest.trim().parse().unwrap_or(0),
                    "O " => {
                        let mut it = rest.splitn(2, ' ');
                        let k: usize = it.next().unwrap_or("0").parse().unwrap_or(0);
                        if k < n {
                            res.outcomes[k] = it.next().unwrap_or("0").to_string();
                        }
                    }
                    "I " => res.ilines.push(rest.to_string()),
                    "Y " => res.ylines.push(rest.to_string()),
                    "H " => res.fails.push(rest.to_string()),
                    "S " => res.stats.push(rest.to_string()),
                    _ => {}
                }
            }
            Ok(None) | Err(RecvTimeoutError::Disconnected) => {
                let st = w.child.wait().map(|s| format!("{}", s)).unwrap_or_default();
                return Attempt::Died(cur, st);
            }
            Err(RecvTimeoutError::Timeout) => {
                w.kill();
                return Attempt::Silent(cur);
            }
        }
    }
}

const DEADLINE: Duration = Duration::from_millis(2500);
const CONFIRM: Duration = Duration::from_millis(10000);

/// evaluate one case in a worker; hangs and aborts become verdicts on the entry point concerned
fn evaluate(w: &mut Worker, cat: usize, text: &str, confirmed: &AtomicUsize) -> CaseResult {
    let cps = cps_of(text);
    let ents = entries(cat);
    let mut mask = 0u64;
    let mut verdicts: Vec<String> = Vec::new();
    let mut masked_ilines: Vec<(usize, String)> = Vec::new();
    let mut masked_ylines: Vec<String> = Vec::new();
    // the `Iy` lines in the order of the yacc kinds, with a line for every masked entry point
    let fix_y = |r: &mut CaseResult, masked: &Vec<String>| {
        r.ylines.extend(masked.iter().cloned());
        r.ylines.sort_by_key(|l| l.split(' ').next().and_then(|k| k.parse::<usize>().ok()).unwrap_or(99));
    };
    let ymask = |e: Entry, why: &str| -> Option<String> {
        match e {
            Entry::AstNew(kk) => Some(format!("{} {}", kk, why)),
            _ => None,
        }
    };
    loop {
        match attempt(w, cat, mask, &cps, DEADLINE) {
            Attempt::Done(mut r) => {
                // the I lines of masked header entry points
                for (k, s) in masked_ilines {
                    r.ilines.insert(k.min(r.ilines.len()), s);
                }
                fix_y(&mut r, &masked_ylines);
                r.fails.extend(verdicts);
                return r;
            }
            Attempt::Silent(k) => {
                *w = Worker::spawn();
                // a loaded machine is not a hang: confirm with a long deadline (a bounded number of times)
                let mut hang = true;
                if confirmed.fetch_add(1, Ordering::SeqCst) < 12 {
                    match attempt(w, cat, mask, &cps, CONFIRM) {
                        Attempt::Done(mut r) => {
                            r.stats.push("slow_but_finished".to_string());
                            for (k, s) in masked_ilines {
                                r.ilines.insert(k.min(r.ilines.len()), s);
                            }
                            fix_y(&mut r, &masked_ylines);
                            r.fails.extend(verdicts);
                            return r;
                        }
                        Attempt::Silent(_) => *w = Worker::spawn(),
                        Attempt::Died(_, _) => {
                            *w = Worker::spawn();
                            hang = false;
                        }
                    }
                }
                if hang {
                    verdicts.push(format!("hang: {} did not return within {} ms", entry_name(ents[k]), DEADLINE.as_millis()));
                    if k < 2 {
                        masked_ilines.push((k, "hang".to_string()));
                    }
                    masked_ylines.extend(ymask(ents[k], "hang"));
                    mask |= 1 << k;
                    // every hang costs a deadline: once 40 have been witnessed, a case that hangs is not
                    // probed further (its remaining entry points are reported as not run)
                    if confirmed.load(Ordering::SeqCst) > 40 {
                        for j in k + 1..ents.len() {
                            mask |= 1 << j;
                            if j < 2 {
                                masked_ilines.push((j, "notrun".to_string()));
                            }
                            masked_ylines.extend(ymask(ents[j], "notrun"));
                        }
                        verdicts.push("hang budget used up: the remaining entry points of this case were not run".to_string());
                    }
                }
            }
            Attempt::Died(k, st) => {
                *w = Worker::spawn();
                verdicts.push(format!("abort: process died ({}) inside {}", st, entry_name(ents[k])));
                if k < 2 {
                    masked_ilines.push((k, "abort".to_string()));
                }
                masked_ylines.extend(ymask(ents[k], "abort"));
                mask |= 1 << k;
            }
        }
        if mask.count_ones() as usize > ents.len() {
            return CaseResult { outcomes: vec![String::from("0"); ents.len()], fails: verdicts, ..Default::default() };
        }
    }
}

// ---------------------------------------------------------------------------------------------
// generators

// (… and characters that are numeric, alphabetic or white space for Unicode but not for ASCII: superscript two,
// Arabic-Indic three, one quarter, Roman numeral eight)
const MB: &[char] = &['\u{e9}', '\u{2764}', '\u{1F600}', '\u{2028}', '\u{85}', '\u{212A}', '\u{17F}', '\u{200E}', '\u{b2}', '\u{663}', '\u{bc}', '\u{2167}'];
const WS: &[&str] = &["", "", " ", " ", "\n", "\t", "  ", "\r\n", "\u{85}", "\u{200E}", "\u{2028}", " \u{2029}", "\u{b}\u{c}"];
const NAMES: &[&str] = &[
    "yacckind", "recoverer", "test_files", "a", "b", "A", "k", "\u{212A}", "s", "\u{17F}", "S", "dupe", "case_insensitive", "size_limit",
    "x_y", "Z__", "flag", "Flag", "posix_escapes", "allow_wholeline_comments",
];
const MEMBERS: &[&str] = &[
    "Grmtools", "Eco", "Original", "NoAction", "UserAction", "GenericParseTree", "YaccKind", "YaccOriginalActionKind", "RecoveryKind",
    "CPCTPlus", "None", "x", "Y_z", "\u{17F}\u{212A}",
];
const NUMS: &[&str] = &[
    "0", "1", "007", "42", "1000000", "1\u{b2}", "\u{663}", "4\u{bc}", "\u{2167}", "18446744073709551615", "18446744073709551616", "018446744073709551615", "99999999999999999999999",
    "00000000000000000000000000000001", "340282366920938463463374607431768211456", "4294967296",
];
const STRS: &[&str] = &["\"\"", "\"a\"", "\"*.test\"", "\"a\\\"b\"", "\"\\\\\"", "\"\u{e9}\u{1F600}\"", "\"a\nb\"", "\"\\n\"", "\"x y\"", "\"[\"", "\"}\""];

fn ws(r: &mut Rng) -> &'static str {
    *r.pick(WS)
}

fn gen_ns(r: &mut Rng, o: &mut String) {
    if r.chance(1, 2) {
        o.push_str(*r.pick(MEMBERS));
        o.push_str(ws(r));
        o.push_str("::");
        o.push_str(ws(r));
    }
    o.push_str(*r.pick(MEMBERS));
}

fn gen_setting(r: &mut Rng, o: &mut String, depth: usize) {
    match r.below(if depth > 3 { 8 } else { 10 }) {
        0 | 1 => o.push_str(*r.pick(NUMS)),
        2 | 3 => o.push_str(*r.pick(STRS)),
        4 | 5 => gen_ns(r, o),
        6 | 7 => {
            gen_ns(r, o);
            o.push_str(ws(r));
            o.push('(');
            o.push_str(ws(r));
            gen_ns(r, o);
            o.push_str(ws(r));
            o.push(')');
        }
        _ => {
            o.push('[');
            let n = r.below(4);
            for i in 0..n {
                o.push_str(ws(r));
                gen_setting(r, o, depth + 1);
                o.push_str(ws(r));
                if i + 1 < n || r.chance(1, 3) {
                    o.push(',');
                } else if r.chance(1, 8) {
                    o.push(' ');
                }
                if r.chance(1, 12) {
                    o.push(',');
                }
            }
            o.push_str(ws(r));
            o.push(']');
        }
    }
}

/// a `%grmtools{…}` section, valid by construction except for deliberate duplicates
fn gen_header(r: &mut Rng) -> String {
    let mut o = String::new();
    o.push_str(ws(r));
    o.push_str("%grmtools");
    o.push_str(ws(r));
    o.push('{');
    let n = r.below(6);
    for i in 0..n {
        o.push_str(ws(r));
        match r.below(4) {
            0 => {
                o.push('!');
                o.push_str(*r.pick(NAMES));
            }
            1 => o.push_str(*r.pick(NAMES)),
            _ => {
                o.push_str(*r.pick(NAMES));
                o.push_str(ws(r));
                o.push(':');
                o.push_str(ws(r));
                gen_setting(r, &mut o, 0);
            }
        }
        o.push_str(ws(r));
        if i + 1 < n || r.chance(1, 2) {
            o.push(',');
        }
    }
    o.push_str(ws(r));
    o.push('}');
    o
}

const YK_HDR: &[&str] = &[
    "", "%grmtools{yacckind: Grmtools}\n", "%grmtools{yacckind: Eco}\n", "%grmtools {yacckind: Original(NoAction)}\n",
    "%grmtools{\n  yacckind: Original(YaccOriginalActionKind::UserAction),\n  recoverer: RecoveryKind::CPCTPlus,\n  test_files: [\"*.in\u{e9}\"],\n}\n",
    "%grmtools{yacckind: YaccKind::Original(YaccOriginalActionKind::GenericParseTree), !flag}\n",
];
const TOKS: &[&str] = &["'+'", "'*'", "\"INT\"", "ID", "'('", "')'", "T_1", "\"\u{e9}\"", "'\u{2764}'", "a", "b"];
const RULES: &[&str] = &["Expr", "Term", "Factor", "S", "A_b", "List", "Opt"];
const ACTIONS: &[&str] = &[
    "{ }", "{ $1 }", "{ Ok($1? + $3?) }", "{ let s = \"}\"; s.len() }", "{ '}' as u64 }", "{ { nested } }", "{ /* } */ 1 }",
    "{ // }\n 2 }", "{ \"\u{e9}\u{1F600}\" }", "{ $lexer.span_str($span) }",
];
const CMTS: &[&str] = &["", "", "", " ", "\n", " /* c */ ", " // c\n", "/* multi\n line \u{e9} */", "\t"];

/// texts aimed at single branches of `parse_declarations` / `parse_rule` and their loop conditions
const YACC_EDGES: &[&str] = &[
    "", "%", "%%", "%%%%", "%% %%", "%%\n%%\nprog \u{e9}", "/", "/*", "/**/", "//", "// x\n%%", "/* \n/ */%%",
    "%avoid_insert", "%avoid_insert ", "%avoid_insert 'a'", "%avoid_insert 'a' ", "%avoid_insert 'a' 'a'\n%%", "%avoid_insert 'a' // c\n'b'\n%%",
    "%avoid_insert 'a'\n%avoid_insert 'a' \"b\"\n%%\nA: ;", "%avoid_insert\n%%", "%avoid_insert /* x\n */ 'a'\n%%",
    "%implicit_tokens", "%implicit_tokens a b a", "%implicit_tokens a b a\n%%\nA: a;", "%implicit_tokens a\n%implicit_tokens b a\n%%A:;",
    "%implicit_tokens WS\n%%\nS: 'a' WS 'b';", "%implicit_tokens WS NL\n%token NL\n%%\nS: 'a' WS NL;", "%implicit_tokens 'WS'\n%%\nS: WS;", "%implicit_tokens WS\n%epp WS 'ws'\n%%\nS: WS | S WS;",
    "%left", "%left ", "%left '+' ", "%left '+' '+'\n%right '+'\n%nonassoc \"+\" '-'\n%%", "%left\n'+'\n%%", "%leftx\n%%", "%nonassoc a /* \n */ b\n%%",
    "%token", "%token a%%", "%token a %b", "%token a\n b 'c' \"d\" %%\nA: a b c d e;", "%token \"\"\" ''' '\n'", "%token 'a\nb'", "%token \"a\rb\"%%", "%tokenx y\n%%",
    "%token a a\n%token a\n%%\nA: a 'a' \"a\";", "%token .a. _ a.b\n%%\n.a.: _ a.b;",
    "%start", "%start ", "%start\nA", "%start A\n%start B\n%start A %%", "%start 1", "%start \u{e9}", "%start A.b_c9 x",
    "%epp", "%epp a", "%epp a ", "%epp a 'x", "%epp a 'x'", "%epp a \"x\\\"y\\'z\"\n%%", "%epp a 'x\\qy'", "%epp a 'x\\", "%epp a 'x\ny'", "%epp a x",
    "%epp 'a' \"1\"\n%epp a \"2\"\n%epp \"a\" '3'\n%%\nS: a;", "%epp a\n'x'", "%epp \u{e9} 'x'", "%epp a '\u{e9}\\'\u{1F600}'%%",
    "%expect 1\u{b2}", "%expect-rr \u{663}\n%%", "%expect \u{bc}", "%expect 2\u{2167}\n%%\nA: ;", "%expect-rr 1\u{b2}\u{b2}",
    "%expect", "%expect ", "%expect x", "%expect 1", "%expect 1 2\n%%", "%expect 18446744073709551615\n%expect 18446744073709551616\n%%",
    "%expect 1\n%expect 2\n%expect-rr 1\n%expect-rr 007\n%expect 3\n%%", "%expect-rr", "%expect-rr\n1", "%expect-r 1", "%expect-unused", "%expect-unused A 'b' \"c\" d.e %%",
    "%expect-unused 1", "%expect-unused A\nB\n%token x\n%%", "%expect-unused \u{e9}", "%expect-unused ''", "%expect-unusedA\n%%",
    "%parse-param", "%parse-param a", "%parse-param a:", "%parse-param a: T", "%parse-param a::b : T\n%%", "%parse-param a::b", "%parse-param a\n: T\n%%", "%parse-param a:\nT",
    "%parse-param a :: b :: c: &'a ::std::vec::Vec<u8>\n%%\nA:;", "%parse-param :", "%parse-param ::", "%parse-param :::", "%parse-param \u{e9}::\u{e9}:\u{e9}\r\n%%",
    "%parse-generics", "%parse-generics T", "%parse-generics\n", "%parse-generics 'a, \u{e9}\r%%", "%actiontype", "%actiontype T", "%actiontype T\n%actiontype U\n%actiontype V\n%%",
    "%actiontype\nT", "%foo", "%\u{e9}", "x", "%token a\nx",
    "%%A", "%%A:", "%%A:;", "%%A:|;", "%%A: |\n| ;B:;", "%%A;", "%%A B;", "%%A -> T: ;", "%%A->T:;", "%%A ->", "%%A -> T", "%%A -> T::U: 'a';", "%%A -> T::U", "%%A -> :: : ;",
    "%%A -> T\n: 'a' ;", "%%A - > T: ;", "%%\u{e9}: ;", "%%1: ;", "%%A: 'a", "%%A: 'a' \"b\" c %prec 'd' { e } ;", "%%A: %prec", "%%A: %prec ;", "%%A: %prec\n'a'\n;",
    "%%A: %prec 'a' 'b';", "%%A: %precx;", "%%A: %empty;", "%%A: %empty | %empty { } | %empty %prec 'a';", "%%A: 'a' %empty;", "%%A: %empty 'a';", "%%A: %empty", "%%A: %emptyx;",
    "%%A: %empty %empty;", "%%A: { }", "%%A: { } ;", "%%A: { } 'a';", "%%A: {", "%%A: {{}", "%%A: {}};", "%%A: }", "%%A: { \n\r\n } | { '}' } ;", "%%A: {\u{e9}} ;",
    "%%A: 'a' { x } /* c */ | // d\n 'b' ;", "%%A: \"\"\";", "%%A: ''';", "%%A: '';", "%%A: \"a\nb\";", "%%A: 'a\\'b' ;", "%%A: a.b _c D9 ;", "%%A: 9 ;", "%%A: \u{e9} ;",
    "%%A: 'a' ; B: 'b' ; A: 'c' ;%%", "%%A: B ;\n%%\n", "%%A: B ;\n%% \u{e9}", "%%A:B;%%%%", "%token a\n%%\nA: a b 'a' ;", "%start B\n%%\nA: ; B: ;",
    "%%A /* c */ : /* d */ 'a' /* e */ ; // f", "%%A /* c", "%%A: 'a' /* c", "%%A: 'a' /", "%%A: 'a' /x;", "%%A: 'a' //", "%%\nA:\n  'a'\n  | B\n  ;\nB: ;\n",
];

fn gen_yacc(r: &mut Rng) -> String {
    let mut o = String::new();
    let grmtools = r.chance(2, 3);
    o.push_str(*r.pick(YK_HDR));
    let nr = r.range(1, 4);
    let rules: Vec<&str> = (0..nr).map(|i| RULES[(i + r.below(2)) % RULES.len()]).collect();
    for _ in 0..r.below(6) {
        match r.below(16) {
            12 => o.push_str(&format!("%implicit_tokens {} {}\n", r.pick(TOKS), r.pick(TOKS))),
            13 => o.push_str(&format!("%parse-generics 'a, T: {}\n", r.pick(&["Copy", "'a + Fn(u8) -> u8", "\u{e9}"]))),
            14 => {
                let t = *r.pick(TOKS);
                o.push_str(&format!("%epp {} 'x'\n%epp {} \"y\\'\"\n", t, if r.chance(2, 3) { t } else { *r.pick(TOKS) }));
            }
            15 => o.push_str(&format!("%avoid_insert {} {}{}", r.pick(TOKS), r.pick(TOKS), r.pick(&["\n", " \n", "", " "]))),
            0 => o.push_str(&format!("%start {}\n", rules[0])),
            1 => o.push_str(&format!("%token {} {}\n", r.pick(TOKS), r.pick(TOKS))),
            2 => o.push_str(&format!("%left {}\n", r.pick(TOKS))),
            3 => o.push_str(&format!("%right {} {}\n", r.pick(TOKS), r.pick(TOKS))),
            4 => o.push_str(&format!("%nonassoc {}\n", r.pick(TOKS))),
            5 => o.push_str(&format!("%expect {}\n", r.pick(NUMS))),
            6 => o.push_str(&format!("%expect-rr {}\n", r.below(3))),
            7 => o.push_str(&format!("%avoid_insert {}\n", r.pick(TOKS))),
            8 => o.push_str(&format!("%epp {} \"desc \\\" {}\"\n", r.pick(TOKS), r.pick(MB))),
            9 => o.push_str("%parse-param p: &'a mut Vec<(u8, u8)>\n"),
            10 => o.push_str("%actiontype Result<u64, ()>\n"),
            _ => o.push_str(&format!("%expect-unused {} {}\n", rules[nr - 1], r.pick(TOKS))),
        }
        o.push_str(*r.pick(CMTS));
    }
    o.push_str("%%\n");
    for (ri, rule) in rules.iter().enumerate() {
        o.push_str(rule);
        if grmtools && r.chance(3, 4) {
            o.push_str(" -> Result<u64, ()>");
        }
        o.push_str(*r.pick(CMTS));
        o.push(':');
        let np = r.range(1, 3);
        for p in 0..np {
            o.push_str(*r.pick(CMTS));
            let ns = r.below(4);
            if ns == 0 && r.chance(1, 2) {
                o.push_str(" %empty");
            }
            for _ in 0..ns {
                o.push(' ');
                if r.chance(1, 2) {
                    o.push_str(*r.pick(TOKS));
                } else {
                    o.push_str(rules[r.below(nr).max(ri.min(nr - 1)) % nr]);
                }
            }
            if r.chance(1, 6) {
                o.push_str(&format!(" %prec {}", r.pick(TOKS)));
            }
            if r.chance(1, 2) {
                o.push(' ');
                o.push_str(*r.pick(ACTIONS));
            }
            o.push_str(*r.pick(CMTS));
            if p + 1 < np {
                o.push_str(" |");
            }
        }
        o.push_str(" ;\n");
    }
    if r.chance(1, 3) {
        o.push_str("%%\nfn f() -> u8 { b'}' }\n// \u{e9}\n");
    }
    o
}

const LEX_HDR: &[&str] = &["", "", "%grmtools{case_insensitive}\n", "%grmtools{!octal, size_limit: 1000}\n", "%grmtools{allow_wholeline_comments, posix_escapes,}\n", "%grmtools { dot_matches_new_line, unicode, \u{e9}: 1 }\n"];
const REGEXES: &[&str] = &[
    "[0-9]+", "[a-zA-Z_][a-zA-Z_0-9]*", "\\+", "\\*", "\\(", "[ \\t\\n]+", "\"[^\"]*\"", ".", "\u{e9}+", "\\p{Pattern_White_Space}", "if", "a|b",
    "\\\"(\\\\.|[^\"\\\\])*\\\"", "[\u{2764}\u{1F600}]", "x{2,3}", "(?i)abc", "\\x41", "/\\*", "\\ ", "[[:alpha:]]",
];
const LNAMES: &[&str] = &["\"INT\"", "'ID'", "\"+\"", "'*'", ";", "\"\u{e9}\"", "\"(\"", "'a b'", "\"\\\"\"", ";"];
const STATES: &[&str] = &["STR", "COMMENT", "s1", "X_y"];

const LEX_EDGES: &[&str] = &[
    "", "%", "%%", "%%\n", "%%\n%%", "//", "// x", "/* x", "%x", "%x ", "%x STR", "%x STR\n", "%s A B", "%option x\n%%",
    "%grmtools{allow_wholeline_comments}", "%grmtools{allow_wholeline_comments}\n", "%grmtools{allow_wholeline_comments}\n//",
    "%grmtools{allow_wholeline_comments}\n// todo", "%grmtools{allow_wholeline_comments}\n// todo\n", "%grmtools{allow_wholeline_comments}\n\n// a somewhat longer comment at the end of the text",
    "%grmtools{allow_wholeline_comments}\n%x STR\n// todo", "%grmtools{allow_wholeline_comments}\n//\u{e9}\u{e9}\u{e9}\u{e9}\u{e9}\u{e9}\u{e9}\u{e9}\u{e9}\u{e9}\u{e9}\u{e9}\u{e9}\u{e9}\u{e9}\u{e9}\u{e9}\u{e9}a",
    "%grmtools{allow_wholeline_comments}\n%%\n// c", "%grmtools{allow_wholeline_comments}\n%%\na 'A'\n// c", "%grmtools{allow_wholeline_comments}\n%%\n// c\na 'A'", "%grmtools{allow_wholeline_comments}\n%%\na 'A' // c",
    // numeric settings at and beyond the width of the option they set (u32 / usize)
    "%grmtools{nest_limit: 4294967295}\n%%\na 'A'\n", "%grmtools{nest_limit: 4294967296}\n%%\na 'A'\n", "%grmtools{nest_limit: 4294967396}\n%%\n[a-z]+ \"ID\"\n",
    "%grmtools{nest_limit: 18446744073709551615}\n%%\na 'A'\n", "%grmtools{size_limit: 18446744073709551615, dfa_size_limit: 4294967296}\n%%\na 'A'\n",
    "%grmtools{size_limit: 0}\n%%\na 'A'\n", "%grmtools{dfa_size_limit: 0, nest_limit: 0}\n%%\n(a) 'A'\n",
    "%x STR\n// todo", "%%\n// c", "%%\na 'A'\n//", "%%\na", "%%\na ", "%%\na 'A", "%%\na \"A", "%%\na ;", "%%\n<", "%%\n<STR", "%%\n<STR>", "%%\n<STR>a", "%%\n<STR>a <", "%%\n<STR>a <+", "%%\n<STR>a <+STR", "%%\n<STR>a <+STR>",
    "%x STR\n%%\n<STR>a <-STR>'A'", "%x STR\n%%\n<STR,INITIAL>\u{e9} ;", "%%\n\u{e9}", "%%\n\\", "%%\na\\ 'A'", "%%\n\\\u{e9} 'A'", "%%\n\u{b}", "%%\na 'A'\u{b}b 'B'\n", "%%\r\na 'A'\r\n", "%%\n\n\n",
];

fn gen_lex(r: &mut Rng) -> String {
    let mut o = String::new();
    o.push_str(*r.pick(LEX_HDR));
    let nst = r.below(3);
    for i in 0..nst {
        o.push_str(if r.chance(1, 2) { "%x " } else { "%s " });
        o.push_str(STATES[i]);
        if r.chance(1, 4) {
            o.push(' ');
            o.push_str(STATES[3]);
        }
        o.push_str(if r.chance(1, 5) { "  \n" } else { "\n" });
    }
    if r.chance(1, 6) {
        o.push_str("// comment\n");
    }
    o.push_str("%%\n");
    for _ in 0..r.range(1, 7) {
        if nst > 0 && r.chance(1, 3) {
            o.push('<');
            o.push_str(STATES[r.below(nst)]);
            if r.chance(1, 3) {
                o.push_str(",INITIAL");
            }
            o.push('>');
        }
        o.push_str(*r.pick(REGEXES));
        o.push_str(*r.pick(&[" ", "  ", "\t", " \t "]));
        if nst > 0 && r.chance(1, 4) {
            o.push_str(*r.pick(&["<+", "<-", "<"]));
            o.push_str(STATES[r.below(nst)]);
            o.push('>');
            o.push_str(*r.pick(LNAMES));
        } else {
            o.push_str(*r.pick(LNAMES));
        }
        o.push_str(if r.chance(1, 8) { " \n" } else { "\n" });
        if r.chance(1, 10) {
            o.push('\n');
        }
    }
    if r.chance(1, 10) {
        o.push_str("%%\n");
    }
    o
}

fn boundaries(s: &str) -> Vec<usize> {
    let mut v: Vec<usize> = s.char_indices().map(|(i, _)| i).collect();
    v.push(s.len());
    v
}

const OPENERS: &[char] = &['{', '}', '[', ']', '(', ')', '"', '\'', '<', '>', '/', '*', '%', ':', ',', '\\', '|', ';'];

/// mutants of one valid text; `budget` caps the per-offset families for long texts
fn mutants(r: &mut Rng, s: &str, others: &[String], budget: usize, out: &mut Vec<(String, &'static str)>) {
    let b = boundaries(s);
    let step = (b.len() / budget.max(1)).max(1);
    let off = r.below(step);
    // truncation at every (sampled) offset
    for (n, &i) in b.iter().enumerate() {
        if n % step == off % step || b.len() <= budget {
            out.push((s[..i].to_string(), "truncate"));
        }
    }
    // multi-byte character inserted at every (sampled) offset
    for (n, &i) in b.iter().enumerate() {
        if n % step == off % step || b.len() <= budget {
            let c = *r.pick(MB);
            out.push((format!("{}{}{}", &s[..i], c, &s[i..]), "insert_multibyte"));
        }
    }
    // unbalanced delimiters: delete each delimiter occurrence / insert a stray one
    let delims: Vec<usize> = s.char_indices().filter(|(_, c)| OPENERS.contains(c)).map(|(i, _)| i).collect();
    let dstep = (delims.len() / budget.max(1)).max(1);
    for (n, &i) in delims.iter().enumerate() {
        if n % dstep == 0 {
            out.push((format!("{}{}", &s[..i], &s[i + 1..]), "delete_delimiter"));
        }
    }
    for _ in 0..(budget / 2).max(2) {
        let i = *r.pick(&b);
        let c = *r.pick(OPENERS);
        out.push((format!("{}{}{}", &s[..i], c, &s[i..]), "insert_delimiter"));
    }
    // huge numbers: replace each digit run, or put one where a value may stand
    let bytes = s.as_bytes();
    let mut i = 0;
    while i < bytes.len() {
        if bytes[i].is_ascii_digit() {
            let mut j = i;
            while j < bytes.len() && bytes[j].is_ascii_digit() {
                j += 1;
            }
            out.push((format!("{}{}{}", &s[..i], r.pick(NUMS), &s[j..]), "huge_number"));
            i = j;
        } else {
            i += 1;
        }
    }
    for (i, c) in s.char_indices() {
        if (c == ':' || c == '[') && r.chance(1, 2) {
            out.push((format!("{}{}{}", &s[..i + 1], "9".repeat(r.range(19, 40)), &s[i + 1..]), "huge_number"));
        }
    }
    // splices: a slice of another text at a boundary; byte-level cut-and-join repaired to valid UTF-8
    for _ in 0..(budget / 2).max(2) {
        let o = r.pick(others);
        let ob = boundaries(o);
        let (x, y) = (*r.pick(&ob), *r.pick(&ob));
        let (x, y) = (x.min(y), x.max(y));
        let i = *r.pick(&b);
        let j = if r.chance(1, 2) { i } else { *r.pick(&b) }.max(i);
        out.push((format!("{}{}{}", &s[..i], &o[x..y], &s[j..]), "splice"));
        let sb = s.as_bytes();
        let obb = o.as_bytes();
        let (p, q) = (r.below(sb.len() + 1), r.below(sb.len() + 1));
        let (u, v) = (r.below(obb.len() + 1), r.below(obb.len() + 1));
        let mut bytes = sb[..p.min(q)].to_vec();
        bytes.extend_from_slice(&obb[u.min(v)..u.max(v)]);
        if r.chance(1, 3) {
            bytes.push(r.below(256) as u8);
        }
        bytes.extend_from_slice(&sb[p.max(q)..]);
        out.push((String::from_utf8_lossy(&bytes).into_owned(), "byte_splice"));
    }
    // swap / duplicate characters
    for _ in 0..2 {
        if b.len() > 2 {
            let n = r.below(b.len() - 1);
            let (i, j) = (b[n], b[n + 1]);
            out.push((format!("{}{}{}", &s[..i], &s[i..j].repeat(r.range(2, 3)), &s[j..]), "duplicate_char"));
        }
    }
}

struct Case {
    cat: usize,
    text: String,
    kind: &'static str,
}

fn corpus(dir: &Path) -> Vec<(String, usize, String)> {
    let mut v = Vec::new();
    if let Ok(rd) = std::fs::read_dir(dir) {
        let mut names: Vec<_> = rd.filter_map(|e| e.ok()).map(|e| e.path()).collect();
        names.sort();
        for p in names {
            let cat = match p.extension().and_then(|e| e.to_str()) {
                Some("hdr") => CAT_HEADER,
                Some("y") => CAT_YACC,
                Some("l") => CAT_LEX,
                _ => continue,
            };
            if let Ok(t) = std::fs::read_to_string(&p) {
                v.push((p.file_name().unwrap().to_string_lossy().into_owned(), cat, t));
            }
        }
    }
    v
}

fn cat_name(cat: usize) -> &'static str {
    ["header", "yacc", "lex"][cat.min(2)]
}

fn emit(out: &mut Out, c: &Case, r: &CaseResult) {
    let id = out.id();
    let cps: Vec<u32> = c.text.chars().map(|ch| ch as u32).collect();
    let mut req = format!("{} 0 {}", c.cat, cps.len());
    for cp in &cps {
        req.push_str(&format!(" {}", cp));
    }
    req.push_str(&format!(" {}", r.outcomes.len()));
    for o in &r.outcomes {
        req.push(' ');
        req.push_str(o);
    }
    out.case("C12", id, &req);
    for i in &r.ilines {
        out.imp(id, "I", i);
    }
    for y in &r.ylines {
        out.imp(id, "Iy", y);
        out.count(&format!("yacc.model_tie.{}", y.split(' ').nth(1).unwrap_or("?")));
    }
    if r.fails.is_empty() {
        out.imp(id, "H", "ok");
    } else {
        for f in &r.fails {
            out.imp(id, "H", &format!("fail {}", f));
        }
    }
    let shown: String = c.text.chars().take(300).collect();
    out.imp(id, "D", &format!("{} text ({}, {} bytes) {:?}", cat_name(c.cat), c.kind, c.text.len(), shown));
    out.count(&format!("cat.{}", cat_name(c.cat)));
    out.count(&format!("kind.{}", c.kind));
    out.count(&format!("bytes.{}", match c.text.len() { 0..=15 => "0-15", 16..=63 => "16-63", 64..=255 => "64-255", 256..=1023 => "256-1023", _ => "1024+" }));
    if c.text.chars().any(|ch| ch.len_utf8() > 1) {
        out.count("has_multibyte");
    }
    for s in &r.stats {
        out.count(s);
    }
    if let Some(i) = r.ilines.get(1) {
        out.count(&format!("header_result.{}", i.split(' ').next().unwrap_or("?")));
    }
    if out.next_id % 997 == 1 {
        out.sample(format!("{} ({}): {:?}", cat_name(c.cat), c.kind, shown));
    }
}

fn parse_request(line: &str) -> Option<Case> {
    let mut it = line.split_whitespace();
    if it.next() != Some("C12") {
        return None;
    }
    let _id = it.next()?;
    let cat: usize = it.next()?.parse().ok()?;
    let _ = it.next()?;
    let n: usize = it.next()?.parse().ok()?;
    let toks: Vec<&str> = it.take(n).collect();
    if toks.len() != n {
        return None;
    }
    Some(Case { cat: cat.min(2), text: text_of(&toks)?, kind: "replay" })
}

pub fn run(a: &Args) {
    if a.extra.iter().any(|x| x == "child") {
        child_main();
        return;
    }
    let mut out = Out::new(&a.out);
    let mut cases: Vec<Case> = Vec::new();
    if let Some(rp) = &a.replay {
        let txt = std::fs::read_to_string(rp).unwrap_or_default();
        cases.extend(txt.lines().filter_map(parse_request));
    } else {
        // corpus first: witnesses of past failures, then the seeds with their full mutation stream
        let corp = corpus(Path::new("corpus/C12"));
        let seeds: Vec<String> = corp.iter().map(|(_, _, t)| t.clone()).collect();
        for (_, cat, t) in &corp {
            cases.push(Case { cat: *cat, text: t.clone(), kind: "corpus" });
        }
        cases.push(Case { cat: CAT_HEADER, text: format!("%grmtools{{a: {}1{}}}", "[".repeat(400), "]".repeat(400)), kind: "deep_nesting" });
        cases.push(Case { cat: CAT_HEADER, text: format!("%grmtools{{a: {}", "[".repeat(3000)), kind: "deep_nesting" });
        cases.push(Case { cat: CAT_HEADER, text: format!("%grmtools{{a: [{}]}}", ",".repeat(5000)), kind: "long_array" });
        cases.push(Case { cat: CAT_HEADER, text: format!("%grmtools{{a: \"{}", "\\\"".repeat(5000)), kind: "long_string" });
        cases.push(Case { cat: CAT_YACC, text: format!("%%\nS: {};", "'a' ".repeat(3000)), kind: "long_production" });
        cases.push(Case { cat: CAT_YACC, text: format!("%%\nS: 'a' {{ {} }};", "{".repeat(3000)), kind: "deep_action" });
        cases.push(Case { cat: CAT_YACC, text: format!("%%\nS: 'a' {};", "/* x ".repeat(2000)), kind: "long_comment" });
        // hand-written edge texts for the yacc text parser (each also gets its mutation stream below)
        for t in YACC_EDGES {
            cases.push(Case { cat: CAT_YACC, text: t.to_string(), kind: "yacc_edge" });
        }
        // hand-written edge texts for the lex text parser: every place where the text can END (in a
        // comment, a declaration, a header, a rule, a state list) with and without whole-line comments,
        // with multi-byte characters next to the end; each also gets its mutation stream
        for t in LEX_EDGES {
            cases.push(Case { cat: CAT_LEX, text: t.to_string(), kind: "lex_edge" });
        }
        cases.push(Case { cat: CAT_LEX, text: format!("%%\n{} 'A'\n", "(".repeat(3000)), kind: "deep_regex" });
        cases.push(Case { cat: CAT_LEX, text: format!("%%\n{}", "a 'A'\n".repeat(1500)), kind: "many_rules" });
        let mut rng = Rng::for_case(a.seed, 12, 0);
        let budget = if a.thorough { 400 } else { 60 };
        for t in YACC_EDGES {
            let mut ms = Vec::new();
            mutants(&mut rng, t, &seeds, 12, &mut ms);
            for (m, k) in ms {
                cases.push(Case { cat: CAT_YACC, text: m, kind: k });
            }
        }
        for t in LEX_EDGES {
            let mut ms = Vec::new();
            mutants(&mut rng, t, &seeds, 12, &mut ms);
            for (m, k) in ms {
                cases.push(Case { cat: CAT_LEX, text: m, kind: k });
            }
        }
        for (_, cat, t) in &corp {
            let mut ms = Vec::new();
            mutants(&mut rng, t, &seeds, budget, &mut ms);
            for (m, k) in ms {
                cases.push(Case { cat: *cat, text: m, kind: k });
            }
        }
        // generated valid texts and their mutants
        let n = if a.thorough { 12000 } else { 2500 };
        let per = if a.thorough { 24 } else { 10 };
        let mut pool: Vec<String> = seeds.clone();
        for case in 0..n {
            let mut r = Rng::for_case(a.seed, 12, case as u64 + 1);
            let cat = [CAT_HEADER, CAT_HEADER, CAT_YACC, CAT_LEX][case % 4];
            let t = match cat {
                CAT_HEADER => {
                    let mut h = gen_header(&mut r);
                    if r.chance(1, 4) {
                        h.push_str("\n%%\nS: 'a';\n");
                    }
                    h
                }
                CAT_YACC => gen_yacc(&mut r),
                _ => gen_lex(&mut r),
            };
            cases.push(Case { cat, text: t.clone(), kind: "generated_valid" });
            let mut ms = Vec::new();
            mutants(&mut r, &t, &pool, per, &mut ms);
            // keep a bounded, seed-determined sample of the mutants of generated texts
            let keep = if a.thorough { 60 } else { 24 };
            while ms.len() > keep {
                let i = r.below(ms.len());
                ms.swap_remove(i);
            }
            for (m, k) in ms {
                cases.push(Case { cat, text: m, kind: k });
            }
            if pool.len() < 64 {
                pool.push(t);
            }
        }
    }
    // shard, then evaluate in parallel worker processes
    let cases: Vec<Case> = cases.into_iter().enumerate().filter(|(i, _)| i % a.shards.max(1) == a.shard).map(|(_, c)| c).collect();
    let nthreads = std::thread::available_parallelism().map(|n| n.get()).unwrap_or(4).clamp(1, 8);
    let next = Arc::new(AtomicUsize::new(0));
    let confirmed = Arc::new(AtomicUsize::new(0));
    let results: Arc<Mutex<Vec<Option<CaseResult>>>> = Arc::new(Mutex::new(vec![None; cases.len()]));
    let cases = Arc::new(cases);
    let cur_file = a.out.join("current_case.txt");
    let mut handles = Vec::new();
    for t in 0..nthreads {
        let (next, confirmed, results, cases) = (next.clone(), confirmed.clone(), results.clone(), cases.clone());
        let cur_file = cur_file.clone();
        handles.push(std::thread::spawn(move || {
            let mut w = Worker::spawn();
            loop {
                let i = next.fetch_add(1, Ordering::SeqCst);
                if i >= cases.len() {
                    break;
                }
                if t == 0 && i % 64 == 0 {
                    let _ = std::fs::write(&cur_file, format!("C12 case in flight: {} {:?}\n", cat_name(cases[i].cat), cases[i].text));
                }
                let r = evaluate(&mut w, cases[i].cat, &cases[i].text, &confirmed);
                results.lock().unwrap()[i] = Some(r);
            }
            w.kill();
        }));
    }
    for h in handles {
        let _ = h.join();
    }
    let results = results.lock().unwrap();
    for (i, c) in cases.iter().enumerate() {
        let r = results[i].clone().unwrap_or_default();
        emit(&mut out, c, &r);
    }
    out.finish(&a.out);
}
