//! Output files of one harness run: `cases.txt` (requests for the Lean driver), `impl.txt` (what the
//! real code answered, in the driver's reply format), `stats.json` (input distribution).
use std::collections::BTreeMap;
use std::fs::File;
use std::io::{BufWriter, Write};
use std::path::Path;

pub struct Out {
    pub cases: BufWriter<File>,
    pub imp: BufWriter<File>,
    pub stats: BTreeMap<String, u64>,
    pub samples: Vec<String>,
    pub next_id: u64,
}

impl Out {
    pub fn new(dir: &Path) -> Self {
        std::fs::create_dir_all(dir).unwrap();
        Out {
            cases: BufWriter::new(File::create(dir.join("cases.txt")).unwrap()),
            imp: BufWriter::new(File::create(dir.join("impl.txt")).unwrap()),
            stats: BTreeMap::new(),
            samples: Vec::new(),
            next_id: 0,
        }
    }
    pub fn id(&mut self) -> u64 {
        self.next_id += 1;
        self.next_id
    }
    /// a request line for the Lean driver
    pub fn case(&mut self, prop: &str, id: u64, payload: &str) {
        writeln!(self.cases, "{} {} {}", prop, id, payload).unwrap();
    }
    /// what the implementation answered (`tag` = I: same format as the driver's M/S lines;
    /// H: harness-side verdict `ok` / `fail <why>`; D: human-readable description of the case)
    pub fn imp(&mut self, id: u64, tag: &str, payload: &str) {
        writeln!(self.imp, "{} {} {}", id, tag, payload).unwrap();
    }
    pub fn count(&mut self, key: &str) {
        *self.stats.entry(key.to_string()).or_insert(0) += 1;
    }
    pub fn add(&mut self, key: &str, n: u64) {
        *self.stats.entry(key.to_string()).or_insert(0) += n;
    }
    pub fn max(&mut self, key: &str, n: u64) {
        let e = self.stats.entry(key.to_string()).or_insert(0);
        if n > *e {
            *e = n;
        }
    }
    pub fn sample(&mut self, s: String) {
        if self.samples.len() < 8 {
            self.samples.push(s);
        }
    }
    pub fn finish(mut self, dir: &Path) {
        self.cases.flush().unwrap();
        self.imp.flush().unwrap();
        let mut f = File::create(dir.join("stats.json")).unwrap();
        let mut s = String::from("{\"stats\":{");
        let mut first = true;
        for (k, v) in &self.stats {
            if !first {
                s.push(',');
            }
            first = false;
            s.push_str(&format!("{:?}:{}", k, v));
        }
        s.push_str("},\"samples\":[");
        first = true;
        for x in &self.samples {
            if !first {
                s.push(',');
            }
            first = false;
            s.push_str(&json_str(x));
        }
        s.push_str("]}");
        f.write_all(s.as_bytes()).unwrap();
    }
}

pub fn json_str(s: &str) -> String {
    let mut o = String::from("\"");
    for c in s.chars() {
        match c {
            '"' => o.push_str("\\\""),
            '\\' => o.push_str("\\\\"),
            '\n' => o.push_str("\\n"),
            '\r' => o.push_str("\\r"),
            '\t' => o.push_str("\\t"),
            c if (c as u32) < 0x20 => o.push_str(&format!("\\u{:04x}", c as u32)),
            c => o.push(c),
        }
    }
    o.push('"');
    o
}

pub fn join<T: std::fmt::Display>(xs: &[T]) -> String {
    let v: Vec<String> = xs.iter().map(|x| x.to_string()).collect();
    v.join(" ")
}

/// length-prefixed list
pub fn plist<T: std::fmt::Display>(xs: &[T]) -> String {
    if xs.is_empty() {
        "0".to_string()
    } else {
        format!("{} {}", xs.len(), join(xs))
    }
}

/// run `f`, turning a panic into `Err(message)`
pub fn guarded<T>(f: impl FnOnce() -> T + std::panic::UnwindSafe) -> Result<T, String> {
    std::panic::catch_unwind(f).map_err(|e| {
        if let Some(s) = e.downcast_ref::<&str>() {
            s.to_string()
        } else if let Some(s) = e.downcast_ref::<String>() {
            s.clone()
        } else {
            "panic".to_string()
        }
    })
}
