//! SplitMix64: every random choice of the harness derives from one state seeded by
//! (VERIF_SEED, property, case id), so a case replays exactly.
#[derive(Clone)]
pub struct Rng(pub u64);

impl Rng {
    pub fn new(seed: u64) -> Self {
        Rng(seed ^ 0x9E37_79B9_7F4A_7C15)
    }
    pub fn for_case(seed: u64, prop: u64, case: u64) -> Self {
        let mut r = Rng::new(seed.wrapping_mul(0x2545_F491_4F6C_DD1D) ^ prop.wrapping_mul(0x9E37_79B9) ^ case.wrapping_mul(0xD6E8_FEB8_6659_FD93));
        r.next();
        r
    }
    pub fn next(&mut self) -> u64 {
        self.0 = self.0.wrapping_add(0x9E37_79B9_7F4A_7C15);
        let mut z = self.0;
        z = (z ^ (z >> 30)).wrapping_mul(0xBF58_476D_1CE4_E5B9);
        z = (z ^ (z >> 27)).wrapping_mul(0x94D0_49BB_1331_11EB);
        z ^ (z >> 31)
    }
    /// uniform in 0..n (n > 0)
    pub fn below(&mut self, n: usize) -> usize {
        (self.next() % (n as u64)) as usize
    }
    /// uniform in lo..=hi
    pub fn range(&mut self, lo: usize, hi: usize) -> usize {
        lo + self.below(hi - lo + 1)
    }
    pub fn chance(&mut self, num: usize, den: usize) -> bool {
        self.below(den) < num
    }
    pub fn pick<'a, T>(&mut self, xs: &'a [T]) -> &'a T {
        &xs[self.below(xs.len())]
    }
}
