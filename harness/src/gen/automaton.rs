//! Dump of `lrtable::{StateGraph, StateTable}` through their public API into the Lean driver's wire
//! format (see lean/GrmVerif/Model/Automaton.lean), and the same data in the text form of the `I` lines.
use cfgrammar::yacc::YaccGrammar;
use cfgrammar::{PIdx, RIdx, Symbol, TIdx};
use lrtable::{Action, StIdx, StateGraph, StateTable};

use super::grammar::enc_sym;

fn items_of<S>(g: &YaccGrammar<u32>, is: &std::collections::HashMap<(PIdx<u32>, cfgrammar::SIdx<u32>), vob::Vob, S>) -> Vec<usize> {
    let _ = g;
    let mut v = vec![is.len()];
    for ((p, d), ctx) in is.iter() {
        v.push(usize::from(*p));
        v.push(usize::from(*d));
        let la: Vec<usize> = ctx.iter_set_bits(..).collect();
        v.push(la.len());
        v.extend(la);
    }
    v
}


pub fn act_str(a: Action<u32>) -> String {
    match a {
        Action::Error => "e".to_string(),
        Action::Shift(s) => format!("s{}", usize::from(s)),
        Action::Reduce(p) => format!("r{}", usize::from(p)),
        Action::Accept => "a".to_string(),
    }
}

pub fn dump_automaton(g: &YaccGrammar<u32>, sg: &StateGraph<u32>, st: &StateTable<u32>) -> String {
    let n = usize::from(sg.all_states_len());
    let mut v: Vec<usize> = vec![n, usize::from(sg.start_state())];
    for s in sg.iter_stidxs() {
        v.extend(items_of(g, &sg.core_state(s).items));
        v.extend(items_of(g, &sg.closed_state(s).items));
        let mut es: Vec<(usize, usize)> = sg.edges(s).iter().map(|(sym, t)| (enc_sym(sym), usize::from(*t))).collect();
        es.sort();
        v.push(es.len());
        for (a, b) in es {
            v.push(a);
            v.push(b);
        }
        for t in g.iter_tidxs() {
            match st.action(s, t) {
                Action::Error => v.push(0),
                Action::Shift(x) => {
                    v.push(1);
                    v.push(usize::from(x));
                }
                Action::Reduce(p) => {
                    v.push(2);
                    v.push(usize::from(p));
                }
                Action::Accept => v.push(3),
            }
        }
        for r in g.iter_rules() {
            v.push(st.goto(s, r).map(|x| usize::from(x) + 1).unwrap_or(0));
        }
        let sa: Vec<usize> = st.state_actions(s).map(usize::from).collect();
        v.push(sa.len());
        v.extend(sa);
        let ss: Vec<usize> = st.state_shifts(s).map(usize::from).collect();
        v.push(ss.len());
        v.extend(ss);
        let cr: Vec<usize> = st.core_reduces(s).map(usize::from).collect();
        v.push(cr.len());
        v.extend(cr);
        v.push(if st.reduce_only_state(s) { 1 } else { 0 });
    }
    match st.conflicts() {
        Some(c) => {
            v.push(c.rr_len());
            for (t, k, d, s) in c.rr_conflicts() {
                v.extend([usize::from(*t), usize::from(*k), usize::from(*d), usize::from(*s)]);
            }
            v.push(c.sr_len());
            for (t, p, s) in c.sr_conflicts() {
                v.extend([usize::from(*t), usize::from(*p), usize::from(*s)]);
            }
        }
        None => {
            v.push(0);
            v.push(0);
        }
    }
    crate::out::join(&v)
}

fn list(v: Vec<usize>) -> String {
    let s: Vec<String> = v.iter().map(|x| x.to_string()).collect();
    format!("{};", s.join(","))
}

/// `cells … sa … ss … ro …` (the part shared by the model line and the specification line)
pub fn views_text(g: &YaccGrammar<u32>, sg: &StateGraph<u32>, st: &StateTable<u32>) -> (String, String, String, String, String) {
    let mut cells = Vec::new();
    let mut sa = Vec::new();
    let mut ss = Vec::new();
    let mut ro = Vec::new();
    let mut cr = Vec::new();
    for s in sg.iter_stidxs() {
        let row: Vec<String> = g.iter_tidxs().map(|t| act_str(st.action(s, t))).collect();
        cells.push(row.join(","));
        sa.push(list(st.state_actions(s).map(usize::from).collect()));
        ss.push(list(st.state_shifts(s).map(usize::from).collect()));
        ro.push(if st.reduce_only_state(s) { "1" } else { "0" }.to_string());
        let mut c: Vec<usize> = st.core_reduces(s).map(usize::from).collect();
        c.sort();
        cr.push(list(c));
    }
    (cells.join(" "), sa.join(" "), ss.join(" "), ro.join(" "), cr.join(" "))
}

pub fn conflicts_text(st: &StateTable<u32>) -> (String, String, Vec<(usize, usize, usize)>) {
    let mut rr: Vec<(usize, usize, usize, usize)> = Vec::new();
    let mut sr: Vec<(usize, usize, usize, usize)> = Vec::new();
    if let Some(c) = st.conflicts() {
        for (t, k, d, s) in c.rr_conflicts() {
            rr.push((usize::from(*t), usize::from(*k), usize::from(*d), usize::from(*s)));
        }
        for (t, p, s) in c.sr_conflicts() {
            sr.push((usize::from(*t), usize::from(*p), usize::from(*s), 0));
        }
    }
    rr.sort();
    sr.sort();
    // per (state, token) number of reduce/reduce records
    let mut sum: std::collections::BTreeMap<(usize, usize), usize> = std::collections::BTreeMap::new();
    for (t, _, _, s) in &rr {
        *sum.entry((*s, *t)).or_insert(0) += 1;
    }
    let q = |v: &Vec<(usize, usize, usize, usize)>| v.iter().map(|(a, b, c, d)| format!("{},{},{},{}", a, b, c, d)).collect::<Vec<_>>().join(" ");
    (q(&rr), q(&sr), sum.into_iter().map(|((s, t), n)| (s, t, n)).collect())
}

#[allow(dead_code)]
pub fn unused(_: PIdx<u32>, _: RIdx<u32>, _: TIdx<u32>, _: StIdx<u32>, _: Symbol<u32>) {}
