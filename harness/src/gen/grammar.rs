//! Abstract grammars, their rendering as Yacc text, random generation, and the dump of a built
//! `YaccGrammar` into the Lean driver's wire format.
use crate::rng::Rng;
use cfgrammar::yacc::{AssocKind, YaccGrammar, YaccKind, YaccOriginalActionKind};
use cfgrammar::{PIdx, RIdx, Symbol, TIdx};

#[derive(Clone, Debug, PartialEq)]
pub enum S {
    T(usize),
    R(usize),
}

#[derive(Clone, Debug)]
pub struct AProd {
    pub syms: Vec<S>,
    /// `%prec` token
    pub prec: Option<usize>,
}

#[derive(Clone, Debug)]
pub struct AGrammar {
    pub nrules: usize,
    pub ntoks: usize,
    /// per rule, its productions (rule 0 is the start rule)
    pub rules: Vec<Vec<AProd>>,
    /// precedence lines in order: (kind 0 left / 1 right / 2 nonassoc, tokens)
    pub precs: Vec<(u8, Vec<usize>)>,
    pub expect: Option<usize>,
    pub expectrr: Option<usize>,
    pub avoid_insert: Vec<usize>,
}

impl AGrammar {
    pub fn render(&self) -> String {
        let mut s = String::from("%start R0\n");
        let mut used = vec![false; self.ntoks];
        for r in &self.rules {
            for p in r {
                for x in &p.syms {
                    if let S::T(t) = x {
                        used[*t] = true;
                    }
                }
            }
        }
        for (t, u) in used.iter().enumerate() {
            if !*u {
                s.push_str(&format!("%token 't{}'\n", t));
            }
        }
        for (k, toks) in &self.precs {
            let kw = ["%left", "%right", "%nonassoc"][*k as usize];
            let ts: Vec<String> = toks.iter().map(|t| format!("'t{}'", t)).collect();
            s.push_str(&format!("{} {}\n", kw, ts.join(" ")));
        }
        if let Some(n) = self.expect {
            s.push_str(&format!("%expect {}\n", n));
        }
        if let Some(n) = self.expectrr {
            s.push_str(&format!("%expect-rr {}\n", n));
        }
        if !self.avoid_insert.is_empty() {
            let ts: Vec<String> = self.avoid_insert.iter().map(|t| format!("'t{}'", t)).collect();
            s.push_str(&format!("%avoid_insert {}\n", ts.join(" ")));
        }
        s.push_str("%%\n");
        for (i, r) in self.rules.iter().enumerate() {
            let alts: Vec<String> = r
                .iter()
                .map(|p| {
                    let mut v: Vec<String> = p
                        .syms
                        .iter()
                        .map(|x| match x {
                            S::T(t) => format!("'t{}'", t),
                            S::R(r) => format!("R{}", r),
                        })
                        .collect();
                    if let Some(t) = p.prec {
                        v.push(format!("%prec 't{}'", t));
                    }
                    v.join(" ")
                })
                .collect();
            s.push_str(&format!("R{}: {};\n", i, alts.join(" | ")));
        }
        s
    }

    /// one-line description for replays and known-finding matchers
    pub fn describe(&self) -> String {
        self.render().replace('\n', " ").trim().to_string()
    }
}

pub struct GenCfg {
    pub max_rules: usize,
    pub max_toks: usize,
    pub max_prods: usize,
    pub max_len: usize,
    pub precs: bool,
}

impl Default for GenCfg {
    fn default() -> Self {
        GenCfg { max_rules: 4, max_toks: 4, max_prods: 3, max_len: 4, precs: false }
    }
}

/// the same grammar with 64..70 unused tokens declared FIRST (right after the `%start` line), so that
/// every token the grammar really uses has an index beyond the first 64-bit word of a token bit vector
/// (lookahead sets, FIRST/FOLLOW sets, `state_actions` … are `Vob`s)
pub fn with_many_tokens(text: &str, rng: &mut Rng) -> String {
    let k = 64 + rng.below(7);
    let ks: Vec<String> = (0..k).map(|i| format!("K{}", i)).collect();
    let decl = format!("%token {}\n", ks.join(" "));
    match text.find('\n') {
        Some(i) if text.starts_with("%start") => format!("{}{}{}", &text[..i + 1], decl, &text[i + 1..]),
        _ => format!("{}{}", decl, text),
    }
}

/// nullability that is easy to get wrong. Shape 0: a production whose LAST symbol is a nullable rule
/// that also stands earlier in it behind a nullable-only prefix, with something mandatory in between
/// (`V: W 'v' W`), used where over-approximating "V is nullable" leaks a lookahead into a state that has
/// a genuine action on it (`L: K V 'n' | F 'n'; K: 'i'; F: 'i'`). Shape 1: nullability derivable only
/// through a chain of rule-only productions ending in pure-epsilon stubs, declared top-down, under a
/// left-recursive list whose items must look past the chain.
pub fn nullable_sandwich_family(rng: &mut Rng) -> String {
    if rng.chance(1, 2) {
        let depth = rng.range(0, 2);
        let mut s = String::from("%start L\n%%\nL: K V 'n' | F 'n'");
        if rng.chance(1, 2) {
            s.push_str(" | L K V 'n'");
        }
        s.push_str(";\nK: 'i';\nF: 'i';\n");
        // V: W0 'v' W0 with W0 → … → Wd nullable
        let mid = if rng.chance(1, 3) { "'v' 'v'" } else { "'v'" };
        s.push_str(&format!("V: W0 {} W0;\n", mid));
        for d in 0..depth {
            s.push_str(&format!("W{}: W{};\n", d, d + 1));
        }
        s.push_str(&format!("W{}: | 's'{};\n", depth, if rng.chance(1, 2) { " | 's' 's'" } else { "" }));
        s
    } else {
        let depth = rng.range(1, 3);
        let nstubs = rng.range(1, 3);
        let mut s = String::from("%start U\n%%\nU: I | U I;\nI: A0 'f' 'i' ';' | A0 'l' 'i' ';'");
        if rng.chance(1, 2) {
            s.push_str(" | A0 'c' ';'");
        }
        s.push_str(";\n");
        for d in 0..depth {
            s.push_str(&format!("A{}: A{};\n", d, d + 1));
        }
        let stubs: Vec<String> = (0..nstubs).map(|i| format!("S{}", i)).collect();
        s.push_str(&format!("A{}: {};\n", depth, stubs.join(" ")));
        for st in &stubs {
            s.push_str(&format!("{}: ;\n", st));
        }
        s
    }
}

pub fn random_grammar(rng: &mut Rng, cfg: &GenCfg) -> AGrammar {
    let nrules = rng.range(1, cfg.max_rules);
    let ntoks = rng.range(1, cfg.max_toks);
    // per-grammar biases so that whole families (epsilon-heavy, token-heavy, recursive) are hit
    let p_tok = *rng.pick(&[35usize, 50, 65, 80]);
    let p_eps = *rng.pick(&[5usize, 15, 30]);
    let mut rules = Vec::new();
    for _ in 0..nrules {
        let np = rng.range(1, cfg.max_prods);
        let mut prods = Vec::new();
        for _ in 0..np {
            let len = if rng.chance(p_eps, 100) { 0 } else { rng.range(1, cfg.max_len) };
            let syms = (0..len)
                .map(|_| if rng.chance(p_tok, 100) { S::T(rng.below(ntoks)) } else { S::R(rng.below(nrules)) })
                .collect();
            let prec = if cfg.precs && rng.chance(1, 6) { Some(rng.below(ntoks)) } else { None };
            prods.push(AProd { syms, prec });
        }
        rules.push(prods);
    }
    let mut precs = Vec::new();
    if cfg.precs && rng.chance(3, 4) {
        let mut toks: Vec<usize> = (0..ntoks).collect();
        // random subset, random order, split into 1..3 lines
        for i in (1..toks.len()).rev() {
            let j = rng.below(i + 1);
            toks.swap(i, j);
        }
        let keep = rng.range(1, ntoks);
        toks.truncate(keep);
        let lines = rng.range(1, keep.min(3));
        let mut it = toks.into_iter();
        for l in 0..lines {
            let take = if l == lines - 1 { usize::MAX } else { 1 };
            let ts: Vec<usize> = it.by_ref().take(take).collect();
            if !ts.is_empty() {
                precs.push((rng.below(3) as u8, ts));
            }
        }
    }
    let mut g = AGrammar { nrules, ntoks, rules, precs, expect: None, expectrr: None, avoid_insert: vec![] };
    // %prec tokens must have a declared precedence, otherwise the grammar is rejected
    let declared: Vec<usize> = g.precs.iter().flat_map(|(_, t)| t.clone()).collect();
    for r in g.rules.iter_mut() {
        for p in r.iter_mut() {
            if let Some(t) = p.prec {
                if !declared.contains(&t) {
                    p.prec = if declared.is_empty() { None } else { Some(declared[t % declared.len()]) };
                }
            }
        }
    }
    g
}

/// layered grammars: 4-7 rules, rule i refers mostly to later rules (so the grammar is mostly
/// acyclic and often conflict-free), with unit chains, nullable chains and optional tails; facts
/// about late rules (nullable, FIRST) need several rounds to reach the early ones
pub fn layered_grammar(rng: &mut Rng) -> AGrammar {
    let nrules = rng.range(4, 7);
    let ntoks = rng.range(2, 5);
    let p_unit = *rng.pick(&[20usize, 40, 60]);
    let p_eps = *rng.pick(&[20usize, 40]);
    let mut rules = Vec::new();
    for i in 0..nrules {
        let last = i + 1 == nrules;
        let np = if last { 1 } else { rng.range(1, 2) };
        let mut prods = Vec::new();
        for k in 0..np {
            let syms: Vec<S> = if last || (i + 2 >= nrules && rng.chance(p_eps, 100)) {
                if rng.chance(p_eps, 100) || (last && k == 0 && rng.chance(1, 2)) { vec![] } else { vec![S::T(rng.below(ntoks))] }
            } else if rng.chance(p_unit, 100) {
                vec![S::R(rng.range(i + 1, nrules - 1))]
            } else {
                let len = rng.range(1, 3);
                (0..len)
                    .map(|j| {
                        if rng.chance(45, 100) {
                            S::T(rng.below(ntoks))
                        } else if j > 0 && rng.chance(1, 10) {
                            S::R(rng.below(i + 1))
                        } else {
                            S::R(rng.range(i + 1, nrules - 1))
                        }
                    })
                    .collect()
            };
            prods.push(AProd { syms, prec: None });
        }
        rules.push(prods);
    }
    if nrules >= 5 && rng.chance(1, 3) {
        // a nullable unit chain at the end, used in front of a token by an earlier rule
        let n = nrules;
        rules[n - 3] = vec![AProd { syms: vec![S::R(n - 2)], prec: None }];
        rules[n - 2] = vec![AProd { syms: vec![S::R(n - 1)], prec: None }];
        rules[n - 1] = if rng.chance(1, 2) {
            vec![AProd { syms: vec![], prec: None }]
        } else {
            vec![AProd { syms: vec![], prec: None }, AProd { syms: vec![S::T(rng.below(ntoks))], prec: None }]
        };
        let i = rng.below(n - 3);
        let t = rng.below(ntoks);
        rules[i].push(AProd { syms: vec![S::R(n - 3), S::T(t)], prec: None });
    }
    AGrammar { nrules, ntoks, rules, precs: vec![], expect: None, expectrr: None, avoid_insert: vec![] }
}

/// grammars in which Pager's construction first keeps two same-core states apart, later merges a
/// third context into one of them so that it becomes compatible with everything, re-points the only
/// predecessor of the other and so ORPHANS a chain of states (which `gc` must remove). Shape found by
/// a seeded-change experiment (seeded/C16), parameterised here by the two delays.
pub fn pager_orphan_family(rng: &mut Rng) -> String {
    let k1 = rng.range(2, 5);
    let k2 = k1 + rng.range(1, 3);
    let rs = vec!["'r'"; k1].join(" ");
    let ns = vec!["'n'"; k2].join(" ");
    let (e_body, f_body) = if rng.chance(1, 2) { ("'z' 'w'", "'z' 'v'") } else { ("'z' 'z' 'w'", "'z' 'z' 'v'") };
    format!(
        "%start S\n%%\nS: 'p' T1 'd' | 'p' T2 'e'\n | 'm' H1 'e' | 'm' H2 'd'\n | {rs} T1 'c' | {rs} T2 'c'\n | {ns} H1 'x' | {ns} H2 'y';\nH1: 'q' T1;\nH2: 'q' T2;\nT1: 'b' E;\nT2: 'b' F;\nE: {e};\nF: {f};\n",
        rs = rs, ns = ns, e = e_body, f = f_body
    )
}

/// k contexts x m rules that all derive the same token string; context i ends rule j with a
/// terminator chosen by a random injective map. States reached over the common string have m kernel
/// items and are reached from k predecessors: identical maps are merged, clashing ones (the same
/// terminator for different rules) must stay apart, partially agreeing ones are the interesting case
pub fn general_contexts(rng: &mut Rng) -> String {
    let m = rng.range(2, 6);
    let k = rng.range(2, 5);
    let body = if rng.chance(1, 4) { "'c' 'c'" } else { "'c'" };
    let mut alts = Vec::new();
    let mut prev: Vec<Vec<usize>> = Vec::new();
    let mut nextq = 0usize;
    for i in 0..k {
        // the terminator map of this context: a fresh block of terminators (weakly compatible with
        // everything: merged, lookaheads united), a copy of an earlier map (merged, nothing changes) or an
        // earlier map with two entries exchanged (must stay apart)
        let mode = if prev.is_empty() { 0 } else { rng.below(4) };
        let map: Vec<usize> = match mode {
            0 | 1 => {
                let v: Vec<usize> = (nextq..nextq + m).collect();
                nextq += m;
                v
            }
            2 => prev[rng.below(prev.len())].clone(),
            _ => {
                let mut v = prev[rng.below(prev.len())].clone();
                let a = rng.below(m);
                let b = (a + 1 + rng.below(m - 1)) % m;
                v.swap(a, b);
                v
            }
        };
        for (j, q) in map.iter().enumerate() {
            alts.push(format!("'p{}' X{} 'q{}'", i, j, q));
        }
        // extra alternatives so that the predecessor states differ in size (their item maps then have
        // different capacities and iterate shared items in different orders)
        for e in 0..rng.below(9) {
            alts.push(format!("'p{}' 'y{}'", i, e));
        }
        prev.push(map);
    }
    // the X rules are `stride` productions apart: item maps hash (production, dot) with FNV, whose low
    // bits follow the production number, so consecutive productions never share a bucket while
    // productions 4 or 8 apart do — and only then does the iteration order depend on insertion order
    let stride = *rng.pick(&[1usize, 1, 2, 4, 4, 8, 8, 3]);
    let ndummy = (stride - 1) * m;
    if ndummy > 0 {
        alts.push("'w' W".to_string());
    }
    let mut s = format!("%start S\n%%\nS: {};\n", alts.join(" | "));
    let mut d = 0;
    for j in 0..m {
        s.push_str(&format!("X{}: {};\n", j, body));
        for _ in 1..stride {
            s.push_str(&format!("D{}: 'z{}';\n", d, d));
            d += 1;
        }
    }
    if ndummy > 0 {
        let ds: Vec<String> = (0..ndummy).map(|i| format!("D{}", i)).collect();
        s.push_str(&format!("W: {};\n", ds.join(" | ")));
    }
    s
}

/// a rule `A: C Opt…` whose tail is non-empty but nullable, reached in ONE closure along several
/// paths with different lookaheads (`S: A 'x' | R0; R0: A 't0' | R1 't0'; …`); rules are declared in a
/// random order, because which path reaches `A` first — and so whether a lookahead arrives after `A`
/// was already expanded — depends on production numbers
pub fn nullable_tail_family(rng: &mut Rng) -> String {
    let nctx = rng.range(2, 4);
    // the tail may be absent: then `A` is the head of a chain of unit rules, through which lookaheads
    // have to travel several times when the rules are declared bottom-up
    let ntail = rng.below(3);
    let nchain = if ntail == 0 { rng.range(1, 3) } else { rng.below(3) };
    let mut rules: Vec<String> = Vec::new();
    let tail: Vec<String> = (0..ntail).map(|j| format!("O{}", j)).collect();
    let head = if nchain == 0 { "C".to_string() } else { "H0".to_string() };
    rules.push(format!("A: {} {};", head, tail.join(" ")).replace(" ;", ";"));
    for i in 0..nchain {
        let next = if i + 1 == nchain { "C".to_string() } else { format!("H{}", i + 1) };
        rules.push(format!("H{}: {};", i, next));
    }
    for j in 0..ntail {
        rules.push(if rng.chance(1, 2) { format!("O{}: | 'o{}';", j, j) } else { format!("O{}: 'o{}' | ;", j, j) });
    }
    rules.push(if rng.chance(1, 3) { "C: 'c' | 'c' 'c';".to_string() } else { "C: 'c';".to_string() });
    for i in 0..nctx {
        let head = if i + 1 == nctx || rng.chance(1, 2) { "A".to_string() } else { format!("R{}", i + 1) };
        let alt2 = if i + 1 < nctx && rng.chance(1, 2) { format!(" | R{} 'u{}'", i + 1, i) } else { String::new() };
        rules.push(format!("R{}: {} 't{}'{};", i, head, i, alt2));
    }
    let mut salts = vec!["R0".to_string()];
    if rng.chance(2, 3) {
        salts.push("A 'x'".to_string());
    }
    if nctx > 1 && rng.chance(1, 2) {
        salts.push("R1 'q'".to_string());
    }
    for i in (1..salts.len()).rev() {
        let j = rng.below(i + 1);
        salts.swap(i, j);
    }
    rules.push(format!("S: {};", salts.join(" | ")));
    for i in (1..rules.len()).rev() {
        let j = rng.below(i + 1);
        rules.swap(i, j);
    }
    format!("%start S\n%%\n{}\n", rules.join("\n"))
}

/// cascading merges: rules `X_j: 'c'` reached directly (`'o' X_j t`), through wrappers `W_j: 'x' X_j`
/// (`'m' W_j t`) and through wrappers behind a delay (`'n' 'y'… W_j t`). States with the same core are
/// merged when their terminator maps allow it; a delayed context merged into an already processed
/// state changes that state's successor, which may then no longer be compatible with the state it
/// was merged with before. Terminators come from a small pool so that maps coincide, overlap and clash.
pub fn cascade_family(rng: &mut Rng) -> String {
    let m = rng.range(2, 3);
    let pool = m + rng.range(1, 3);
    let mut alts: Vec<String> = Vec::new();
    let mut ctx = 0;
    let mut inj = |rng: &mut Rng| -> Vec<usize> {
        let mut p: Vec<usize> = (0..pool).collect();
        for a in (1..p.len()).rev() {
            let b = rng.below(a + 1);
            p.swap(a, b);
        }
        p[..m].to_vec()
    };
    for _ in 0..rng.range(1, 2) {
        let map = inj(rng);
        for j in 0..m {
            alts.push(format!("'o{}' X{} 'q{}'", ctx, j, map[j]));
        }
        ctx += 1;
    }
    for _ in 0..rng.range(1, 2) {
        let map = inj(rng);
        for j in 0..m {
            alts.push(format!("'m{}' W{} 'q{}'", ctx, j, map[j]));
        }
        ctx += 1;
    }
    for _ in 0..rng.range(1, 2) {
        let map = inj(rng);
        let delay = vec!["'y'"; rng.range(1, 3)].join(" ");
        for j in 0..m {
            alts.push(format!("'n{}' {} W{} 'q{}'", ctx, delay, j, map[j]));
        }
        ctx += 1;
    }
    let mut s = format!("%start S\n%%\nS: {};\n", alts.join("\n | "));
    for j in 0..m {
        s.push_str(&format!("W{}: 'x' X{};\nX{}: 'c';\n", j, j, j));
    }
    s
}

pub fn build(text: &str) -> Result<YaccGrammar<u32>, String> {
    YaccGrammar::new(YaccKind::Original(YaccOriginalActionKind::GenericParseTree), text)
        .map_err(|e| format!("{:?}", e.iter().map(|x| x.to_string()).collect::<Vec<_>>()))
}

pub fn enc_sym(s: &Symbol<u32>) -> usize {
    match s {
        Symbol::Token(t) => 2 * usize::from(*t),
        Symbol::Rule(r) => 2 * usize::from(*r) + 1,
    }
}

/// `ntoks nrules eof startProd nprods (lhs len sym…)*`
pub fn dump_grammar(g: &YaccGrammar<u32>) -> String {
    let mut v: Vec<usize> = vec![
        usize::from(g.tokens_len()),
        usize::from(g.rules_len()),
        usize::from(g.eof_token_idx()),
        usize::from(g.start_prod()),
        usize::from(g.prods_len()),
    ];
    for p in g.iter_pidxs() {
        v.push(usize::from(g.prod_to_rule(p)));
        v.push(g.prod(p).len());
        for s in g.prod(p) {
            v.push(enc_sym(s));
        }
    }
    crate::out::join(&v)
}

fn enc_prec(p: Option<cfgrammar::yacc::Precedence>) -> String {
    match p {
        None => "0".to_string(),
        Some(p) => format!(
            "1 {} {}",
            p.level,
            match p.kind {
                AssocKind::Left => 0,
                AssocKind::Right => 1,
                AssocKind::Nonassoc => 2,
            }
        ),
    }
}

/// `ntoks × prec  nprods × prec` with `prec = 0 | 1 level kind`
pub fn dump_precs(g: &YaccGrammar<u32>) -> String {
    let mut v = Vec::new();
    for t in g.iter_tidxs() {
        v.push(enc_prec(g.token_precedence(t)));
    }
    for p in g.iter_pidxs() {
        v.push(enc_prec(g.prod_precedence(p)));
    }
    v.join(" ")
}

/// glue the API must satisfy for the dump to mean what the Lean side assumes: `rule_to_prods(r)` is
/// exactly the productions whose `prod_to_rule` is `r`, in increasing order; `start_rule_idx` is the
/// rule of `start_prod`.
pub fn api_consistent(g: &YaccGrammar<u32>) -> Result<(), String> {
    for r in g.iter_rules() {
        let want: Vec<PIdx<u32>> = g.iter_pidxs().filter(|p| g.prod_to_rule(*p) == r).collect();
        if g.rule_to_prods(r) != &want[..] {
            return Err(format!("rule_to_prods({:?}) = {:?}, productions with that rule: {:?}", r, g.rule_to_prods(r), want));
        }
    }
    if g.prod_to_rule(g.start_prod()) != g.start_rule_idx() {
        return Err("start_rule_idx is not the rule of start_prod".to_string());
    }
    let _: (RIdx<u32>, TIdx<u32>) = (g.start_rule_idx(), g.eof_token_idx());
    Ok(())
}

/// hand-picked classics (text form); every property that takes grammars runs these first
pub fn classics() -> Vec<&'static str> {
    vec![
        "%start S\n%%\nS: A B 'c'; A: 'a' | ; B: 'b' | ;",
        "%start A\n%%\nA: B | 'a'; B: A;",
        "%start A\n%%\nA: A | 'a';",
        "%start A\n%%\nA: A 'a' | 'b' B; B: B 'x';",
        "%start E\n%left '+'\n%left '*'\n%%\nE: E '+' E | E '*' E | 'n' | '(' E ')';",
        "%start E\n%nonassoc '<'\n%%\nE: E '<' E | 'n';",
        "%start S\n%%\nS: 'a' A 'd' | 'b' B 'd' | 'a' B 'e' | 'b' A 'e'; A: 'c'; B: 'c';",
        "%start S\n%%\nS: 'i' S 'e' S | 'i' S | 'x';",
        "%start S\n%%\nS: A S 'x' | 'y'; A: ;",
        "%start S\n%%\nS: L '=' R | R; L: '*' R | 'id'; R: L;",
        "%start S\n%%\nS: A 'a' | 'b' A 'c' | B 'c' | 'b' B 'a'; A: 'd'; B: 'd';",
        "%start S\n%%\nS: S S | 'a' | ;",
        "%start S\n%%\nS: X Y Z; X: 'x' | ; Y: 'y' | ; Z: 'z' | ;",
        "%start A\n%%\nA: B C; B: 'b' | ; C: D A | 'c'; D: 'd' | ;",
    ]
}

// ---------------------------------------------------------------------------------------------------
// C14: decorated rendering (all optional declarations, non-ASCII token names / action text / %epp,
// the three grammar dialects). Additive: nothing above is changed.

/// dialect: 0 Original(GenericParseTree) 1 Original(UserAction) 2 Original(NoAction) 3 Grmtools 4 Eco
#[derive(Clone, Debug)]
pub struct Deco {
    pub kind: u8,
    /// per token: the text between the quotes
    pub tok_names: Vec<String>,
    pub epp: Vec<Option<String>>,
    /// per rule, per production
    pub actions: Vec<Vec<Option<String>>>,
    pub actiontype: Option<String>,
    pub rule_types: Vec<String>,
    pub parse_param: Option<(String, String)>,
    pub parse_generics: Option<String>,
    pub programs: Option<String>,
    pub implicit: Vec<usize>,
}

pub fn yacc_kind(kind: u8) -> YaccKind {
    match kind {
        0 => YaccKind::Original(YaccOriginalActionKind::GenericParseTree),
        1 => YaccKind::Original(YaccOriginalActionKind::UserAction),
        2 => YaccKind::Original(YaccOriginalActionKind::NoAction),
        3 => YaccKind::Grmtools,
        _ => YaccKind::Eco,
    }
}

const NAME_STEMS: [&str; 6] = ["t", "é", "日本", "🦀", "Ω-", "a b"];
const TEXTS: [&str; 8] = [
    "Ok(())",
    "$1 + $2 // café",
    "vec![\"日本語\", \"🦀\"]",
    "{ let x = 'ß'; x }",
    "",
    "/* ∀x∃y */ $$ = $lexer.span_str($span)",
    "\"\\u{1F980}\" \t tab",
    "Ω(n²)",
];
const TYPES: [&str; 5] = ["u64", "Result<Vec<&'input str>, ()>", "Größe<'a>", "()", "std::collections::HashMap<String, 日本>"];

pub fn random_deco(rng: &mut Rng, g: &mut AGrammar) -> Deco {
    let kind = *rng.pick(&[0u8, 0, 1, 2, 3, 3, 4]);
    let ascii_only = rng.chance(1, 4);
    let tok_names: Vec<String> = (0..g.ntoks)
        .map(|t| {
            let stem = if ascii_only { "t" } else { *rng.pick(&NAME_STEMS) };
            format!("{}{}", stem, t)
        })
        .collect();
    let mut used = vec![false; g.ntoks];
    for r in &g.rules {
        for p in r {
            for x in &p.syms {
                if let S::T(t) = x {
                    used[*t] = true;
                }
            }
        }
    }
    let p_epp = *rng.pick(&[0usize, 30, 100]);
    let epp = (0..g.ntoks)
        .map(|t| {
            if used[t] && rng.chance(p_epp, 100) {
                Some(rng.pick(&["plus", "an é", "『日本』", "🦀🦀", "q'uote", "x"]).to_string())
            } else {
                None
            }
        })
        .collect();
    let p_act = *rng.pick(&[0usize, 50, 100]);
    let actions = g
        .rules
        .iter()
        .map(|r| r.iter().map(|_| if kind == 1 || kind == 3 || rng.chance(p_act, 100) { Some(rng.pick(&TEXTS).to_string()) } else { None }).collect())
        .collect();
    let actiontype = if kind == 1 || (kind != 3 && rng.chance(1, 3)) { Some(rng.pick(&TYPES).to_string()) } else { None };
    let rule_types = (0..g.nrules).map(|_| rng.pick(&TYPES).to_string()).collect();
    let parse_param = if rng.chance(1, 2) { Some((rng.pick(&["p", "état", "_x1"]).to_string(), rng.pick(&TYPES).to_string())) } else { None };
    let parse_generics = if rng.chance(1, 3) { Some(rng.pick(&["'a, T: Clone", "Ü"]).to_string()) } else { None };
    let programs = if rng.chance(1, 2) { Some(rng.pick(&["fn f() -> &'static str { \"naïve 🦀\" }\n", "", "// только комментарий"]).to_string()) } else { None };
    if rng.chance(1, 2) {
        let k = rng.range(1, g.ntoks);
        g.avoid_insert = (0..k).map(|_| rng.below(g.ntoks)).collect();
        g.avoid_insert.sort();
        g.avoid_insert.dedup();
    }
    if rng.chance(1, 3) {
        g.expect = Some(rng.below(4));
    }
    if rng.chance(1, 4) {
        g.expectrr = Some(rng.below(3));
    }
    let implicit = if kind == 4 && rng.chance(2, 3) {
        let mut v: Vec<usize> = (0..rng.range(1, 2)).map(|_| rng.below(g.ntoks)).collect();
        v.sort();
        v.dedup();
        v
    } else {
        vec![]
    };
    Deco { kind, tok_names, epp, actions, actiontype, rule_types, parse_param, parse_generics, programs, implicit }
}

fn quote_tok(n: &str) -> String {
    format!("\"{}\"", n)
}

pub fn render_deco(g: &AGrammar, d: &Deco) -> String {
    let tn = |t: usize| quote_tok(&d.tok_names[t]);
    let mut s = String::from("%start R0\n");
    let mut used = vec![false; g.ntoks];
    for r in &g.rules {
        for p in r {
            for x in &p.syms {
                if let S::T(t) = x {
                    used[*t] = true;
                }
            }
        }
    }
    if d.kind <= 2 {
        if let Some(t) = &d.actiontype {
            s.push_str(&format!("%actiontype {}\n", t));
        }
    }
    for (t, u) in used.iter().enumerate() {
        if !*u && !d.implicit.contains(&t) {
            s.push_str(&format!("%token {}\n", tn(t)));
        }
    }
    for (k, toks) in &g.precs {
        let kw = ["%left", "%right", "%nonassoc"][*k as usize];
        let ts: Vec<String> = toks.iter().map(|t| tn(*t)).collect();
        s.push_str(&format!("{} {}\n", kw, ts.join(" ")));
    }
    for (t, e) in d.epp.iter().enumerate() {
        if let Some(e) = e {
            s.push_str(&format!("%epp {} \"{}\"\n", tn(t), e));
        }
    }
    if let Some(n) = g.expect {
        s.push_str(&format!("%expect {}\n", n));
    }
    if let Some(n) = g.expectrr {
        s.push_str(&format!("%expect-rr {}\n", n));
    }
    if !g.avoid_insert.is_empty() {
        let ts: Vec<String> = g.avoid_insert.iter().map(|t| tn(*t)).collect();
        s.push_str(&format!("%avoid_insert {}\n", ts.join(" ")));
    }
    if let Some((n, t)) = &d.parse_param {
        s.push_str(&format!("%parse-param {}: {}\n", n, t));
    }
    if let Some(t) = &d.parse_generics {
        s.push_str(&format!("%parse-generics {}\n", t));
    }
    if !d.implicit.is_empty() {
        let ts: Vec<String> = d.implicit.iter().map(|t| tn(*t)).collect();
        s.push_str(&format!("%implicit_tokens {}\n", ts.join(" ")));
    }
    s.push_str("%%\n");
    for (i, r) in g.rules.iter().enumerate() {
        let alts: Vec<String> = r
            .iter()
            .enumerate()
            .map(|(pi, p)| {
                let mut v: Vec<String> = p
                    .syms
                    .iter()
                    .map(|x| match x {
                        S::T(t) => tn(*t),
                        S::R(r) => format!("R{}", r),
                    })
                    .collect();
                if let Some(t) = p.prec {
                    v.push(format!("%prec {}", tn(t)));
                }
                if let Some(a) = &d.actions[i][pi] {
                    v.push(format!("{{ {} }}", a));
                }
                v.join(" ")
            })
            .collect();
        if d.kind == 3 {
            s.push_str(&format!("R{} -> {}: {};\n", i, d.rule_types[i], alts.join(" | ")));
        } else {
            s.push_str(&format!("R{}: {};\n", i, alts.join(" | ")));
        }
    }
    if let Some(p) = &d.programs {
        s.push_str("%%\n");
        s.push_str(p);
    }
    s
}

/// Can some rule derive just itself (`A =>+ A`)? Edges `A -> B` for productions `A: α B β` with
/// `α`, `β` nullable; a cycle in that graph is a derivation cycle.
pub fn has_derivation_cycle(g: &YaccGrammar<u32>) -> bool {
    let firsts = g.firsts();
    let n = usize::from(g.rules_len());
    let mut edge = vec![vec![false; n]; n];
    for p in g.iter_pidxs() {
        let a = usize::from(g.prod_to_rule(p));
        let prod = g.prod(p);
        for (i, s) in prod.iter().enumerate() {
            if let Symbol::Rule(b) = s {
                let others_nullable = prod.iter().enumerate().all(|(j, x)| {
                    j == i || match x {
                        Symbol::Rule(r) => firsts.is_epsilon_set(*r),
                        Symbol::Token(_) => false,
                    }
                });
                if others_nullable {
                    edge[a][usize::from(*b)] = true;
                }
            }
        }
    }
    // transitive closure
    for k in 0..n {
        for i in 0..n {
            if edge[i][k] {
                for j in 0..n {
                    if edge[k][j] {
                        edge[i][j] = true;
                    }
                }
            }
        }
    }
    (0..n).any(|i| edge[i][i])
}

/// Hidden left recursion: `A =>+ α A β` where `α` is a NON-EMPTY sequence of nullable symbols
/// somewhere along the cycle. An LR automaton for such a grammar has a conflict, and when it is
/// resolved in favour of reducing the empty production the LR loop never terminates (as in Yacc).
pub fn has_hidden_left_recursion(g: &YaccGrammar<u32>) -> bool {
    let firsts = g.firsts();
    let n = usize::from(g.rules_len());
    // edge[a][b] = (exists, exists-with-hidden-prefix)
    let mut plain = vec![vec![false; n]; n];
    let mut hidden = vec![vec![false; n]; n];
    for p in g.iter_pidxs() {
        let a = usize::from(g.prod_to_rule(p));
        let prod = g.prod(p);
        for (i, s) in prod.iter().enumerate() {
            if let Symbol::Rule(b) = s {
                plain[a][usize::from(*b)] = true;
                if i > 0 {
                    hidden[a][usize::from(*b)] = true;
                }
            }
            let nullable = match s {
                Symbol::Rule(r) => firsts.is_epsilon_set(*r),
                Symbol::Token(_) => false,
            };
            if !nullable {
                break;
            }
        }
    }
    // reach[a][b]: left-corner reachability; hreach: through at least one hidden edge
    let mut reach = plain.clone();
    let mut hreach = hidden.clone();
    for _ in 0..n {
        for a in 0..n {
            for k in 0..n {
                if reach[a][k] {
                    for b in 0..n {
                        if reach[k][b] {
                            reach[a][b] = true;
                        }
                        if hreach[k][b] || (hreach[a][k] && reach[k][b]) {
                            hreach[a][b] = true;
                        }
                    }
                }
                if hreach[a][k] {
                    for b in 0..n {
                        if reach[k][b] {
                            hreach[a][b] = true;
                        }
                    }
                }
            }
        }
    }
    (0..n).any(|a| hreach[a][a])
}
