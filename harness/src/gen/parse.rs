//! Running the real LR parser on a token sequence without a lexer: a `Lexer`/`NonStreamingLexer`
//! over a vector of lexemes, recording actions (production, span, arguments) and building a tree
//! that carries production indices.
use cfgrammar::yacc::YaccGrammar;
use cfgrammar::{RIdx, Span, TIdx};
use lrlex::{DefaultLexeme, DefaultLexerTypes, LRLexError};
use lrpar::parser::AStackType;
use lrpar::{LexParseError, Lexeme, Lexer, NonStreamingLexer, ParseRepair, RTParserBuilder, RecoveryKind};
use lrtable::StateTable;
use std::cell::RefCell;

pub type LT = DefaultLexerTypes<u32>;

/// the i-th token occupies bytes `3*i+1 .. 3*i+3` (length 2, one-byte gaps, first token not at 0), so
/// spans of different lexemes never touch and a zero-length span is distinguishable from a lexeme
pub const STRIDE: usize = 3;
pub const TOKLEN: usize = 2;

pub struct VecLexer {
    pub lexemes: Vec<DefaultLexeme<u32>>,
    pub text: String,
}

impl VecLexer {
    pub fn new(toks: &[u32]) -> Self {
        let lexemes = toks.iter().enumerate().map(|(i, t)| DefaultLexeme::new(*t, STRIDE * i + 1, TOKLEN)).collect();
        VecLexer { lexemes, text: " ".repeat(STRIDE * toks.len() + 4) }
    }
}

impl Lexer<LT> for VecLexer {
    fn iter<'a>(&'a self) -> Box<dyn Iterator<Item = Result<DefaultLexeme<u32>, LRLexError>> + 'a> {
        Box::new(self.lexemes.iter().map(|l| Ok(*l)))
    }
}

impl<'input> NonStreamingLexer<'input, LT> for VecLexer {
    fn span_str(&self, _: Span) -> &'input str {
        ""
    }
    fn span_lines_str(&self, _: Span) -> &'input str {
        ""
    }
    fn line_col(&self, _: Span) -> ((usize, usize), (usize, usize)) {
        ((1, 1), (1, 1))
    }
}

#[derive(Clone, Debug, PartialEq)]
pub enum PTree {
    /// token, start byte, length, faulty
    Leaf(u32, usize, usize, bool),
    /// production, children
    Node(usize, Vec<PTree>),
}

impl PTree {
    /// `L t idx` / `N p k kids…` with idx = lexeme index (start / STRIDE); inserted (faulty) lexemes are
    /// `F t start`
    pub fn text(&self, out: &mut Vec<String>) {
        match self {
            // a leaf whose extent is not what the lexer handed out (a real lexeme is TOKLEN bytes long, an
            // inserted one zero bytes) is tagged `X`/`Y` (same fields): consumers report it
            PTree::Leaf(t, st, len, false) if *len != TOKLEN => out.push(format!("Y {} {}", t, st / STRIDE)),
            PTree::Leaf(t, st, len, true) if *len != 0 => out.push(format!("X {} {}", t, st)),
            PTree::Leaf(t, st, _, false) => out.push(format!("L {} {}", t, st / STRIDE)),
            PTree::Leaf(t, st, _, true) => out.push(format!("F {} {}", t, st)),
            PTree::Node(p, kids) => {
                out.push(format!("N {} {}", p, kids.len()));
                for k in kids {
                    k.text(out);
                }
            }
        }
    }
    pub fn to_text(&self) -> String {
        let mut v = Vec::new();
        self.text(&mut v);
        v.join(" ")
    }
    pub fn leaves(&self, out: &mut Vec<(u32, usize, usize, bool)>) {
        match self {
            PTree::Leaf(t, s, l, f) => out.push((*t, *s, *l, *f)),
            PTree::Node(_, kids) => {
                for k in kids {
                    k.leaves(out)
                }
            }
        }
    }
}

/// one call of an action: production, rule, span, argument summary (L = lexeme, T = value)
#[derive(Clone, Debug, PartialEq)]
pub struct ActionCall {
    pub pidx: usize,
    pub ridx: usize,
    pub span: (usize, usize),
    pub args: Vec<PTree>,
    pub param: u32,
}

#[derive(Clone, Debug)]
pub struct PErr {
    /// start byte of the error lexeme, its length, its token
    pub lexeme: (usize, usize, u32),
    pub state: usize,
    /// repair sequences: I t / D idx / S idx
    pub repairs: Vec<Vec<String>>,
}

impl PErr {
    /// index of the error lexeme (input length for end of input)
    pub fn laidx(&self, ntoks_in_input: usize) -> usize {
        if self.lexeme.1 == 0 {
            ntoks_in_input
        } else {
            self.lexeme.0 / STRIDE
        }
    }
}

pub struct ParseOut {
    pub tree: Option<PTree>,
    pub errors: Vec<PErr>,
    pub log: Vec<ActionCall>,
    pub wall_ms: u128,
}

/// parse through `parse_actions` with one recording closure per production
pub fn parse_actions(
    g: &YaccGrammar<u32>,
    st: &StateTable<u32>,
    toks: &[u32],
    rk: RecoveryKind,
    cost: Option<&dyn Fn(TIdx<u32>) -> u8>,
) -> ParseOut {
    let lexer = VecLexer::new(toks);
    let log: RefCell<Vec<ActionCall>> = RefCell::new(Vec::new());
    type A<'a> = Box<dyn Fn(RIdx<u32>, &dyn NonStreamingLexer<LT>, Span, std::vec::Drain<AStackType<DefaultLexeme<u32>, PTree>>, u32) -> PTree + 'a>;
    let mut boxed: Vec<A> = Vec::new();
    for p in g.iter_pidxs() {
        let pi = usize::from(p);
        let logr = &log;
        boxed.push(Box::new(move |ridx, _lexer, span, args, param| {
            let kids: Vec<PTree> = args
                .map(|a| match a {
                    AStackType::ActionType(t) => t,
                    AStackType::Lexeme(l) => PTree::Leaf(l.tok_id(), l.span().start(), l.span().len(), l.faulty()),
                })
                .collect();
            logr.borrow_mut().push(ActionCall { pidx: pi, ridx: usize::from(ridx), span: (span.start(), span.end()), args: kids.clone(), param });
            PTree::Node(pi, kids)
        }));
    }
    let refs: Vec<&dyn Fn(RIdx<u32>, &dyn NonStreamingLexer<LT>, Span, std::vec::Drain<AStackType<DefaultLexeme<u32>, PTree>>, u32) -> PTree> =
        boxed.iter().map(|b| &**b as _).collect();
    let t0 = std::time::Instant::now();
    // the two setters are independent: either order must give the same parser (alternate by input length)
    let b0 = RTParserBuilder::<u32, LT>::new(g, st);
    let (tree, errs) = match cost {
        Some(c) if toks.len() % 2 == 1 => b0.term_costs(c).recoverer(rk).parse_actions(&lexer, &refs, 7u32),
        Some(c) => b0.recoverer(rk).term_costs(c).parse_actions(&lexer, &refs, 7u32),
        None => b0.recoverer(rk).parse_actions(&lexer, &refs, 7u32),
    };
    let wall_ms = t0.elapsed().as_millis();
    let errors = errs
        .iter()
        .filter_map(|e| match e {
            LexParseError::ParseError(pe) => Some(PErr {
                lexeme: (pe.lexeme().span().start(), pe.lexeme().span().len(), pe.lexeme().tok_id()),
                state: usize::from(pe.stidx()),
                repairs: pe
                    .repairs()
                    .iter()
                    .map(|seq| {
                        seq.iter()
                            .map(|r| match r {
                                ParseRepair::Insert(t) => format!("I{}", usize::from(*t)),
                                ParseRepair::Delete(l) => format!("D{}", l.span().start() / STRIDE),
                                ParseRepair::Shift(l) => format!("S{}", l.span().start() / STRIDE),
                            })
                            .collect()
                    })
                    .collect(),
            }),
            LexParseError::LexError(_) => None,
        })
        .collect();
    drop(refs);
    drop(boxed);
    ParseOut { tree, errors, log: log.into_inner(), wall_ms }
}

/// the generic-tree entry point (`parse_map`), as (rule, children) shape text
pub fn parse_generic_shape(g: &YaccGrammar<u32>, st: &StateTable<u32>, toks: &[u32], rk: RecoveryKind) -> Option<String> {
    parse_generic_shape_costs(g, st, toks, rk, None)
}

pub fn parse_generic_shape_costs(g: &YaccGrammar<u32>, st: &StateTable<u32>, toks: &[u32], rk: RecoveryKind, cost: Option<&dyn Fn(TIdx<u32>) -> u8>) -> Option<String> {
    let lexer = VecLexer::new(toks);
    let b = RTParserBuilder::<u32, LT>::new(g, st).recoverer(rk);
    let b = match cost {
        Some(c) => b.term_costs(c),
        None => b,
    };
    let (t, _) = b.parse_map(
        &lexer,
        &|l: DefaultLexeme<u32>| format!("L {} {}", l.tok_id(), if l.faulty() { l.span().start() + 1_000_000 } else { l.span().start() / STRIDE }),
        &|r: RIdx<u32>, kids: Vec<String>| format!("R {} {} {}", usize::from(r), kids.len(), kids.join(" ")).trim().to_string(),
    );
    t
}

/// the public (deprecated) `lrpar::action_generictree` as the action of every production: the tree it
/// builds, in the format of `parse_generic_shape`
#[allow(deprecated)]
pub fn parse_action_generictree_shape(g: &YaccGrammar<u32>, st: &StateTable<u32>, toks: &[u32], rk: RecoveryKind) -> Option<String> {
    parse_action_generictree_shape_costs(g, st, toks, rk, None)
}

#[allow(deprecated)]
pub fn parse_action_generictree_shape_costs(g: &YaccGrammar<u32>, st: &StateTable<u32>, toks: &[u32], rk: RecoveryKind, cost: Option<&dyn Fn(TIdx<u32>) -> u8>) -> Option<String> {
    use lrpar::Node;
    let lexer = VecLexer::new(toks);
    type F<'a> = &'a dyn Fn(RIdx<u32>, &dyn NonStreamingLexer<LT>, Span, std::vec::Drain<AStackType<DefaultLexeme<u32>, Node<DefaultLexeme<u32>, u32>>>, ()) -> Node<DefaultLexeme<u32>, u32>;
    let f: F = &lrpar::action_generictree::<u32, LT>;
    let refs: Vec<F> = g.iter_pidxs().map(|_| f).collect();
    let b = RTParserBuilder::<u32, LT>::new(g, st).recoverer(rk);
    let b = match cost {
        Some(c) => b.term_costs(c),
        None => b,
    };
    let (t, _) = b.parse_actions(&lexer, &refs, ());
    fn shape(n: &Node<DefaultLexeme<u32>, u32>) -> String {
        match n {
            Node::Term { lexeme } => format!("L {} {}", lexeme.tok_id(), if lexeme.faulty() { lexeme.span().start() + 1_000_000 } else { lexeme.span().start() / STRIDE }),
            Node::Nonterm { ridx, nodes } => {
                let ks: Vec<String> = nodes.iter().map(shape).collect();
                format!("R {} {} {}", usize::from(*ridx), ks.len(), ks.join(" ")).trim().to_string()
            }
        }
    }
    t.map(|n| shape(&n))
}

/// A minimal table-driven LR loop over state stacks only, with a step bound: does the plain LR parse
/// of `toks` finish within `bound` steps? (`Parser::lr` has no bound of its own: a table with a
/// precedence-resolved conflict on hidden left recursion, or a cyclic grammar, makes it spin.)
pub fn lr_terminates(g: &YaccGrammar<u32>, st: &StateTable<u32>, toks: &[u32], bound: usize) -> bool {
    use lrtable::Action;
    let mut stack = vec![st.start_state()];
    let mut la = 0usize;
    for _ in 0..bound {
        let t = if la < toks.len() { TIdx(toks[la]) } else { g.eof_token_idx() };
        match st.action(*stack.last().unwrap(), t) {
            Action::Shift(s) => {
                stack.push(s);
                la += 1;
            }
            Action::Reduce(p) => {
                let n = g.prod(p).len();
                if stack.len() <= n {
                    return true;
                }
                stack.truncate(stack.len() - n);
                match st.goto(*stack.last().unwrap(), g.prod_to_rule(p)) {
                    Some(s) => stack.push(s),
                    None => return true,
                }
            }
            Action::Accept | Action::Error => return true,
        }
    }
    false
}
