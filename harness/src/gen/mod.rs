pub mod grammar;
