pub mod automaton;
pub mod grammar;
pub mod parse;
pub mod sentences;
pub mod yacc;
pub mod worker;
