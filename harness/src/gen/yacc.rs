//! Rich abstract Yacc grammars for C10: declarations in any order, rules split across the source,
//! three token quoting styles, precedence lines, `%prec`, `%epp`, `%avoid_insert`, `%implicit_tokens`,
//! `%expect(-rr)`, `%parse-param`, `%actiontype` / `-> Type`, actions with nested braces, `%empty`,
//! programs section; a renderer with random layout that records where every defining piece of text
//! was put; and the text-layer oracle: the `GrammarAST` a faithful parser must produce (`OAst`).
//!
//! Restrictions of the generator (documented in the evidence): string literals and comments
//! inside action code never contain braces (the action scanner counts braces textually, as Yacc does);
//! `%parse-param`/`%actiontype` types run to the end of the line, so nothing follows them on that line;
//! a rule never has the name of a token declared with `%token`.
use crate::rng::Rng;

#[derive(Clone, Copy, Debug, PartialEq)]
pub enum YKind {
    /// 0 GenericParseTree, 1 NoAction, 2 UserAction
    Orig(u8),
    Grmtools,
    Eco,
}

#[derive(Clone, Debug, PartialEq)]
pub enum YS {
    T(usize),
    R(usize),
}

#[derive(Clone, Debug)]
pub struct YAction {
    pub lpad: String,
    pub core: String,
    pub rpad: String,
}

#[derive(Clone, Debug)]
pub struct YProd {
    pub syms: Vec<YS>,
    /// `%prec` token and the number of symbols rendered before it
    pub prec: Option<(usize, usize)>,
    pub action: Option<YAction>,
    /// render `%empty` (only when `syms` is empty)
    pub empty_kw: bool,
}

#[derive(Clone, Debug)]
pub struct YChunk {
    pub rule: usize,
    pub prods: Vec<YProd>,
}

#[derive(Clone, Debug)]
pub enum YDecl {
    Start(usize),
    Token(Vec<usize>),
    Prec(u8, Vec<usize>),
    Epp(usize, String),
    Avoid(Vec<usize>),
    Implicit(Vec<usize>),
    Expect(usize),
    ExpectRR(usize),
    ParseParam(String, String),
    ActionType(String),
}

#[derive(Clone, Debug)]
pub struct YGrammar {
    pub kind: YKind,
    pub rules: Vec<String>,
    /// Grmtools: `-> Type` of every rule
    pub rule_types: Vec<Option<String>>,
    pub toks: Vec<String>,
    /// declared with `%token` (may then be written as a bare name inside rules)
    pub declared: Vec<bool>,
    pub decls: Vec<YDecl>,
    pub chunks: Vec<YChunk>,
    pub programs: Option<String>,
}

pub type Sp = (usize, usize);

#[derive(Clone, Debug, PartialEq)]
pub struct OProd {
    /// (is_token, name, span)
    pub syms: Vec<(bool, String, Sp)>,
    pub prec: Option<String>,
    pub action: Option<(String, Sp)>,
    pub span: Sp,
    /// end of the last item that is not the action (the defining text is `span.0 .. def_end`)
    pub def_end: usize,
}

#[derive(Clone, Debug, PartialEq)]
pub struct ORule {
    pub name: String,
    pub span: Sp,
    pub pidxs: Vec<usize>,
    pub actiont: Option<String>,
}

/// what the parser must have built from the text (the generator is the oracle of the text layer)
#[derive(Clone, Debug, Default)]
pub struct OAst {
    pub start: Option<(String, Sp)>,
    pub rules: Vec<ORule>,
    pub prods: Vec<OProd>,
    pub tokens: Vec<(String, Sp)>,
    /// (token, level, kind 0 left / 1 right / 2 nonassoc)
    pub precs: Vec<(String, u64, u8)>,
    pub avoid: Option<Vec<String>>,
    pub implicit: Option<Vec<String>>,
    pub epp: Vec<(String, String)>,
    pub expect: Option<usize>,
    pub expectrr: Option<usize>,
    pub parse_param: Option<(String, String)>,
    pub programs: Option<String>,
}

fn is_ident(s: &str) -> bool {
    let mut cs = s.chars();
    match cs.next() {
        Some(c) if c.is_ascii_alphabetic() || c == '_' => cs.all(|c| c.is_ascii_alphanumeric() || c == '_'),
        _ => false,
    }
}

fn is_word(c: char) -> bool {
    c.is_ascii_alphanumeric() || c == '_' || c == '.'
}

#[derive(Clone, Copy, PartialEq)]
enum Gap {
    /// blanks, line ends, `//` and `/* */` comments
    Any,
    /// blanks and one-line `/* */` comments (places where the parser refuses a newline)
    Inline,
    /// blanks only (places where anything else would become part of a name or type)
    Blank,
    /// `Inline` then something that ends the line, then `Any` (end of a newline-terminated token list)
    Eol,
}

pub struct Renderer<'a> {
    pub text: String,
    rng: &'a mut Rng,
    /// 0 plain, 1 moderate, 2 wild
    level: u8,
    pub ncomments: usize,
    pub nl_slash: usize,
}

const COMMENT_BITS: &[&str] = &[
    "x", " ", "foo", "'", "\"", "{", "}", "%%", "//", "/", "*", "\u{e9}", "\u{2764}", "%token", ";", "|", ":", "/*", "A", "'a'",
];

impl<'a> Renderer<'a> {
    pub fn new(rng: &'a mut Rng, level: u8) -> Self {
        Renderer { text: String::new(), rng, level, ncomments: 0, nl_slash: 0 }
    }

    fn eol(&mut self) -> &'static str {
        if self.level == 0 {
            "\n"
        } else {
            *self.rng.pick(&["\n", "\n", "\r\n", "\r"])
        }
    }

    fn body(&mut self, multiline: bool) -> String {
        let n = self.rng.range(0, 5);
        let mut s = String::new();
        for _ in 0..n {
            if multiline && self.rng.chance(1, 4) {
                let e = self.eol();
                s.push_str(e);
                if self.rng.chance(1, 2) {
                    // a line of the comment that starts with '/': once read as the end of the comment
                    s.push('/');
                    self.nl_slash += 1;
                }
            } else {
                let b = *self.rng.pick(COMMENT_BITS);
                s.push_str(b);
            }
        }
        s
    }

    fn block_comment(&mut self, multiline: bool) -> String {
        let mut b = self.body(multiline);
        while b.contains("*/") {
            b = b.replace("*/", "* /");
        }
        self.ncomments += 1;
        format!("/*{}*/", b)
    }

    fn line_comment(&mut self) -> String {
        let b = self.body(false);
        self.ncomments += 1;
        format!("//{}{}", b, self.eol())
    }

    fn piece(&mut self, g: Gap) -> String {
        match g {
            Gap::Blank => self.rng.pick(&[" ", "\t", "  "]).to_string(),
            Gap::Inline => {
                if self.level > 0 && self.rng.chance(1, 3) {
                    self.block_comment(false)
                } else {
                    self.rng.pick(&[" ", "\t", "  "]).to_string()
                }
            }
            _ => {
                if self.level == 0 {
                    return self.rng.pick(&[" ", "\n"]).to_string();
                }
                match self.rng.below(if self.level == 2 { 8 } else { 12 }) {
                    0 => self.line_comment(),
                    1 => self.block_comment(true),
                    2 => self.block_comment(false),
                    3 => self.eol().to_string(),
                    4 => "\t".to_string(),
                    5 => self.eol().to_string(),
                    _ => " ".to_string(),
                }
            }
        }
    }

    /// layout between two lexical items; `sep`: the items would fuse without it
    fn gap(&mut self, g: Gap, sep: bool) {
        let mut s = String::new();
        if g == Gap::Eol {
            let k = self.rng.below(2);
            for _ in 0..k {
                let p = self.piece(Gap::Inline);
                s.push_str(&p);
            }
            let t = if self.level == 0 { 0 } else { self.rng.below(4) };
            match t {
                1 => {
                    let c = self.line_comment();
                    s.push_str(&c);
                }
                2 => {
                    // a block comment that contains a line end also ends the list
                    let e = self.eol();
                    let c = self.block_comment(false);
                    s.push_str(&format!("{}{}*/", &c[..c.len() - 2], e));
                }
                _ => {
                    let e = self.eol();
                    s.push_str(e);
                }
            }
            let k = self.rng.below(2);
            for _ in 0..k {
                let p = self.piece(Gap::Any);
                s.push_str(&p);
            }
        } else {
            let maxk = match self.level {
                0 => 1,
                1 => 2,
                _ => 3,
            };
            let k = self.rng.range(if self.level == 0 && g != Gap::Blank { 1 } else { 0 }, maxk);
            for _ in 0..k {
                let p = self.piece(g);
                s.push_str(&p);
            }
        }
        if sep && s.is_empty() {
            s.push(' ');
        }
        self.text.push_str(&s);
    }

    /// gap that is only required when the next item starts with a word character
    fn gap_before(&mut self, g: Gap, next: &str) {
        let sep = self.text.chars().last().map_or(false, is_word) && next.chars().next().map_or(false, is_word);
        self.gap(g, sep);
    }

    fn emit(&mut self, s: &str) -> Sp {
        let st = self.text.len();
        self.text.push_str(s);
        (st, self.text.len())
    }

    /// one token occurrence; returns (span of the whole item, span of the name)
    fn token(&mut self, name: &str, bare_ok: bool) -> (Sp, Sp) {
        let mut styles = Vec::new();
        if !name.contains('\'') {
            styles.push(0);
        }
        if !name.contains('"') {
            styles.push(1);
        }
        if bare_ok && is_ident(name) {
            styles.push(2);
            styles.push(2);
        }
        let st = *self.rng.pick(&styles);
        match st {
            0 => {
                let (a, b) = self.emit(&format!("'{}'", name));
                ((a, b), (a + 1, b - 1))
            }
            1 => {
                let (a, b) = self.emit(&format!("\"{}\"", name));
                ((a, b), (a + 1, b - 1))
            }
            _ => {
                let sp = self.emit(name);
                (sp, sp)
            }
        }
    }

    fn token_sep(&mut self, g: Gap, name: &str, bare_ok: bool) -> (Sp, Sp) {
        // decide on separation pessimistically: a bare rendering may be chosen
        let sep = self.text.chars().last().map_or(false, is_word) && bare_ok && is_ident(name);
        self.gap(g, sep);
        self.token(name, bare_ok)
    }
}

fn add_tok(o: &mut OAst, name: &str, sp: Sp) {
    if !o.tokens.iter().any(|(n, _)| n == name) {
        o.tokens.push((name.to_string(), sp));
    }
}

fn render_epp_string(rng: &mut Rng, v: &str) -> String {
    let q = if rng.chance(1, 2) { '\'' } else { '"' };
    let mut s = String::new();
    s.push(q);
    for c in v.chars() {
        if c == q || ((c == '\'' || c == '"') && rng.chance(1, 3)) {
            s.push('\\');
        }
        s.push(c);
    }
    s.push(q);
    s
}

impl YGrammar {
    /// the text of one rendering and the AST a faithful parser must build from it
    pub fn render(&self, rng: &mut Rng, level: u8) -> (String, OAst, usize, usize) {
        let mut o = OAst::default();
        let mut r = Renderer::new(rng, level);
        r.gap(Gap::Any, false);
        let mut level_no = 0u64;
        let mut global_at: Option<String> = None;
        for d in &self.decls {
            match d {
                YDecl::Start(ru) => {
                    r.emit("%start");
                    r.gap(Gap::Inline, true);
                    let sp = r.emit(&self.rules[*ru]);
                    o.start = Some((self.rules[*ru].clone(), sp));
                    r.gap(Gap::Any, false);
                }
                YDecl::Token(ts) => {
                    r.emit("%token");
                    for (i, t) in ts.iter().enumerate() {
                        let (_, nsp) = r.token_sep(if i == 0 { Gap::Inline } else { Gap::Any }, &self.toks[*t], true);
                        add_tok(&mut o, &self.toks[*t], nsp);
                    }
                    r.gap(Gap::Any, false);
                }
                YDecl::Prec(k, ts) => {
                    r.emit(["%left", "%right", "%nonassoc"][*k as usize]);
                    for t in ts {
                        r.token_sep(Gap::Inline, &self.toks[*t], true);
                        o.precs.push((self.toks[*t].clone(), level_no, *k));
                    }
                    level_no += 1;
                    r.gap(Gap::Eol, false);
                }
                YDecl::Epp(t, v) => {
                    r.emit("%epp");
                    r.token_sep(Gap::Inline, &self.toks[*t], true);
                    r.gap(Gap::Inline, false);
                    let s = render_epp_string(r.rng, v);
                    r.emit(&s);
                    o.epp.push((self.toks[*t].clone(), v.clone()));
                    r.gap(Gap::Any, false);
                }
                YDecl::Avoid(ts) | YDecl::Implicit(ts) => {
                    let imp = matches!(d, YDecl::Implicit(_));
                    r.emit(if imp { "%implicit_tokens" } else { "%avoid_insert" });
                    for t in ts {
                        let (_, nsp) = r.token_sep(Gap::Inline, &self.toks[*t], true);
                        add_tok(&mut o, &self.toks[*t], nsp);
                        let set = if imp { &mut o.implicit } else { &mut o.avoid };
                        set.get_or_insert_with(Vec::new).push(self.toks[*t].clone());
                    }
                    r.gap(Gap::Eol, false);
                }
                YDecl::Expect(n) | YDecl::ExpectRR(n) => {
                    let rr = matches!(d, YDecl::ExpectRR(_));
                    r.emit(if rr { "%expect-rr" } else { "%expect" });
                    r.gap(Gap::Inline, false);
                    r.emit(&n.to_string());
                    if rr {
                        o.expectrr = Some(*n);
                    } else {
                        o.expect = Some(*n);
                    }
                    r.gap(Gap::Any, false);
                }
                YDecl::ParseParam(n, ty) => {
                    r.emit("%parse-param");
                    r.gap(Gap::Inline, true);
                    r.emit(n);
                    r.gap(Gap::Blank, false);
                    r.emit(":");
                    r.gap(Gap::Inline, false);
                    r.emit(ty);
                    let e = r.eol();
                    r.emit(e);
                    o.parse_param = Some((n.clone(), ty.clone()));
                    r.gap(Gap::Any, false);
                }
                YDecl::ActionType(ty) => {
                    r.emit("%actiontype");
                    r.gap(Gap::Inline, true);
                    r.emit(ty);
                    let e = r.eol();
                    r.emit(e);
                    global_at = Some(ty.clone());
                    r.gap(Gap::Any, false);
                }
            }
        }
        r.emit("%%");
        r.gap(Gap::Any, false);
        for ch in &self.chunks {
            let name = &self.rules[ch.rule];
            let nsp = r.emit(name);
            if o.start.is_none() {
                o.start = Some((name.clone(), nsp));
            }
            if self.kind == YKind::Grmtools {
                r.gap(Gap::Any, false);
                r.emit("->");
                r.gap(Gap::Any, false);
                r.emit(self.rule_types[ch.rule].as_deref().unwrap_or("()"));
                r.gap(Gap::Blank, false);
            } else {
                r.gap(Gap::Any, false);
            }
            if !o.rules.iter().any(|x| &x.name == name) {
                let actiont = match self.kind {
                    YKind::Grmtools => Some(self.rule_types[ch.rule].clone().unwrap_or_else(|| "()".to_string())),
                    YKind::Orig(_) => global_at.clone(),
                    YKind::Eco => None,
                };
                o.rules.push(ORule { name: name.clone(), span: nsp, pidxs: vec![], actiont });
            }
            r.emit(":");
            for (pi, p) in ch.prods.iter().enumerate() {
                if pi > 0 {
                    r.emit("|");
                }
                r.gap(Gap::Any, false);
                let _ = pi;
                let mut op = OProd { syms: vec![], prec: None, action: None, span: (0, 0), def_end: 0 };
                let mut first: Option<usize> = None;
                let mut last_end: Option<usize> = None;
                if p.syms.is_empty() && p.empty_kw {
                    let sp = r.emit("%empty");
                    first = Some(sp.0);
                    last_end = Some(sp.1);
                }
                for k in 0..=p.syms.len() {
                    if let Some((t, pos)) = p.prec {
                        if pos.min(p.syms.len()) == k {
                            r.gap_before(Gap::Any, "x");
                            let sp = r.emit("%prec");
                            first.get_or_insert(sp.0);
                            let (isp, nsp) = r.token_sep(Gap::Any, &self.toks[t], true);
                            add_tok(&mut o, &self.toks[t], nsp);
                            op.prec = Some(self.toks[t].clone());
                            last_end = Some(isp.1);
                        }
                    }
                    if k == p.syms.len() {
                        break;
                    }
                    r.gap_before(Gap::Any, "x");
                    match &p.syms[k] {
                        YS::T(t) => {
                            let (isp, nsp) = r.token(&self.toks[*t], self.declared[*t]);
                            first.get_or_insert(isp.0);
                            last_end = Some(isp.1);
                            add_tok(&mut o, &self.toks[*t], nsp);
                            op.syms.push((true, self.toks[*t].clone(), nsp));
                        }
                        YS::R(ru) => {
                            let sp = r.emit(&self.rules[*ru]);
                            first.get_or_insert(sp.0);
                            last_end = Some(sp.1);
                            op.syms.push((false, self.rules[*ru].clone(), sp));
                        }
                    }
                }
                r.gap(Gap::Any, false);
                let mut brace: Option<usize> = None;
                if let Some(a) = &p.action {
                    let sp = r.emit("{");
                    brace = Some(sp.0);
                    r.emit(&a.lpad);
                    let asp = r.emit(&a.core);
                    r.emit(&a.rpad);
                    r.emit("}");
                    op.action = Some((a.core.clone(), asp));
                    r.gap(Gap::Any, false);
                }
                let here = r.text.len();
                let start = first.or(brace).unwrap_or(here);
                // the production's span runs to where its action starts (or to the end of its last item)
                let end = brace.or(last_end).unwrap_or(here);
                op.span = (start, end);
                op.def_end = last_end.unwrap_or(start);
                let pidx = o.prods.len();
                o.prods.push(op);
                o.rules.iter_mut().find(|x| &x.name == name).unwrap().pidxs.push(pidx);
            }
            r.emit(";");
            r.gap(Gap::Any, false);
        }
        if let Some(pr) = &self.programs {
            r.emit("%%");
            r.gap(Gap::Any, false);
            r.emit(pr);
            o.programs = Some(pr.clone());
        }
        let (nc, ns) = (r.ncomments, r.nl_slash);
        (r.text, o, nc, ns)
    }

    pub fn describe(&self) -> String {
        let mut rng = Rng::new(0);
        let (t, _, _, _) = self.render(&mut rng, 0);
        format!("{:?} {}", self.kind, t.replace('\n', " ").replace('\r', " "))
    }
}

const RULE_NAMES: &[&str] = &["S", "Expr", "Term", "stmt_list", "_x", "A1", "B", "C", "id", "Z9_", "a.b", ".c"];
const TOK_NAMES: &[&str] = &[
    "a", "b", "id", "INT", "PLUS", "c_d", "+", "*", "(", ")", "\u{e9}", "a b", "\"", "'", "/", "//", "/*", "{", "}", "%", "|", ";", ":",
    "==", "\u{2764}x", "%%", "->", "don't", "x\"", "\"y", "a'b",
];
const TYPES: &[&str] = &["u64", "Result<u64, ()>", "std::vec::Vec<u8>", "(u64, T<'a>)", "Option<crate::X>", "()", "Vec<\u{e9}>"];
const ACTION_BITS: &[&str] = &[
    "$$ = $1;", "Ok($1)", "x + 1", "\"s\"", "'c'", "match a { _ => {} }", "if x { y } else { z }", "let \u{e9} = 1;", "\n", "  ", "{}",
    "{ { } }", "$2", "/* c */", "\r\n", "|", ";", "%%", "'\"'", "b'\"' as u32",
];
const EPP_BITS: &[&str] = &["a", " ", "'", "\"", "\u{e9}", "+", "plus", "{", "//", "/*"];

fn shuffle<T>(rng: &mut Rng, v: &mut [T]) {
    for i in (1..v.len()).rev() {
        let j = rng.below(i + 1);
        v.swap(i, j);
    }
}

fn pick_distinct(rng: &mut Rng, pool: &[&str], n: usize) -> Vec<String> {
    let mut v: Vec<String> = pool.iter().map(|s| s.to_string()).collect();
    shuffle(rng, &mut v);
    v.truncate(n);
    v
}

pub fn random_ygrammar(rng: &mut Rng) -> YGrammar {
    let kind = match rng.below(6) {
        0 | 1 => YKind::Orig(rng.below(3) as u8),
        2 | 3 => YKind::Grmtools,
        _ => YKind::Eco,
    };
    let nrules = rng.range(1, 4);
    let ntoks = rng.range(1, 6);
    let rules = pick_distinct(rng, RULE_NAMES, nrules);
    let toks = pick_distinct(rng, TOK_NAMES, ntoks);
    let mut declared: Vec<bool> = toks.iter().map(|t| !rules.contains(t) && rng.chance(1, 3)).collect();
    let rule_types: Vec<Option<String>> =
        (0..nrules).map(|_| if kind == YKind::Grmtools { Some(rng.pick(TYPES).to_string()) } else { None }).collect();
    // precedence lines over a random subset of the tokens
    let mut precs: Vec<(u8, Vec<usize>)> = Vec::new();
    if rng.chance(2, 3) {
        let mut ts: Vec<usize> = (0..ntoks).collect();
        shuffle(rng, &mut ts);
        ts.truncate(rng.range(1, ntoks));
        let lines = rng.range(1, ts.len().min(3));
        let mut it = ts.into_iter().peekable();
        for l in 0..lines {
            let mut line = vec![it.next().unwrap()];
            while it.peek().is_some() && (l == lines - 1 || rng.chance(1, 3)) {
                line.push(it.next().unwrap());
            }
            precs.push((rng.below(3) as u8, line));
            if it.peek().is_none() {
                break;
            }
        }
    }
    let with_prec: Vec<usize> = precs.iter().flat_map(|(_, l)| l.clone()).collect();
    // rule bodies, split into chunks
    let p_tok = *rng.pick(&[40usize, 60, 80]);
    let p_act = *rng.pick(&[0usize, 30, 70, 100]);
    let mut chunks: Vec<YChunk> = Vec::new();
    for ru in 0..nrules {
        let nchunks = if rng.chance(1, 3) { 2 } else { 1 };
        for _ in 0..nchunks {
            let np = rng.range(1, 3);
            let mut prods = Vec::new();
            for _ in 0..np {
                let len = if rng.chance(1, 5) { 0 } else { rng.range(1, 4) };
                let syms: Vec<YS> =
                    (0..len).map(|_| if rng.chance(p_tok, 100) { YS::T(rng.below(ntoks)) } else { YS::R(rng.below(nrules)) }).collect();
                let prec = if !with_prec.is_empty() && rng.chance(1, 5) {
                    Some((*rng.pick(&with_prec), if rng.chance(2, 3) { len } else { rng.range(0, len) }))
                } else {
                    None
                };
                let action = if rng.chance(p_act, 100) {
                    let n = rng.range(0, 4);
                    let mut core = String::new();
                    for i in 0..n {
                        if i > 0 {
                            core.push(' ');
                        }
                        core.push_str(*rng.pick(ACTION_BITS));
                    }
                    let core = core.trim().to_string();
                    let pads = ["", " ", "\n  ", "\t", " \r\n "];
                    let rpad = if core.is_empty() { String::new() } else { rng.pick(&pads).to_string() };
                    Some(YAction { lpad: rng.pick(&pads).to_string(), core, rpad })
                } else {
                    None
                };
                let empty_kw = len == 0 && rng.chance(1, 2);
                // `%empty` first, then `%prec`
                let prec = if empty_kw { prec.map(|(t, _)| (t, 0)) } else { prec };
                prods.push(YProd { syms, prec, action, empty_kw });
            }
            chunks.push(YChunk { rule: ru, prods });
        }
    }
    if rng.chance(2, 3) {
        shuffle(rng, &mut chunks);
    }
    // which tokens exist (are inserted into the token set by some construct)
    let mut live = vec![false; ntoks];
    for c in &chunks {
        for p in &c.prods {
            for s in &p.syms {
                if let YS::T(t) = s {
                    live[*t] = true;
                }
            }
            if let Some((t, _)) = p.prec {
                live[t] = true;
            }
        }
    }
    let mut decls: Vec<YDecl> = Vec::new();
    let mut avoid: Vec<usize> = Vec::new();
    if rng.chance(1, 3) {
        avoid = (0..ntoks).filter(|_| rng.chance(1, 2)).collect();
    }
    let mut implicit: Vec<usize> = Vec::new();
    if kind == YKind::Eco && rng.chance(2, 3) {
        implicit = (0..ntoks).filter(|_| rng.chance(1, 3)).collect();
        if implicit.is_empty() {
            implicit.push(rng.below(ntoks));
        }
    }
    for t in avoid.iter().chain(implicit.iter()) {
        live[*t] = true;
    }
    // a token that nothing else introduces and that has no precedence either must be declared
    for t in 0..ntoks {
        if !live[t] && !with_prec.contains(&t) && !rules.contains(&toks[t]) {
            declared[t] = true;
        }
        if declared[t] {
            live[t] = true;
        }
    }
    let dts: Vec<usize> = (0..ntoks).filter(|t| declared[*t]).collect();
    if !dts.is_empty() {
        if dts.len() > 1 && rng.chance(1, 3) {
            let k = rng.range(1, dts.len() - 1);
            decls.push(YDecl::Token(dts[..k].to_vec()));
            decls.push(YDecl::Token(dts[k..].to_vec()));
        } else {
            decls.push(YDecl::Token(dts));
        }
    }
    if !avoid.is_empty() {
        if avoid.len() > 1 && rng.chance(1, 3) {
            let k = rng.range(1, avoid.len() - 1);
            decls.push(YDecl::Avoid(avoid[..k].to_vec()));
            decls.push(YDecl::Avoid(avoid[k..].to_vec()));
        } else {
            decls.push(YDecl::Avoid(avoid));
        }
    }
    if !implicit.is_empty() {
        decls.push(YDecl::Implicit(implicit));
    }
    for t in 0..ntoks {
        if live[t] && rng.chance(1, 4) {
            let n = rng.range(0, 3);
            let mut v = String::new();
            for _ in 0..n {
                v.push_str(*rng.pick(EPP_BITS));
            }
            decls.push(YDecl::Epp(t, v));
        }
    }
    if rng.chance(1, 2) {
        decls.push(YDecl::Start(rng.below(nrules)));
    }
    if rng.chance(1, 3) {
        decls.push(YDecl::Expect(*rng.pick(&[0usize, 1, 2, 17, 4096])));
    }
    if rng.chance(1, 4) {
        decls.push(YDecl::ExpectRR(*rng.pick(&[0usize, 1, 3, 255])));
    }
    if rng.chance(1, 3) {
        decls.push(YDecl::ParseParam(rng.pick(&["p", "state", "_ctx"]).to_string(), rng.pick(TYPES).to_string()));
    }
    if matches!(kind, YKind::Orig(_)) && rng.chance(1, 2) {
        decls.push(YDecl::ActionType(rng.pick(TYPES).to_string()));
    }
    shuffle(rng, &mut decls);
    // precedence lines keep their relative order (it defines the levels) but go anywhere
    for (k, l) in precs {
        let at = rng.range(0, decls.len());
        // keep earlier precedence lines before later ones
        let min_at = decls.iter().rposition(|d| matches!(d, YDecl::Prec(..))).map_or(0, |i| i + 1);
        decls.insert(at.max(min_at), YDecl::Prec(k, l));
    }
    let programs = match rng.below(4) {
        0 => Some(String::new()),
        1 => Some(rng.pick(&["fn f() {}\n", "x", "%% more \u{e9}\n// c\n", "use a::b;\r\n"]).to_string()),
        _ => None,
    };
    YGrammar { kind, rules, rule_types, toks, declared, decls, chunks, programs }
}
