//! Inputs for parser properties: sentences sampled from the grammar by a depth-bounded random
//! derivation, mutations of them, and all short strings.
use crate::rng::Rng;
use cfgrammar::yacc::YaccGrammar;
use cfgrammar::{RIdx, Symbol, TIdx};

pub struct Sampler<'a> {
    g: &'a YaccGrammar<u32>,
    /// minimal sentence length per rule (u16::MAX = derives nothing)
    minlen: Vec<u16>,
}

impl<'a> Sampler<'a> {
    pub fn new(g: &'a YaccGrammar<u32>) -> Self {
        let sg = g.sentence_generator(|_| 1);
        let minlen = g.iter_rules().map(|r| sg.min_sentence_cost(r)).collect();
        Sampler { g, minlen }
    }

    pub fn productive(&self, r: RIdx<u32>) -> bool {
        self.minlen[usize::from(r)] != u16::MAX
    }

    fn prod_min(&self, p: cfgrammar::PIdx<u32>) -> u32 {
        self.g.prod(p).iter().map(|s| match s {
            Symbol::Token(_) => 1u32,
            Symbol::Rule(r) => self.minlen[usize::from(*r)] as u32,
        }).sum()
    }

    /// a random sentence of the start rule (None if it derives nothing or the length cap is hit)
    pub fn sample(&self, rng: &mut Rng, max_len: usize, max_depth: usize) -> Option<Vec<u32>> {
        let start = self.g.start_rule_idx();
        if !self.productive(start) {
            return None;
        }
        let mut out = Vec::new();
        // stack of (symbol, depth)
        let mut st: Vec<(Symbol<u32>, usize)> = vec![(Symbol::Rule(start), 0)];
        let mut steps = 0;
        while let Some((sym, d)) = st.pop() {
            steps += 1;
            if steps > 2000 || out.len() > max_len {
                return None;
            }
            match sym {
                Symbol::Token(t) => out.push(u32::from(t)),
                Symbol::Rule(r) => {
                    let prods: Vec<_> = self.g.rule_to_prods(r).iter().copied().filter(|p| self.prod_min(*p) < u16::MAX as u32).collect();
                    if prods.is_empty() {
                        return None;
                    }
                    let p = if d >= max_depth {
                        // ground out: a production of minimal length whose rules are all strictly "smaller"
                        let m = prods.iter().map(|p| self.prod_min(*p)).min().unwrap();
                        let c: Vec<_> = prods.iter().copied().filter(|p| self.prod_min(*p) == m).collect();
                        *rng.pick(&c)
                    } else {
                        *rng.pick(&prods)
                    };
                    for s in self.g.prod(p).iter().rev() {
                        st.push((*s, d + 1));
                    }
                }
            }
        }
        Some(out)
    }
}

pub fn mutate(rng: &mut Rng, w: &[u32], ntoks: usize) -> Vec<u32> {
    let mut v = w.to_vec();
    if ntoks == 0 {
        return v;
    }
    let n = rng.range(1, 3);
    for _ in 0..n {
        match rng.below(3) {
            0 if !v.is_empty() => {
                let i = rng.below(v.len());
                v.remove(i);
            }
            1 => {
                let i = rng.below(v.len() + 1);
                v.insert(i, rng.below(ntoks) as u32);
            }
            _ if !v.is_empty() => {
                let i = rng.below(v.len());
                v[i] = rng.below(ntoks) as u32;
            }
            _ => v.push(rng.below(ntoks) as u32),
        }
    }
    v
}

/// all strings over `0..ntoks` of length `<= k`
pub fn all_strings(ntoks: usize, k: usize) -> Vec<Vec<u32>> {
    let mut out = vec![vec![]];
    let mut cur: Vec<Vec<u32>> = vec![vec![]];
    for _ in 0..k {
        let mut next = Vec::new();
        for w in &cur {
            for t in 0..ntoks {
                let mut x = w.clone();
                x.push(t as u32);
                next.push(x);
            }
        }
        out.extend(next.iter().cloned());
        cur = next;
    }
    out
}

/// the inputs one grammar is exercised with: short strings exhaustively, sampled sentences, mutants
pub fn inputs_for(g: &YaccGrammar<u32>, rng: &mut Rng, thorough: bool) -> Vec<Vec<u32>> {
    let real = usize::from(g.tokens_len()) - 1; // EOF is last and never an input token
    let k = if real <= 2 { if thorough { 5 } else { 4 } } else if real <= 3 { if thorough { 4 } else { 3 } } else { 2 };
    let mut v = all_strings(real, k);
    let sm = Sampler::new(g);
    let n = if thorough { 30 } else { 12 };
    for i in 0..n {
        if let Some(s) = sm.sample(rng, 14, 2 + i % 5) {
            if rng.chance(1, 2) {
                v.push(mutate(rng, &s, real));
            }
            v.push(s);
        }
    }
    v.sort();
    v.dedup();
    let _: Option<TIdx<u32>> = None;
    v
}
