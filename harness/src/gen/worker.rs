//! A killable worker process for calls into grmtools that may not return (the LR loop and the
//! recovery loop have no bound of their own): the parent keeps one `vharness --worker` child, sends it
//! one job per line and waits with a deadline; a job that does not answer in time kills the child
//! (reported as a hang) and the next job starts a fresh one.
use crate::gen::grammar;
use crate::gen::parse::{parse_actions, ParseOut, PTree, STRIDE};
use crate::out::guarded;
use cfgrammar::TIdx;
use lrpar::RecoveryKind;
use lrtable::{from_yacc, Minimiser};
use std::io::{BufRead, BufReader, Write};
use std::process::{Child, ChildStdin, Command, Stdio};
use std::sync::mpsc::{channel, Receiver};
use std::time::Duration;

pub fn esc(s: &str) -> String {
    s.replace('\\', "\\\\").replace('\n', "\\n").replace('\t', "\\t")
}
pub fn unesc(s: &str) -> String {
    let mut o = String::new();
    let mut it = s.chars();
    while let Some(c) = it.next() {
        if c == '\\' {
            match it.next() {
                Some('n') => o.push('\n'),
                Some('t') => o.push('\t'),
                Some(x) => o.push(x),
                None => {}
            }
        } else {
            o.push(c)
        }
    }
    o
}

pub fn arg_text_pub(t: &PTree) -> String {
    arg_text(t)
}

fn arg_text(t: &PTree) -> String {
    match t {
        PTree::Leaf(tok, st, _, false) => format!("L{}:{}", tok, st / STRIDE),
        PTree::Leaf(tok, st, _, true) => format!("F{}:{}", tok, st),
        PTree::Node(p, _) => format!("N{}", p),
    }
}

/// `tree \t errors \t log \t wall_ms`:
/// errors = `laidx,state,seq|seq…;…` with seq = `I3.D4.S5`; log = `p,r,start,end,param,arg.arg…;…`
pub fn out_text(po: &ParseOut, ntoks_in_input: usize) -> String {
    let tree = po.tree.as_ref().map(|t| t.to_text()).unwrap_or_else(|| "-".to_string());
    let errs: Vec<String> = po
        .errors
        .iter()
        .map(|e| {
            let seqs: Vec<String> = e.repairs.iter().map(|s| if s.is_empty() { "_".to_string() } else { s.join(".") }).collect();
            format!("{},{},{},{}", e.laidx(ntoks_in_input), e.state, e.lexeme.0, seqs.join("|"))
        })
        .collect();
    let log: Vec<String> = po
        .log
        .iter()
        .map(|c| {
            let args: Vec<String> = c.args.iter().map(arg_text).collect();
            format!("{},{},{},{},{},{}", c.pidx, c.ridx, c.span.0, c.span.1, c.param, args.join("."))
        })
        .collect();
    format!("{}\t{}\t{}\t{}", tree, errs.join(";"), log.join(";"), po.wall_ms)
}

#[derive(Clone, Debug, Default)]
pub struct WErr {
    pub laidx: usize,
    pub state: usize,
    pub lexeme_start: usize,
    pub repairs: Vec<Vec<String>>,
}

#[derive(Clone, Debug, Default)]
pub struct WOut {
    pub tree: Option<String>,
    pub errors: Vec<WErr>,
    /// (pidx, ridx, span start, span end, param, args)
    pub log: Vec<(usize, usize, usize, usize, u32, Vec<String>)>,
    pub wall_ms: u128,
}

pub fn parse_out_text(s: &str) -> Option<WOut> {
    let f: Vec<&str> = s.split('\t').collect();
    if f.len() < 4 {
        return None;
    }
    let tree = if f[0] == "-" { None } else { Some(f[0].to_string()) };
    let mut errors = Vec::new();
    for e in f[1].split(';').filter(|x| !x.is_empty()) {
        let p: Vec<&str> = e.splitn(4, ',').collect();
        let repairs = if p.len() < 4 || p[3].is_empty() {
            vec![]
        } else {
            p[3].split('|').map(|s| if s == "_" { vec![] } else { s.split('.').map(|x| x.to_string()).collect() }).collect()
        };
        errors.push(WErr { laidx: p[0].parse().ok()?, state: p[1].parse().ok()?, lexeme_start: p[2].parse().ok()?, repairs });
    }
    let mut log = Vec::new();
    for c in f[2].split(';').filter(|x| !x.is_empty()) {
        let p: Vec<&str> = c.splitn(6, ',').collect();
        let args = if p.len() < 6 || p[5].is_empty() { vec![] } else { p[5].split('.').map(|x| x.to_string()).collect() };
        log.push((p[0].parse().ok()?, p[1].parse().ok()?, p[2].parse().ok()?, p[3].parse().ok()?, p[4].parse().ok()?, args));
    }
    Some(WOut { tree, errors, log, wall_ms: f[3].parse().ok()? })
}

/// the child side: `P \t rk \t costs|- \t grammar \t toks`
pub fn worker_main() {
    let stdin = std::io::stdin();
    let out = std::io::stdout();
    let mut cached: Option<(String, cfgrammar::yacc::YaccGrammar<u32>, lrtable::StateTable<u32>)> = None;
    for line in stdin.lock().lines() {
        let line = match line {
            Ok(l) => l,
            Err(_) => break,
        };
        let f: Vec<&str> = line.split('\t').collect();
        if f.len() < 5 || f[0] != "P" {
            writeln!(out.lock(), "BAD").unwrap();
            out.lock().flush().unwrap();
            continue;
        }
        let text = unesc(f[3]);
        if cached.as_ref().map(|c| c.0 != text).unwrap_or(true) {
            cached = grammar::build(&text).ok().and_then(|g| from_yacc(&g, Minimiser::Pager).ok().map(|(_, st)| (text.clone(), g, st)));
        }
        let (g, st) = match &cached {
            Some((_, g, st)) => (g, st),
            None => {
                writeln!(out.lock(), "NOGRAMMAR").unwrap();
                out.lock().flush().unwrap();
                continue;
            }
        };
        let rk = if f[1] == "cpct" { RecoveryKind::CPCTPlus } else { RecoveryKind::None };
        let costs: Option<Vec<u8>> = if f[2] == "-" { None } else { Some(f[2].split(' ').filter_map(|x| x.parse().ok()).collect()) };
        let toks: Vec<u32> = f[4].split(' ').filter_map(|x| x.parse().ok()).collect();
        let r = guarded(std::panic::AssertUnwindSafe(|| match &costs {
            Some(c) => {
                let cf = |t: TIdx<u32>| *c.get(usize::from(t)).unwrap_or(&1);
                parse_actions(g, st, &toks, rk, Some(&cf))
            }
            None => parse_actions(g, st, &toks, rk, None),
        }));
        match r {
            Ok(po) => writeln!(out.lock(), "OK\t{}", out_text(&po, toks.len())).unwrap(),
            Err(m) => writeln!(out.lock(), "PANIC\t{}", esc(&m)).unwrap(),
        }
        out.lock().flush().unwrap();
    }
}

/// CPU time (user + system) a process has used so far, in milliseconds, from /proc/<pid>/stat.
/// Deadlines of calls that may not return are measured in CPU time of the child, so that a loaded
/// machine (the child not being scheduled) is never mistaken for a hang; a generous wall-clock limit
/// (`WALL_FACTOR` x the CPU limit) remains as a fallback.
pub fn cpu_ms(pid: u32) -> Option<u64> {
    let s = std::fs::read_to_string(format!("/proc/{}/stat", pid)).ok()?;
    let rest = &s[s.rfind(')')? + 1..];
    let f: Vec<&str> = rest.split_whitespace().collect();
    // after the command name: state(0) ppid(1) … utime is field 14 of the line = index 11 here, stime 12
    let ut: u64 = f.get(11)?.parse().ok()?;
    let st: u64 = f.get(12)?.parse().ok()?;
    Some((ut + st) * 10)
}
pub const WALL_FACTOR: u32 = 40;

/// wait for a line from `rx` until the child `pid` has used `cpu_limit` of CPU time since `cpu0` (or
/// `WALL_FACTOR` x that much wall-clock time has passed)
pub fn recv_cpu_deadline<T>(rx: &Receiver<T>, pid: u32, cpu_limit: Duration) -> Result<T, std::sync::mpsc::RecvTimeoutError> {
    let cpu0 = cpu_ms(pid).unwrap_or(0);
    let t0 = std::time::Instant::now();
    loop {
        match rx.recv_timeout(Duration::from_millis(15)) {
            Ok(x) => return Ok(x),
            Err(std::sync::mpsc::RecvTimeoutError::Disconnected) => return Err(std::sync::mpsc::RecvTimeoutError::Disconnected),
            Err(std::sync::mpsc::RecvTimeoutError::Timeout) => {
                let used = cpu_ms(pid).map(|c| c.saturating_sub(cpu0));
                let over_cpu = match used {
                    Some(u) => u as u128 > cpu_limit.as_millis(),
                    None => t0.elapsed() > cpu_limit, // no /proc: fall back to wall-clock time
                };
                if over_cpu || t0.elapsed() > cpu_limit * WALL_FACTOR {
                    return Err(std::sync::mpsc::RecvTimeoutError::Timeout);
                }
            }
        }
    }
}

pub enum WResult {
    Ok(WOut),
    Panic(String),
    Hang,
    NoGrammar,
}

pub struct Worker {
    child: Option<(Child, ChildStdin, Receiver<String>)>,
    pub hangs: u64,
}

impl Worker {
    pub fn new() -> Self {
        Worker { child: None, hangs: 0 }
    }

    fn spawn(&mut self) {
        let exe = std::env::current_exe().unwrap();
        let mut ch = Command::new("sh")
            .arg("-c")
            .arg(format!("ulimit -v 4000000; exec {} WORKER --worker", exe.display()))
            .stdin(Stdio::piped())
            .stdout(Stdio::piped())
            .stderr(Stdio::null())
            .spawn()
            .unwrap();
        let si = ch.stdin.take().unwrap();
        let so = ch.stdout.take().unwrap();
        let (tx, rx) = channel();
        std::thread::spawn(move || {
            let rd = BufReader::new(so);
            for l in rd.lines() {
                match l {
                    Ok(l) => {
                        if tx.send(l).is_err() {
                            break;
                        }
                    }
                    Err(_) => break,
                }
            }
        });
        self.child = Some((ch, si, rx));
    }

    fn kill(&mut self) {
        if let Some((mut ch, _, _)) = self.child.take() {
            let _ = ch.kill();
            let _ = ch.wait();
        }
    }

    pub fn parse(&mut self, text: &str, toks: &[u32], cpct: bool, costs: Option<&[u8]>, deadline: Duration) -> WResult {
        if self.child.is_none() {
            self.spawn();
        }
        let line = format!(
            "P\t{}\t{}\t{}\t{}\n",
            if cpct { "cpct" } else { "none" },
            costs.map(|c| crate::out::join(c)).unwrap_or_else(|| "-".to_string()),
            esc(text),
            crate::out::join(toks)
        );
        let ok = {
            let (_, si, _) = self.child.as_mut().unwrap();
            si.write_all(line.as_bytes()).and_then(|_| si.flush()).is_ok()
        };
        if !ok {
            self.kill();
            return WResult::Hang;
        }
        let got = {
            let (ch, _, rx) = self.child.as_ref().unwrap();
            recv_cpu_deadline(rx, ch.id(), deadline)
        };
        match got {
            Ok(l) => {
                if let Some(rest) = l.strip_prefix("OK\t") {
                    match parse_out_text(rest) {
                        Some(w) => WResult::Ok(w),
                        None => WResult::Panic(format!("unparsable worker answer: {}", l)),
                    }
                } else if let Some(rest) = l.strip_prefix("PANIC\t") {
                    WResult::Panic(unesc(rest))
                } else if l == "NOGRAMMAR" {
                    WResult::NoGrammar
                } else {
                    WResult::Panic(format!("worker said {}", l))
                }
            }
            Err(_) => {
                // no answer in time (or the child died, e.g. allocation failure): a hang / crash
                self.hangs += 1;
                self.kill();
                WResult::Hang
            }
        }
    }
}

impl Drop for Worker {
    fn drop(&mut self) {
        self.kill();
    }
}
