//! Correspondence/validation harness: runs the real grmtools code in-process on generated cases and
//! writes request lines for the Lean driver plus the implementation's answers.
//!   vharness <PROP> --seed N --tier quick|thorough --out DIR [--replay FILE]
mod gen;
mod out;
mod props;
mod rng;

use std::path::PathBuf;

pub struct Args {
    pub seed: u64,
    pub thorough: bool,
    pub out: PathBuf,
    pub replay: Option<PathBuf>,
    pub extra: Vec<String>,
    pub shard: usize,
    pub shards: usize,
}

fn main() {
    let argv: Vec<String> = std::env::args().collect();
    if argv.len() < 2 {
        eprintln!("usage: vharness PROP --seed N --tier T --out DIR");
        std::process::exit(2);
    }
    let prop = argv[1].clone();
    let mut a = Args { seed: 1, thorough: false, out: PathBuf::from("work"), replay: None, extra: vec![], shard: 0, shards: 1 };
    let mut i = 2;
    while i < argv.len() {
        match argv[i].as_str() {
            "--seed" => { a.seed = argv[i + 1].parse().unwrap_or(1); i += 2; }
            "--tier" => { a.thorough = argv[i + 1] == "thorough"; i += 2; }
            "--out" => { a.out = PathBuf::from(&argv[i + 1]); i += 2; }
            "--shard" => { a.shard = argv[i + 1].parse().unwrap_or(0); i += 2; }
            "--shards" => { a.shards = argv[i + 1].parse().unwrap_or(1); i += 2; }
            "--replay" => { a.replay = Some(PathBuf::from(&argv[i + 1])); i += 2; }
            x => { a.extra.push(x.to_string()); i += 1; }
        }
    }
    // panics of the code under test are caught and reported as data; keep stderr quiet
    // (set VERIF_PANIC_TRACE to see where a harness bug panicked)
    if std::env::var("VERIF_PANIC_TRACE").is_err() {
        std::panic::set_hook(Box::new(|_| {}));
    }
    if a.extra.iter().any(|x| x == "--worker") {
        gen::worker::worker_main();
        return;
    }
    match prop.as_str() {
        "C19" => props::c19::run(&a),
        "C17" => props::c17::run(&a),
        "C03" => props::c03::run(&a),
        "C16" => props::c03::run_prop(&a, "C16", 16),
        "C01" => props::c01::run(&a),
        "C02" => props::c02::run(&a),
        "C08" => props::c08::run(&a),
        "C05" => props::c05::run_prop(&a, "C05", 5),
        "C06" => props::c05::run_prop(&a, "C06", 6),
        "C07" => props::c05::run_prop(&a, "C07", 7),
        "C04" => props::c01::run_prop(&a, "C04", 4),
        "C09" => props::c09::run(&a),
        "C11" => props::c11::run(&a),
        "C12" => props::c12::run(&a),
        "C20" => props::c20::run(&a),
        "C18" => props::c18::run(&a),
        "C15" => props::c15::run(&a),
        "C10" => props::c10::run(&a),
        "C13" => props::c13::run(&a),
        "C14" => props::c14::run(&a),
        _ => { eprintln!("unknown property {}", prop); std::process::exit(2); }
    }
}
