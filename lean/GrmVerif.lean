import GrmVerif.Extracted
import GrmVerif.Props.C19
import GrmVerif.Props.C17
import GrmVerif.Drive.C19
import GrmVerif.Drive.C17
