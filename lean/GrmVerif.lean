import GrmVerif.Extracted
import GrmVerif.Props.C09
import GrmVerif.Props.C17
import GrmVerif.Props.C19
import GrmVerif.Drive.C09
import GrmVerif.Drive.C17
import GrmVerif.Drive.C19
