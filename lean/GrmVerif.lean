import GrmVerif.Model.Newline
import GrmVerif.Lemmas.Newline
