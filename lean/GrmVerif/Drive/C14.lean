import GrmVerif.Extracted
import GrmVerif.Model.Codec
import GrmVerif.Drive.Util
/-!
Driver for C14. Request: `cfg width nstates  n b…(grammar bytes)  n b…(table bytes)` (cfg 0 = fixed,
1 = variable integer encoding; width = bits of `StorageT`).

The schema of `YaccGrammar<uW>` / `StateTable<uW>` is built from `Extracted.WINCODE_DEFS` (the field lists
of the derive structs of the source tree and of the pinned vob/sparsevec/packedvec). Reply:
* `V ok|fail why`: both buffers decode under that schema with nothing left over, and re-encoding the
  decoded values gives back the identical bytes (the decoder/encoder pair is the one `schema_roundtrip`
  is about);
* `S …`: the answers to the field-level public queries computed from the DECODED fields (with models of
  `Vob::get`, `PackedVec::get`, `SparseVec::get`, `StateTable::{action,goto,…}`), in the format of the
  harness's `I` line (which carries the answers of the reconstituted Rust objects).
-/
namespace GrmVerif.Drive.C14
open GrmVerif.C14 GrmVerif.Drive GrmVerif.Extracted

/-! ## schema resolution -/

def tysOfList : List (String × Ty) → Tys
  | [] => .nil
  | (n, t) :: r => .cons n t (tysOfList r)

def findDef (n : String) : Option RDef := WINCODE_DEFS.find? (fun d => d.name == n)

def prim? : String → Option Ty
  | "u8" => some (.int .u8) | "u16" => some (.int .u16) | "u32" => some (.int .u32)
  | "u64" => some (.int .u64) | "usize" => some (.int .usize)
  | "bool" => some .bool | "String" => some .string
  | _ => none

def zipEnv : List String → List Ty → List (String × Ty)
  | p :: ps, t :: ts => (p, t) :: zipEnv ps ts
  | _, _ => []

mutual
  /-- resolve a Rust type expression to a closed schema term (`env`: generic parameters in scope) -/
  def resolve : Nat → List (String × Ty) → RTy → Except String Ty
    | 0, _, _ => .error "schema nesting too deep"
    | fuel + 1, env, .tuple ts => do
      let fs ← resolveFields fuel env ((List.range ts.length).map toString |>.zip ts)
      pure (.struct (tysOfList fs))
    | fuel + 1, env, .boxedSlice t => do pure (.seq (← resolve fuel env t))
    | fuel + 1, env, .path n args =>
      match env.lookup n with
      | some t => pure t
      | none =>
        match prim? n with
        | some t => pure t
        | none => do
          let as ← resolveList fuel env args
          match n, as with
          | "Vec", [t] => pure (.seq t)
          | "Option", [t] => pure (.option t)
          | _, _ =>
            match findDef n with
            | none => .error s!"type {n} has no extracted definition"
            | some d =>
              if d.params.length != as.length then .error s!"{n}: wrong number of type arguments" else do
              let env' := zipEnv d.params as
              if d.isEnum then
                let vs ← resolveVariants fuel env' d.items
                pure (.enum (tysOfList vs))
              else
                match d.items with
                | [(_, fs)] => do pure (.struct (tysOfList (← resolveFields fuel env' fs)))
                | _ => .error s!"{n}: malformed struct definition"
  def resolveList : Nat → List (String × Ty) → List RTy → Except String (List Ty)
    | _, _, [] => pure []
    | fuel, env, t :: ts => do pure ((← resolve fuel env t) :: (← resolveList fuel env ts))
  def resolveFields : Nat → List (String × Ty) → List (String × RTy) → Except String (List (String × Ty))
    | _, _, [] => pure []
    | fuel, env, (n, t) :: r => do pure ((n, ← resolve fuel env t) :: (← resolveFields fuel env r))
  def resolveVariants : Nat → List (String × Ty) → List (String × List (String × RTy)) →
      Except String (List (String × Ty))
    | _, _, [] => pure []
    | fuel, env, (n, fs) :: r => do
      let fs' ← resolveFields fuel env fs
      pure ((n, .struct (tysOfList fs')) :: (← resolveVariants fuel env r))
end

def storageTy : Nat → Option Ty
  | 8 => some (.int .u8) | 16 => some (.int .u16) | 32 => some (.int .u32) | 64 => some (.int .u64)
  | _ => none

def rootTy (root : String) (width : Nat) : Except String Ty :=
  match storageTy width with
  | none => .error "unsupported storage width"
  | some st => resolve 64 [("$S", st)] (.path root [.path "$S" []])

/-! ## navigation of decoded values -/

def fld (v : Val) (n : String) : Option Val :=
  match v with
  | .struct fs => fs.lookup n
  | _ => none

/-- a natural, looking through newtype structs (`RIdx(T)`, …) -/
def asNatF : Nat → Val → Option Nat
  | _, .nat n => some n
  | fuel + 1, .struct [(_, v)] => asNatF fuel v
  | _, _ => none

def asNat (v : Val) : Option Nat := asNatF 8 v

def asList : Val → Option (List Val)
  | .seq vs => some vs
  | _ => none

def asOpt : Val → Option (Option Val)
  | .opt o => some o
  | _ => none

def asStr : Val → Option Bytes
  | .str s => some s
  | _ => none

def natList (v : Val) : Option (Array Nat) := do
  let vs ← asList v
  let ns ← vs.mapM asNat
  pure ns.toArray

/-- the string / the span component of a `(String, Span)` or `(Span, String)` tuple, whatever the order -/
def tupStr : Val → Option Bytes
  | .struct fs => fs.findSome? (fun (_, v) => asStr v)
  | _ => none
def tupSpan : Val → Option Val
  | .struct fs => fs.findSome? (fun (_, v) => match v with | .struct _ => some v | _ => none)
  | _ => none

/-! ## output format (that of `dump` in harness/src/props/c14.rs) -/

def wStr (s : Bytes) : List String := toString s.length :: s.map toString
def wOStr : Option Bytes → List String
  | none => ["0"]
  | some s => "1" :: wStr s
def wSpan (v : Val) : Option (List String) := do
  let a ← asNat (← fld v "start")
  let b ← asNat (← fld v "end")
  pure [toString a, toString b]
def wOSpan : Option Val → Option (List String)
  | none => some ["0"]
  | some v => do pure ("1" :: (← wSpan v))
def assocCode : Val → Option Nat
  | .variant _ "Left" _ => some 0
  | .variant _ "Right" _ => some 1
  | .variant _ "Nonassoc" _ => some 2
  | _ => none
def wOPrec : Option Val → Option (List String)
  | none => some ["0"]
  | some v => do
    let l ← asNat (← fld v "level")
    let k ← assocCode (← fld v "kind")
    pure ["1", toString l, toString k]
def wONat : Option Val → Option (List String)
  | none => some ["0"]
  | some v => do pure ["1", toString (← asNat v)]
def optStr (v : Val) : Option (Option Bytes) := do
  match ← asOpt v with
  | none => pure none
  | some s => pure (some (← asStr s))
def symCode : Val → Option Nat
  | .variant _ "Rule" p => do pure (2 * (← asNat p))
  | .variant _ "Token" p => do pure (2 * (← asNat p) + 1)
  | _ => none
def plist (l : List Nat) : List String := toString l.length :: l.map toString

/-! ## models of the container queries -/

structure VobM where
  len : Nat
  words : Array Nat

def vobOf (v : Val) : Option VobM := do
  pure { len := ← asNat (← fld v "len"), words := ← natList (← fld v "vec") }

/-- `Vob::get` -/
def VobM.get (v : VobM) (i : Nat) : Option Bool :=
  if i ≥ v.len then none
  else match v.words[i / 64]? with
    | none => none
    | some w => some ((w >>> (i % 64)) % 2 == 1)

/-- set bits in `[a, b)` relative to `a` (what `iter_set_bits(a..b)` yields, minus `a`) -/
def VobM.setBits (v : VobM) (a n : Nat) : List Nat :=
  (List.range n).filter (fun i => v.get (a + i) == some true)

structure PackedM where
  len : Nat
  bits : Array Nat
  bwidth : Nat
  min : Nat

/-- `PackedVec::<usize, u64>::get`: items are `bwidth` bits wide, packed most-significant-bit first into
64-bit words; the stored value is the distance from `min` -/
def PackedM.get (p : PackedM) (i : Nat) : Option Nat :=
  if i ≥ p.len then none
  else if p.bwidth == 0 then some p.min
  else
    let pos := i * p.bwidth
    let w0 := p.bits[pos / 64]?.getD 0
    let w1 := p.bits[pos / 64 + 1]?.getD 0
    let both := w0 * 2 ^ 64 + w1
    let start := pos % 64
    some (p.min + (both >>> (128 - start - p.bwidth)) % 2 ^ p.bwidth)

structure SparseM where
  displacement : Array Nat
  rowLength : Nat
  emptyVal : Nat
  empties : VobM
  data : PackedM

def sparseOf (v : Val) : Option SparseM := do
  let d ← fld v "data"
  pure {
    displacement := ← natList (← fld v "displacement")
    rowLength := ← asNat (← fld v "row_length")
    emptyVal := ← asNat (← fld v "empty_val")
    empties := ← vobOf (← fld v "empties")
    data := { len := ← asNat (← fld d "len"), bits := ← natList (← fld d "bits"),
              bwidth := ← asNat (← fld d "bwidth"), min := ← asNat (← fld d "min") } }

/-- `SparseVec::get` -/
def SparseM.get (s : SparseM) (r c : Nat) : Option Nat :=
  match s.empties.get (r * s.rowLength + c) with
  | none => none
  | some true => some s.emptyVal
  | some false =>
    match s.displacement[r]? with
    | none => none
    | some d => s.data.get (d + c)

/-! ## the dump -/

def getIdx (a : Array Val) (i : Nat) : Option Val := a[i]?

def dumpGrammar (g : Val) : Option (List String) := do
  let n (f : String) : Option Nat := do asNat (← fld g f)
  let arr (f : String) : Option (Array Val) := do pure (← asList (← fld g f)).toArray
  let rulesLen ← n "rules_len"
  let tokensLen ← n "tokens_len"
  let prodsLen ← n "prods_len"
  let eof ← n "eof_token_idx"
  let startProd ← n "start_prod"
  let prodsRules ← arr "prods_rules"
  let startRule ← asNat (← getIdx prodsRules startProd)
  let implicit ← asOpt (← fld g "implicit_rule")
  let head := ["g", toString rulesLen, toString tokensLen, toString prodsLen, toString eof, toString startProd,
    toString startRule] ++ (← wONat implicit)
  let ruleNames ← arr "rule_names"
  let actiontypes ← arr "actiontypes"
  let rulesProds ← arr "rules_prods"
  let rules ← (List.range rulesLen).mapM (fun r => do
    let rn ← getIdx ruleNames r
    let ps ← (← asList (← getIdx rulesProds r)).mapM asNat
    pure (["r"] ++ wStr (← tupStr rn) ++ (← wSpan (← tupSpan rn)) ++ wOStr (← optStr (← getIdx actiontypes r))
      ++ plist ps))
  let tokenNames ← arr "token_names"
  let tokenPrecs ← arr "token_precs"
  let tokenEpp ← arr "token_epp"
  let avoid ← asOpt (← fld g "avoid_insert")
  let avoidV ← match avoid with
    | none => pure none
    | some v => do pure (some (← vobOf v))
  let toks ← (List.range tokensLen).mapM (fun t => do
    let tn ← asOpt (← getIdx tokenNames t)
    let name ← match tn with
      | none => pure none
      | some v => do pure (some (← tupStr v))
    let span ← match tn with
      | none => pure none
      | some v => do pure (some (← tupSpan v))
    let av ← match avoidV with
      | none => pure "0"
      | some v => do pure (if (← v.get t) then "1" else "0")
    pure (["t"] ++ wOStr name ++ (← wOSpan span) ++ (← wOPrec (← asOpt (← getIdx tokenPrecs t)))
      ++ wOStr (← optStr (← getIdx tokenEpp t)) ++ [av]))
  let prods ← arr "prods"
  let prodPrecs ← arr "prod_precs"
  let prodSpans ← arr "prod_spans"
  let actions ← arr "actions"
  let actionSpans ← arr "action_spans"
  let ps ← (List.range prodsLen).mapM (fun p => do
    let syms ← (← asList (← getIdx prods p)).mapM symCode
    let span ← match getIdx prodSpans p with
      | none => pure ["P"]          -- index out of bounds: the query panics
      | some v => wSpan v
    let act ← match getIdx actions p with
      | none => pure ["P"]
      | some v => do pure (wOStr (← optStr v))
    let aspan ← match getIdx actionSpans p with
      | none => pure ["P"]
      | some v => do wOSpan (← asOpt v)
    pure (["p"] ++ plist syms ++ [toString syms.length, toString (← asNat (← getIdx prodsRules p))]
      ++ (← wOPrec (← asOpt (← getIdx prodPrecs p))) ++ span ++ act ++ aspan))
  let pp ← asOpt (← fld g "parse_param")
  let ppS ← match pp with
    | none => pure ["0"]
    | some v => do
      let a ← asStr (← fld v "0")
      let b ← asStr (← fld v "1")
      pure ("1" :: (wStr a ++ wStr b))
  let tail := ["x"] ++ ppS ++ wOStr (← optStr (← fld g "parse_generics")) ++ wOStr (← optStr (← fld g "programs"))
    ++ (← wONat (← asOpt (← fld g "expect"))) ++ (← wONat (← asOpt (← fld g "expectrr")))
  pure (head ++ rules.flatten ++ toks.flatten ++ ps.flatten ++ tail)

def dumpTable (g st : Val) (nstates width : Nat) : Option (List String) := do
  let nt ← asNat (← fld g "tokens_len")
  let nr ← asNat (← fld g "rules_len")
  let actions ← sparseOf (← fld st "actions")
  let gotos ← sparseOf (← fld st "gotos")
  let stateActions ← vobOf (← fld st "state_actions")
  let stateShifts ← vobOf (← fld st "state_shifts")
  let coreReduces ← vobOf (← fld st "core_reduces")
  let reduceStates ← vobOf (← fld st "reduce_states")
  let tProds ← asNat (← fld st "prods_len")
  let tToks ← asNat (← fld st "tokens_len")
  let start ← asNat (← fld st "start_state")
  let m := 2 ^ width
  let perState := (List.range nstates).map (fun s =>
    let acts := (List.range nt).map (fun t =>
      match actions.get s t with
      | none => "P"
      | some bits =>
        let kind := bits % 4
        let val := (bits / 4) % m
        if kind == SHIFT then toString (1 + 4 * val)
        else if kind == REDUCE then toString (2 + 4 * val)
        else if kind == ACCEPT then "3"
        else "0")
    let gts := (List.range nr).map (fun r =>
      match gotos.get s r with
      | none => "P"
      | some 0 => "0"
      | some i => toString ((i - 1) % m + 1))
    let ro := match reduceStates.get s with
      | none => "P"
      | some b => if b then "1" else "0"
    ["q"] ++ acts ++ ["j"] ++ gts ++ ["a"] ++ plist (stateActions.setBits (s * tToks) tToks)
      ++ ["h"] ++ plist (stateShifts.setBits (s * tToks) tToks)
      ++ ["c"] ++ plist (coreReduces.setBits (s * tProds) tProds) ++ ["o", ro])
  let conf ← asOpt (← fld st "conflicts")
  let confS ← match conf with
    | none => pure ["k", "0"]
    | some c => do
      let rr ← asList (← fld c "reduce_reduce")
      let sr ← asList (← fld c "shift_reduce")
      let flat (v : Val) : Option (List String) :=
        match v with
        | .struct fs => do pure ((← fs.mapM (fun (_, x) => asNat x)).map toString)
        | _ => none
      let rrS ← rr.mapM flat
      let srS ← sr.mapM flat
      pure (["k", "1", toString rr.length] ++ rrS.flatten ++ [toString sr.length] ++ srS.flatten)
  pure (["s", toString start] ++ perState.flatten ++ confS)

/-- decode a whole buffer, re-encode, compare -/
def decodeCheck (cfg : IntEnc) (t : Ty) (what : String) (bs : Bytes) : Except String Val :=
  let c := codec cfg t
  match c.dec bs with
  | none => .error s!"{what}: bytes do not decode under the extracted schema"
  | some (x, rest) =>
    if !rest.isEmpty then .error s!"{what}: {rest.length} bytes left over after decoding"
    else if c.enc x != bs then .error s!"{what}: re-encoding the decoded value gives different bytes"
    else .ok (c.view x)

def expectedConfigs : List (String × String) :=
  [("FixedSizeInteger", "fixint"), ("VariableSizedInteger", "varint")]

def handle (args : List Nat) : String :=
  match args with
  | cfgN :: width :: nstates :: rest =>
    match takeList rest with
    | none => "bad-request"
    | some (gb, rest') =>
      match takeList rest' with
      | none => "bad-request"
      | some (sb, _) =>
        if gb.isEmpty && sb.isEmpty then "X nothing serialised (refused at build time)"
        else if gb.any (· ≥ 256) || sb.any (· ≥ 256) then "bad-request"
        else if SERIALISATION_CONFIGS != expectedConfigs then
          "V fail lrpar pairs the serialisation formats with other wincode configurations than the model: " ++
            toString SERIALISATION_CONFIGS
        else
          let cfg := if cfgN == 0 then IntEnc.fix else IntEnc.var
          let r : Except String (Val × Val) := do
            let gt ← rootTy "YaccGrammar" width
            let stt ← rootTy "StateTable" width
            let g ← decodeCheck cfg gt "grammar" gb
            let st ← decodeCheck cfg stt "table" sb
            pure (g, st)
          match r with
          | .error e => "V fail " ++ e
          | .ok (g, st) =>
            match dumpGrammar g, dumpTable g st nstates width with
            | some a, some b => "V ok\nS " ++ " ".intercalate (a ++ b)
            | none, _ => "V ok\nS grammar-fields-missing"
            | _, none => "V ok\nS table-fields-missing"
  | _ => "bad-request"

end GrmVerif.Drive.C14
