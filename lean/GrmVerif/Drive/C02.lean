import GrmVerif.Model.Canon
import GrmVerif.Model.CertVP
import GrmVerif.Drive.C01
import GrmVerif.Drive.Pager
/-!
Driver for C02. Request as for C01 (`<grammar> <automaton> ninputs (len tok…)* ninputs×accepted`).
The canonical LR(1) automaton is constructed (unmerged) and used only if the verified validators
accept it. If it is conflict-free the grammar is LR(1) and the implementation's (Pager) automaton
must: report no conflicts, have no more states, pass the validators itself; and on every input the
canonical parser's result (`S k …`: tree, or first-error position) is what the real parser must
produce.
-/
namespace GrmVerif.Drive.C02
open GrmVerif GrmVerif.Drive GrmVerif.LR GrmVerif.Ref

def outcomeNoState : Outcome → String
  | .accept t => "acc " ++ " ".intercalate (C01.treeToks t)
  | .error i _ => s!"err {i}"
  | .crash n => s!"crash {n}"
  | .fuelOut => "div"

def handleCert (args : List Nat) : String :=
  match C01.parseReq args with
  | none => "bad-request"
  | some P =>
    match analyses P.G with
    | none => "V fail analyses: fuel exhausted"
    | some An =>
      let N : Nat → Bool := fun x => An.nullable.contains x
      let F : Nat × Nat → Bool := fun x => An.first.contains x
      match Canon.canonical P.G N F 300 with
      | none => "V ok\nC canonical_too_big 1"
      | some (Ac, cf) =>
        if !cf then s!"V ok\nC not_lr1 1\nC canonical_states {Ac.nstates}"
        else
          let bad := Cert.failing P.G Ac ++ Cert.failingLA P.G Ac N F ++
            (if Cert.allProductive P.G then Cert.failingVP P.G Ac else [])
          if !bad.isEmpty then s!"V ok\nC canonical_not_certified 1\nX clauses={bad}"
          else
            -- the grammar is LR(1), witnessed by a certified conflict-free automaton
            let v1 := if P.A.rr.isEmpty && P.A.sr.isEmpty then [] else
              [s!"V fail conflicts-reported-for-an-LR1-grammar sr={P.A.sr.length} rr={P.A.rr.length}"]
            let v2 := if P.A.nstates ≤ Ac.nstates then [] else
              [s!"V fail more-states-than-canonical impl={P.A.nstates} canonical={Ac.nstates}"]
            -- the viable-prefix part applies to grammars whose rules are all productive
            let prod := Cert.allProductive P.G
            let badI := Cert.failing P.G P.A ++ Cert.failingLA P.G P.A N F ++
              (if prod then Cert.failingVP P.G P.A else [])
            let v3 := if badI.isEmpty then [] else [s!"V fail minimised-automaton-not-certified clauses={badI}"]
            let ss := (List.range P.inputs.length).map (fun k =>
              let w := P.inputs.getD k []
              s!"S {k} {outcomeNoState (parse P.G Ac w (400 * (w.length + 2)))}")
            let vs := v1 ++ v2 ++ v3
            "\n".intercalate ((if vs.isEmpty then ["V ok"] else vs) ++ ss ++
              [s!"C lr1 1", s!"C canonical_states {Ac.nstates}", s!"C impl_states {P.A.nstates}",
               s!"C merged {if P.A.nstates < Ac.nstates then 1 else 0}",
               s!"C all_rules_productive {if prod then 1 else 0}"])

/-- what follows the C01-style payload: the pager trace (absent in requests of harnesses built without
the hook) -/
def traceRest (args : List Nat) : Option (Grammar × List Nat) := do
  let (G, rest) ← parseGrammar args
  let (_, rest) ← parseAutomaton G rest
  match rest with
  | n :: rest =>
    let (_, rest) ← C01.parseInputs n rest
    some (G, rest.drop n)
  | [] => none

/-- the tie of the construction algorithm (`Model/PagerImpl.lean`), for every grammar (LR(1) or not) -/
def pagerLines (args : List Nat) : List String :=
  match traceRest args with
  | none => []
  | some (G, rest) =>
    match analyses G with
    | none => []
    | some An => Pager.lines G (An.nullable.contains ·) (An.first.contains ·) rest

def handle (args : List Nat) : String :=
  "\n".intercalate (handleCert args :: pagerLines args)

end GrmVerif.Drive.C02
