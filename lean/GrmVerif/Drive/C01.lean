import GrmVerif.Model.Cert
import GrmVerif.Model.CertLA
import GrmVerif.Model.Recog
import GrmVerif.Model.Term
import GrmVerif.Drive.Util
/-!
Driver for C01 (and the shared part of C04). Request: `<grammar> <automaton> ninputs (len tok…)*
ninputs×accepted` (`accepted`: 1 the implementation accepted, 0 rejected, 2 not parsed because the
plain LR loop does not terminate on this table and input).
Reply: `V` verdict of the validator `Cert.check`; one `M k …` line per input from the LR driver model;
`V fail sentence-rejected …` when a conflict-free table's parser rejected an input that the (sound)
bounded recogniser derives from the start rule.
-/
namespace GrmVerif.Drive.C01
open GrmVerif GrmVerif.Drive GrmVerif.LR GrmVerif.Ref

partial def treeToks : Tree → List String
  | .leaf t i => [s!"L {t} {i}"]
  | .node p kids => s!"N {p} {kids.length}" :: kids.flatMap treeToks

def outcomeStr : Outcome → String
  | .accept t => "acc " ++ " ".intercalate (treeToks t)
  | .error i s => s!"err {i} {s}"
  | .crash n => s!"crash {n}"
  | .fuelOut => "div"

def parseInputs : Nat → List Nat → Option (List (List Nat) × List Nat)
  | 0, rest => some ([], rest)
  | n + 1, rest =>
    match takeList rest with
    | none => none
    | some (w, rest') =>
      match parseInputs n rest' with
      | none => none
      | some (ws, r) => some (w :: ws, r)

structure Parsed where
  G : Grammar
  A : Automaton
  inputs : List (List Nat)
  accepted : List Nat

def parseReq (args : List Nat) : Option Parsed := do
  let (G, rest) ← parseGrammar args
  let (A, rest) ← parseAutomaton G rest
  match rest with
  | n :: rest =>
    let (inputs, rest) ← parseInputs n rest
    some ⟨G, A, inputs, rest.take n⟩
  | [] => none

/-- some cell had both a shift edge and a reduction candidate but no reported shift/reduce
conflict, or several reduction candidates… i.e. precedence/associativity decided it silently -/
def precResolved (G : Grammar) (A : Automaton) : Bool :=
  (List.range A.nstates).any (fun s => (List.range G.ntoks).any (fun t =>
    let cands := (A.closed s).filter (fun i => i.dot ≥ (G.rhs i.p).length && i.la.contains t)
    !cands.isEmpty && (A.edge s (.tok t)).isSome && !A.sr.any (fun c => c.1 == t && c.2.2 == s)))

def fuelFor (A : Automaton) (w : List Nat) : Nat := 400 * (w.length + 2)

def handle (args : List Nat) : String :=
  match parseReq args with
  | none => "bad-request"
  | some P =>
    let bad := Cert.failing P.G P.A
    let v1 := if bad.isEmpty then [] else [s!"V fail cert clauses={bad}"]
    let ms := (List.range P.inputs.length).map (fun k =>
      let w := P.inputs.getD k []
      s!"M {k} {outcomeStr (parse P.G P.A w (fuelFor P.A w))}")
    let conflictFree := P.A.rr.isEmpty && P.A.sr.isEmpty
    let maxRhs := (P.G.prods.map (fun pr => pr.2.length)).foldl max 0
    let v2 := if !conflictFree then [] else
      (List.range P.inputs.length).filterMap (fun k =>
        let w := P.inputs.getD k []
        if P.accepted.getD k 1 == 0 && w.length ≤ 6 &&
            recogSym P.G (fun _ => true) (P.G.nrules * (maxRhs + 2) + 2 * w.length + 4) (.rule P.G.startRule) w
        then some (if precResolved P.G P.A
              then s!"V fail sentence-rejected-precedence-resolved input={w}"
              else s!"V fail sentence-rejected input={w}") else none)
    -- lookahead half + table completeness: demanded when construction reported no conflict and no
    -- cell was settled silently by precedence
    let v3 := if !conflictFree || precResolved P.G P.A then [] else
      match Ref.analyses P.G with
      | none => ["V fail analyses: fuel exhausted"]
      | some An =>
        let badLA := Cert.failingLA P.G P.A (An.nullable.contains ·) (An.first.contains ·)
        if badLA.isEmpty then [] else [s!"V fail certLA clauses={badLA}"]
    let vs := v1 ++ v3 ++ v2
    -- termination certificate (premise of `C01.lr_terminates`): counted, not judged — a table with a
    -- precedence-resolved conflict may legitimately fail it (known finding under C07)
    let nTerm := 3 * (P.A.nstates + P.G.nrules) + 20
    let term := if Term.termCheck P.G P.A nTerm then "C termination_certified 1"
      else if conflictFree && !precResolved P.G P.A then "C termination_not_certified_conflict_free_table 1"
      else "C termination_not_certified_table_with_conflicts 1"
    "\n".intercalate ((if vs.isEmpty then ["V ok"] else vs) ++ ms ++ [term])

end GrmVerif.Drive.C01
