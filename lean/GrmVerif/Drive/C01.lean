import GrmVerif.Model.Cert
import GrmVerif.Model.CertLA
import GrmVerif.Model.Recog
import GrmVerif.Model.Term
import GrmVerif.Drive.Util
/-!
Driver for C01 (and the shared part of C04). Request: `<grammar> <automaton> ninputs (len tok…)*
ninputs×accepted` (`accepted`: 1 the implementation accepted, 0 rejected, 2 not parsed because the
plain LR loop does not terminate on this table and input).
Reply: `V` verdict of the validator `Cert.check`; one `M k …` line per input from the LR driver model;
`V fail sentence-rejected …` when a conflict-free table's parser rejected an input that the (sound)
bounded recogniser derives from the start rule; `V fail termination-certificate-fails state=… below=…
lookahead=… loop-after=… top=… period=…` when a conflict-free table without precedence-resolved cells
fails the termination certificate `Term.termCheckAdj` at a pair whose local run provably loops
(`Term.findCycle`; `C01.cert_cycle_parse_diverges`); `C termination_…` counters otherwise.
-/
namespace GrmVerif.Drive.C01
open GrmVerif GrmVerif.Drive GrmVerif.LR GrmVerif.Ref

partial def treeToks : Tree → List String
  | .leaf t i => [s!"L {t} {i}"]
  | .node p kids => s!"N {p} {kids.length}" :: kids.flatMap treeToks

def outcomeStr : Outcome → String
  | .accept t => "acc " ++ " ".intercalate (treeToks t)
  | .error i s => s!"err {i} {s}"
  | .crash n => s!"crash {n}"
  | .fuelOut => "div"

def parseInputs : Nat → List Nat → Option (List (List Nat) × List Nat)
  | 0, rest => some ([], rest)
  | n + 1, rest =>
    match takeList rest with
    | none => none
    | some (w, rest') =>
      match parseInputs n rest' with
      | none => none
      | some (ws, r) => some (w :: ws, r)

structure Parsed where
  G : Grammar
  A : Automaton
  inputs : List (List Nat)
  accepted : List Nat

def parseReq (args : List Nat) : Option Parsed := do
  let (G, rest) ← parseGrammar args
  let (A, rest) ← parseAutomaton G rest
  match rest with
  | n :: rest =>
    let (inputs, rest) ← parseInputs n rest
    some ⟨G, A, inputs, rest.take n⟩
  | [] => none

/-- some cell had both a shift edge and a reduction candidate but no reported shift/reduce
conflict, or several reduction candidates… i.e. precedence/associativity decided it silently -/
def precResolved (G : Grammar) (A : Automaton) : Bool :=
  (List.range A.nstates).any (fun s => (List.range G.ntoks).any (fun t =>
    let cands := (A.closed s).filter (fun i => i.dot ≥ (G.rhs i.p).length && i.la.contains t)
    !cands.isEmpty && (A.edge s (.tok t)).isSome && !A.sr.any (fun c => c.1 == t && c.2.2 == s)))

/-- fuel of the termination certificate: linear in the table, generous (the longest local run seen on
a certified table of the generators is far below it) -/
def termFuel (G : Grammar) (A : Automaton) : Nat := 4 * (A.nstates + G.nrules) + 40

/-- `(lookahead, state, below)` of a failing local run and, if `Term.findCycle` finds one, the loop
`(reductions before it, states of the top part that recurs, period)`. A run that only fails because it is long (no cycle within the
search) is looked at again with 64 times the fuel. -/
def termFailure (G : Grammar) (A : Automaton) : Option ((Nat × Nat × Option Nat) × Option (Nat × Nat × Nat)) × Bool :=
  let cyc := fun (t : Nat × Nat × Option Nat) =>
    Term.findCycle G A t.1 (4 * termFuel G A) (4 * termFuel G A) 0
      (match t.2.2 with | some b => [t.2.1, b] | none => [t.2.1])
  match Term.failAdj G A (termFuel G A) with
  | none => (none, false)
  | some t1 =>
    match cyc t1 with
    | some c => (some (t1, some c), false)
    | none =>
      match Term.failAdj G A (64 * termFuel G A) with
      | none => (none, true)
      | some t2 => (some (t2, cyc t2), false)

/-- verdict lines and counter lines of the termination certificate. `strict`: the table is
conflict-free and no cell was settled by precedence — then a pair whose local run provably cycles
(`C01.cert_cycle_feed_diverges_partial`: `feed` never ends on a real stack) is a defect of the table;
for other tables (Yacc-resolved conflicts may legitimately loop: known finding under C07) and for
failures without a cycle witness it is only counted. -/
def termVerdict (G : Grammar) (A : Automaton) (strict : Bool) : List String × List String :=
  match termFailure G A with
  | (none, false) => ([], ["C termination_certified 1"])
  | (none, true) => ([], ["C termination_certified 1", "C termination_certified_with_64x_fuel 1"])
  | (some ((la, s, below), cyc), _) =>
    if !strict then
      ([], ["C termination_not_certified_table_with_conflicts 1"] ++
        (if cyc.isSome then ["C termination_cycle_table_with_conflicts 1"] else []))
    else
      let belowOk := match below with | some b => (Term.reachable A).contains b | none => true
      let belowStr := match below with | some b => toString b | none => "none"
      match cyc with
      | some (pre, m, k) =>
        if belowOk then
          ([s!"V fail termination-certificate-fails state={s} below={belowStr} lookahead={la} loop-after={pre} top={m} period={k}"],
            ["C termination_not_certified_conflict_free_table 1"])
        else ([], ["C termination_not_certified_conflict_free_table 1", "C termination_cycle_below_unreachable_state 1"])
      | none => ([], ["C termination_not_certified_conflict_free_table 1", "C termination_failure_without_cycle_witness 1"])

def fuelFor (A : Automaton) (w : List Nat) : Nat := 400 * (w.length + 2)

def handle (args : List Nat) : String :=
  match parseReq args with
  | none => "bad-request"
  | some P =>
    let bad := Cert.failing P.G P.A
    let v1 := if bad.isEmpty then [] else [s!"V fail cert clauses={bad}"]
    let ms := (List.range P.inputs.length).map (fun k =>
      let w := P.inputs.getD k []
      s!"M {k} {outcomeStr (parse P.G P.A w (fuelFor P.A w))}")
    let conflictFree := P.A.rr.isEmpty && P.A.sr.isEmpty
    let maxRhs := (P.G.prods.map (fun pr => pr.2.length)).foldl max 0
    let v2 := if !conflictFree then [] else
      (List.range P.inputs.length).filterMap (fun k =>
        let w := P.inputs.getD k []
        if P.accepted.getD k 1 == 0 && w.length ≤ 6 &&
            recogSym P.G (fun _ => true) (P.G.nrules * (maxRhs + 2) + 2 * w.length + 4) (.rule P.G.startRule) w
        then some (if precResolved P.G P.A
              then s!"V fail sentence-rejected-precedence-resolved input={w}"
              else s!"V fail sentence-rejected input={w}") else none)
    -- lookahead half + table completeness: demanded when construction reported no conflict and no
    -- cell was settled silently by precedence
    let v3 := if !conflictFree || precResolved P.G P.A then [] else
      match Ref.analyses P.G with
      | none => ["V fail analyses: fuel exhausted"]
      | some An =>
        let badLA := Cert.failingLA P.G P.A (An.nullable.contains ·) (An.first.contains ·)
        if badLA.isEmpty then [] else [s!"V fail certLA clauses={badLA}"]
    let vs := v1 ++ v3 ++ v2
    -- termination certificate over adjacent pairs (premise of `C01.lr_terminates`)
    let term := termVerdict P.G P.A (conflictFree && !precResolved P.G P.A)
    "\n".intercalate ((let vs := vs ++ term.1; if vs.isEmpty then ["V ok"] else vs) ++ ms ++ term.2)

end GrmVerif.Drive.C01
