import GrmVerif.Model.CertVP
import GrmVerif.Drive.C02
/-!
Driver for C04. Everything the C01 driver answers (validators `check`/`checkLA`, LR driver model),
plus, for conflict-free tables without precedence-resolved cells over grammars whose rules are all
productive (the property's hypothesis):
* `V fail certVP …` when a closed state holds an item outside the closure of its core
  (`Cert.checkVP`, the premise of `C04.error_prefix_is_viable`);
* `Sp k err i | acc` — the error position the PROPERTY prescribes, computed by a canonical LR(1)
  parser that itself passed all three validators (`C04.error_position_unique`: every certified
  automaton of the grammar reports this position). The harness sends `Ip k …` (position only).
-/
namespace GrmVerif.Drive.C04
open GrmVerif GrmVerif.Drive GrmVerif.LR GrmVerif.Ref

def posOnly : Outcome → String
  | .accept _ => "acc"
  | .error i _ => s!"err {i}"
  | .crash n => s!"crash {n}"
  | .fuelOut => "div"

/-- the C01 driver's answer without its language-level verdicts (`sentence-rejected…`: a table whose
conflicts were settled by precedence rejects sentences on purpose — C01's known finding, not a matter
of error positions) -/
def baseFor (args : List Nat) : String :=
  let ls := (C01.handle args).splitOn "\n"
  let kept := ls.filter (fun l => !l.startsWith "V fail sentence-rejected")
  let hasV := kept.any (fun l => l.startsWith "V ")
  "\n".intercalate (if hasV then kept else "V ok" :: kept)

def handle (args : List Nat) : String :=
  let base := baseFor args
  match C01.parseReq args with
  | none => base
  | some P =>
    let conflictFree := P.A.rr.isEmpty && P.A.sr.isEmpty
    if !conflictFree || C01.precResolved P.G P.A then base ++ "\nC outside_hypothesis_conflicts_or_precedence 1"
    else if !Cert.allProductive P.G then base ++ "\nC outside_hypothesis_unproductive_rule 1"
    else
      let vp := if Cert.vpClosed P.G P.A then [] else ["V fail certVP closed-item-outside-closure-of-core"]
      let spec : List String :=
        match analyses P.G with
        | none => []
        | some An =>
          let N : Nat → Bool := fun x => An.nullable.contains x
          let F : Nat × Nat → Bool := fun x => An.first.contains x
          match Canon.canonical P.G N F 300 with
          | none => ["C canonical_too_big 1"]
          | some (Ac, cf) =>
            if !cf then ["C canonical_has_conflicts 1"]
            else if !(Cert.failing P.G Ac ++ Cert.failingLA P.G Ac N F ++ Cert.failingVP P.G Ac).isEmpty then
              ["C canonical_not_certified 1"]
            else
              (List.range P.inputs.length).map (fun k =>
                let w := P.inputs.getD k []
                s!"Sp {k} {posOnly (parse P.G Ac w (400 * (w.length + 2)))}") ++ ["C spec_from_certified_canonical 1"]
      "\n".intercalate (vp ++ [base] ++ spec ++ ["C within_hypothesis 1"])

end GrmVerif.Drive.C04
