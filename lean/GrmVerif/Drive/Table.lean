import GrmVerif.Lemmas.TableSpec
import GrmVerif.Model.Cert
import GrmVerif.Model.Closure
import GrmVerif.Model.CloseImpl
import GrmVerif.Drive.Util
/-!
Drivers for C03 (conflict resolution and reporting) and C16 (table/graph views agree).
Request: `<grammar+precs> <automaton> expect expectrr errOnConflicts` (`expect` = 0 absent | n+1).
-/
namespace GrmVerif.Drive.Table
open GrmVerif GrmVerif.Table GrmVerif.Drive

def actStr : Act → String
  | .error => "e"
  | .shift s => s!"s{s}"
  | .reduce p => s!"r{p}"
  | .accept => "a"

def tokEdge (st : StateD) (t : Nat) : Option Nat := ((st.edges.find? (fun e => e.1 == Sym.tok t)).map (·.2))

structure Parsed where
  G : Grammar
  A : Automaton
  expect : Option Nat
  expectrr : Option Nat
  errOnConflicts : Bool
  /-- per production: the token named by `%prec`, as read off the source -/
  explicitPrec : Option (List (Option Nat)) := none

def parse (args : List Nat) : Option Parsed := do
  let (G, rest) ← parseGrammarPrec args
  let (A, rest) ← parseAutomaton G rest
  match rest with
  | e :: er :: eoc :: rest =>
    let ep := match rest with
      | 1 :: l => some ((l.take G.nprods).map (fun x => if x = 0 then none else some (x - 1)))
      | _ => none
    some ⟨G, A, if e = 0 then none else some (e - 1), if er = 0 then none else some (er - 1), eoc != 0, ep⟩
  | _ => none

def sortQuads (l : List (Nat × Nat × Nat × Nat)) : List (Nat × Nat × Nat × Nat) :=
  l.mergeSort (fun a b => decide (a.1 < b.1) || (a.1 == b.1 && (decide (a.2.1 < b.2.1) || (a.2.1 == b.2.1 &&
    (decide (a.2.2.1 < b.2.2.1) || (a.2.2.1 == b.2.2.1 && decide (a.2.2.2 ≤ b.2.2.2)))))))

def quadStr (q : Nat × Nat × Nat × Nat) : String := s!"{q.1},{q.2.1},{q.2.2.1},{q.2.2.2}"

/-- all cells of the faithful model: per state, per token -/
def modelCells (P : Parsed) : List (List Cell) :=
  P.A.states.map (fun st => (List.range P.G.ntoks).map (fun t => cellOf P.G st.closed (tokEdge st t) t))

def cellAct : Cell → String
  | .ok a _ _ _ => actStr a
  | .acceptReduce _ => "AR"
  | .panic => "P"

/-- `cells … sa … ss … ro … cr … rr … sr …` in the format of the harness' `I` line -/
def modelLine (P : Parsed) : String :=
  let cells := modelCells P
  let rows : List (List Act) := cells.map (fun row => row.map (fun c => match c with | .ok a _ _ _ => a | _ => .error))
  let cellsS := " ".intercalate (cells.map (fun row => ",".intercalate (row.map cellAct)))
  let sa := " ".intercalate (cells.map (fun row =>
    ",".intercalate (((List.range row.length).filter (fun t => match row.getD t .panic with | .ok _ _ _ b => b | _ => false)).map toString) ++ ";"))
  let ss := " ".intercalate (rows.map (fun row => ",".intercalate ((stateShifts row).map toString) ++ ";"))
  let ro := " ".intercalate (rows.map (fun row => if reduceOnly P.G row then "1" else "0"))
  let cr := " ".intercalate (rows.map (fun row => ",".intercalate ((coreReduces P.G row).map toString) ++ ";"))
  let rr := (List.range cells.length).flatMap (fun s => (List.range P.G.ntoks).flatMap (fun t =>
    match (cells.getD s []).getD t .panic with
    | .ok _ recs _ _ => recs.map (fun (k, d) => (t, k, d, s))
    | _ => []))
  let sr := (List.range cells.length).flatMap (fun s => (List.range P.G.ntoks).flatMap (fun t =>
    match (cells.getD s []).getD t .panic with
    | .ok _ _ (some r) _ => [(t, r, s, 0)]
    | _ => []))
  s!"cells {cellsS} sa {sa} ss {ss} ro {ro} cr {cr} rr {" ".intercalate ((sortQuads rr).map quadStr)} sr {" ".intercalate ((sortQuads sr).map quadStr)}"

/-- the specification's cells: candidate reductions as a *set* (sorted, so no dependence on the
iteration order), Yacc's rules -/
def specCells (P : Parsed) : List (List (Option (Act × Nat × Option Nat))) :=
  P.A.states.map (fun st => (List.range P.G.ntoks).map (fun t =>
    let R := (reduceCands P.G st.closed t).mergeSort (fun a b => decide (a ≤ b)) |>.eraseDups
    specCell P.G R (tokEdge st t) t))

def specLine (P : Parsed) : String :=
  let cells := specCells P
  let act : Option (Act × Nat × Option Nat) → Act := fun c => match c with | some (a, _, _) => a | none => .error
  let rows := cells.map (fun row => row.map act)
  let cellsS := " ".intercalate (cells.map (fun row => ",".intercalate (row.map (fun c => match c with | some (a, _, _) => actStr a | none => "AR"))))
  let sa := " ".intercalate (rows.map (fun row =>
    ",".intercalate (((List.range row.length).filter (fun t => row.getD t .error != .error)).map toString) ++ ";"))
  let ss := " ".intercalate (rows.map (fun row =>
    ",".intercalate (((List.range row.length).filter (fun t => isShift (row.getD t .error))).map toString) ++ ";"))
  let ro := " ".intercalate (rows.map (fun row =>
    let keys := (row.filterMap (fun a => match a with | .reduce p => some (rkey P.G p) | _ => none)).eraseDups
    if row.all (fun a => !isShift a && a != .accept) && keys.length == 1 then "1" else "0"))
  let rrsum := (List.range cells.length).flatMap (fun s => (List.range P.G.ntoks).flatMap (fun t =>
    match (cells.getD s []).getD t none with
    | some (_, n, _) => if n > 0 then [s!"{s},{t},{n}"] else []
    | none => []))
  let sr := (List.range cells.length).flatMap (fun s => (List.range P.G.ntoks).flatMap (fun t =>
    match (cells.getD s []).getD t none with
    | some (_, _, some r) => [(t, r, s, 0)]
    | _ => []))
  s!"cells {cellsS} sa {sa} ss {ss} ro {ro} rrsum {" ".intercalate rrsum} sr {" ".intercalate ((sortQuads sr).map quadStr)}"

/-- numbers of reported conflicts according to the specification -/
def specCounts (P : Parsed) : Nat × Nat :=
  let cells := (specCells P).flatten
  (cells.foldl (fun acc c => match c with | some (_, _, some _) => acc + 1 | _ => acc) 0,
   cells.foldl (fun acc c => match c with | some (_, n, _) => acc + n | _ => acc) 0)

/-- Yacc's rule for the precedence of a production: that of the token named by `%prec`, else that of
the LAST token of the right-hand side (none if it has no token or that token has no precedence) -/
def specProdPrec (G : Grammar) (explicit : Option Nat) (p : Nat) : Option Prec :=
  match explicit with
  | some t => (G.tokPrec[t]?).getD none
  | none =>
    match ((G.rhs p).filterMap (fun X => match X with | .tok t => some t | .rule _ => none)).getLast? with
    | some t => (G.tokPrec[t]?).getD none
    | none => none

/-- productions whose dumped precedence differs from Yacc's rule -/
def badProdPrecs (P : Parsed) : List Nat :=
  match P.explicitPrec with
  | none => []
  | some ep => (List.range P.G.nprods).filter (fun p =>
      (P.G.prodPrec[p]?).getD none != specProdPrec P.G (ep.getD p none) p)

/-- must a compile-time build fail? (`%expect`/`%expect-rr` default 0) -/
def specBuildFails (P : Parsed) : Bool :=
  let (sr, rr) := specCounts P
  P.errOnConflicts && (sr != P.expect.getD 0 || rr != P.expectrr.getD 0)

end GrmVerif.Drive.Table

namespace GrmVerif.Drive.C03
open GrmVerif GrmVerif.Table GrmVerif.Drive GrmVerif.Drive.Table

def handle (args : List Nat) : String :=
  match parse args with
  | none => "bad-request"
  | some P =>
    if !P.G.wf then "V fail dumped grammar is not well-formed" else
    let anyAR := (specCells P).flatten.any (·.isNone)
    let v1 := (if precConsistent P.G then [] else ["V fail precedence levels inconsistent: equal level with different kinds"]) ++
      (match badProdPrecs P with
       | [] => []
       | ps => [s!"V fail production-precedence-is-not-that-of-its-%prec-or-last-token productions={ps}"])
    let lines := [s!"M {modelLine P}", s!"S2 {specLine P}",
      s!"SE arconflict={if anyAR then 1 else 0} fails={if specBuildFails P then 1 else 0}"]
    "\n".intercalate (lines ++ (if v1.isEmpty then ["V ok"] else v1))

end GrmVerif.Drive.C03

namespace GrmVerif.Drive.C16
open GrmVerif GrmVerif.Table GrmVerif.Drive GrmVerif.Drive.Table

/-- the dumped `core_reduces` of a state satisfy the specification for the dumped row -/
def coreReducesOk (G : Grammar) (st : StateD) : Bool :=
  let reds := st.actions.filterMap (fun a => match a with | .reduce p => some p | _ => none)
  st.coreReduces.all (fun q => reds.contains q) &&
  reds.all (fun p => (st.coreReduces.filter (fun q => rkey G q == rkey G p)).length == 1)

/-- the MODEL of `Itemset::close` (`Model/CloseImpl.lean`) evaluated on every dumped core state, in
the dumped (= hash map's) key order, against the dumped closed state. By `C16.close_impl_exact` the
model's answer is the LR(1) closure of the core, so a difference is a closed state that is not the
closure of its core (and, on a tree where the reference comparison passes, a model that no longer
describes the code). -/
def modelCloseFails (G : Grammar) (An : Ref.Analyses) (A : Automaton) : List String :=
  let N : Nat → Bool := (An.nullable.contains ·)
  let F : Nat × Nat → Bool := (An.first.contains ·)
  let U := (Closure.factUniverse G).length
  (List.range A.nstates).filterMap (fun s =>
    let core := A.core s
    let order := CloseImpl.keysOf core
    match CloseImpl.close G N F core order (order.length + U + 1) with
    | .done R =>
      if CloseImpl.sameItems R (A.closed s) then none
      else some s!"V fail model-of-Itemset::close-differs-from-the-dumped-closed-state state={s}"
    | .panic => some s!"V fail model-of-Itemset::close-panics-on-the-dumped-core state={s}"
    | .fuelOut => some s!"V fail model-of-Itemset::close-runs-out-of-fuel-on-the-dumped-core state={s}")

def handle (args : List Nat) : String :=
  match parse args with
  | none => "bad-request"
  | some P =>
    if !P.G.wf then "V fail dumped grammar is not well-formed" else
    let G := P.G
    let A := P.A
    let bad := (Cert.failing G A).filter (fun c => c == "itemsOk" || c == "K3'" || c == "K4" || c == "K5" || c == "K2")
    let v1 := if bad.isEmpty then [] else [s!"V fail graph/table disagree clauses={bad}"]
    let v2 := match Closure.reachableStates A with
      | none => ["V fail reachability: fuel exhausted"]
      | some R =>
        match (List.range A.nstates).find? (fun s => !R.contains s) with
        | some s => [s!"V fail unreachable-state state={s}"]
        | none => []
    let v3 := match Ref.analyses G with
      | none => ["V fail analyses: fuel exhausted"]
      | some An =>
        (List.range A.nstates).filterMap (fun s =>
          match Closure.close1 G (An.nullable.contains ·) (An.first.contains ·) (A.core s) with
          | none => some s!"V fail closure: fuel exhausted state={s}"
          | some S => if Closure.sameAs G S (A.closed s) then none else some s!"V fail closed-state-is-not-the-closure-of-its-core state={s}")
    let v4 := (List.range A.nstates).filterMap (fun s =>
      match A.states[s]? with
      | some st => if coreReducesOk G st then none else some s!"V fail core-reduces state={s}"
      | none => none)
    let v5 := match Ref.analyses G with
      | none => []
      | some An => modelCloseFails G An A
    let vs := v1 ++ v2 ++ v3 ++ v4 ++ v5
    let counts := [s!"C closure_states_vs_reference {A.nstates}", s!"C closure_reference_differs {v3.length}",
      s!"C closure_states_vs_model_of_close {A.nstates}", s!"C closure_model_of_close_differs {v5.length}"]
    "\n".intercalate ([s!"M {modelLine P}", s!"S2 {specLine P}"] ++ (if vs.isEmpty then ["V ok"] else vs) ++ counts)

end GrmVerif.Drive.C16
