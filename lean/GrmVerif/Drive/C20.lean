import GrmVerif.Model.Width
import GrmVerif.Drive.Util
/-!
Driver for C20.  Requests (see `harness/src/props/c20.rs`):

* `0 fam p0…p7  eco hasImpl k nrules ntokens  nruns (cnt nsyms ntoksyms)*  stages nstates terr  acc8 acc16 acc32`
  — a grammar: generator descriptor (ignored here), the source counts, the productions run-length
  encoded, how many stages were attempted (1 grammar, 3 grammar+state graph+table), the state count
  and `StateTableError` flag of the widest (u32) build, and how many stages each width *accepted*;
* `1 n acc8 acc16 acc32` — a lexer definition with `n` rules;
* `2` — compare the guard conditions extracted from the sources with the shapes the model transcribes.

Reply: `M …` the faithful model's prediction (`Model/Width.lean`: guards as written, `as_()` as
truncation) and `S …` the specification's answer *given what each width accepted*: an accepted stage
must report the true sizes (`trueSizes`, the true state count) and these must fit `w` bits
(`must-refuse` otherwise); a refusal is always allowed.  `Props/C20.lean` equates the two.
-/
namespace GrmVerif.Drive.C20
open GrmVerif.Width GrmVerif.Drive

def expandRuns : List Nat → Nat → Option (List (Nat × Nat) × List Nat)
  | rest, 0 => some ([], rest)
  | cnt :: n :: t :: rest, k + 1 =>
    match expandRuns rest k with
    | some (l, r) => some (List.replicate cnt (n, t) ++ l, r)
    | none => none
  | _, _ + 1 => none

def fmtSizes (r : Sizes) : String :=
  s!"g:ok {r.rulesLen} {r.tokensLen} {r.prodsLen} {r.eofIdx} {r.startProd} {r.prodLens.foldl max 0} {r.prodLens.foldl (· + ·) 0}"

/-- decidable form of `Src.Fits`, written from the true sizes only (not from the guards) -/
def fitsB (w : Nat) (s : Src) : Bool :=
  decide (s.rulesTrue ≤ maxVal w) && decide (s.tokensTrue ≤ maxVal w) && decide (s.prodsTrue ≤ maxVal w) &&
    s.prodLens.all (fun l => decide (l ≤ maxVal w))

/-- faithful model, one width -/
def modelWidth (w : Nat) (s : Src) (stages nstates : Nat) (terr : Bool) : String :=
  match build w s with
  | none => s!"w{w} g:refused sg:- t:-"
  | some r =>
    let g := s!"w{w} {fmtSizes r}"
    if stages < 2 then g ++ " sg:- t:-"
    else
      -- the families of the harness create no unreachable states: pre = post = the u32 count
      match stategraph w nstates nstates with
      | none => g ++ " sg:refused t:-"
      | some n =>
        if stages < 3 then g ++ s!" sg:ok {n} t:-"
        else if tableOk w n r.rulesLen then g ++ s!" sg:ok {n} " ++ (if terr then "t:err" else "t:ok")
        else g ++ " sg:ok * t:refused"

/-- specification, one width, given how many stages the implementation accepted there -/
def specWidth (w : Nat) (s : Src) (stages nstates : Nat) (terr : Bool) (acc : Nat) : String :=
  if acc = 0 then s!"w{w} g:refused sg:- t:-"
  else
    let g := if fitsB w s then s!"w{w} {fmtSizes (trueSizes s)}" else s!"w{w} g:must-refuse"
    if stages < 2 then g ++ " sg:- t:-"
    else if acc = 1 then g ++ " sg:refused t:-"
    else
      let fits := decide (nstates ≤ maxVal w)
      if stages < 3 then g ++ (if fits then s!" sg:ok {nstates} t:-" else " sg:must-refuse t:-")
      else if acc = 2 then g ++ " sg:ok * t:refused"
      else g ++ (if fits then s!" sg:ok {nstates} " else " sg:must-refuse ") ++ (if terr then "t:err" else "t:ok")

def lexModel (w n : Nat) : String :=
  match lexIds w n with
  | some ids => s!"w{w} l:ok {ids.length} {ids.getLast?.getD 0}"
  | none => s!"w{w} l:refused"

def lexSpec (w n acc : Nat) : String :=
  if acc = 0 then s!"w{w} l:refused"
  else if n ≤ 2 ^ w then s!"w{w} l:ok {n} {n - 1}" else s!"w{w} l:must-refuse"

/-- The guard conditions that `Model/Width.lean` transcribes (`guardsPass`, `pagerPushOk`, `gcOk`,
`sgNewOk`, `tableOk`, `lexTokId`), in the form `tools/extract.py` copies them out of the Rust sources
into `Extracted.C20_GUARDS` on every run.  A difference means a guard was edited: the tie is broken
(the differential run then says whether behaviour changed). -/
def expectedGuards : List (String × String) :=
  [("grammar:this grammar's rules", "rule_names.len()+ast.rules.len()>max_len"),
   ("grammar:this grammar's tokens", "ast.tokens.len()+1>max_len"),
   ("grammar:this grammar's productions", "ast.prods.len()+extra_prods>max_len"),
   ("grammar:the symbols of at least one of this grammar's productions", "len>max_len"),
   ("pager:this stategraph", "core_states.len()>=num_traits::cast(StorageT::max_value()).unwrap()"),
   ("pager:this stategraph", "gc_states.len()>num_traits::cast(StorageT::max_value()).unwrap()"),
   ("stategraph:assert", "states.len()<num_traits::cast(StorageT::max_value()).unwrap()"),
   ("statetable:assert", "sg.all_states_len().as_storaget()<StorageT::max_value()-StorageT::one()"),
   ("lexer:tok_id", "LexerTypesT::StorageT::try_from(rules_len)")]

def shapeReply : String :=
  if Extracted.C20_GUARDS = expectedGuards then "M shape ok"
  else
    let diff := (Extracted.C20_GUARDS.zip expectedGuards).find? (fun (a, b) => a != b)
    match diff with
    | some (a, b) => s!"M shape differs: source has [{a.1}] {a.2} / model transcribes [{b.1}] {b.2}"
    | none => s!"M shape differs: {Extracted.C20_GUARDS.length} guards in the source, {expectedGuards.length} transcribed"

def handle (args : List Nat) : String :=
  match args with
  | [2] => shapeReply
  | 1 :: n :: a8 :: a16 :: a32 :: _ =>
    s!"M {lexModel 8 n} {lexModel 16 n} {lexModel 32 n}\nS {lexSpec 8 n a8} {lexSpec 16 n a16} {lexSpec 32 n a32}"
  | 0 :: _fam :: _ :: _ :: _ :: _ :: _ :: _ :: _ :: _ :: eco :: hasImpl :: k :: nrules :: ntokens :: nruns :: rest =>
    match expandRuns rest nruns with
    | some (prods, stages :: nstates :: terr :: a8 :: a16 :: a32 :: _) =>
      let s : Src := { rules := nrules, tokens := ntokens, prods := prods, eco := eco != 0,
                       implicit := if hasImpl != 0 then some k else none }
      let te := terr != 0
      let m := s!"M {modelWidth 8 s stages nstates te} {modelWidth 16 s stages nstates te} {modelWidth 32 s stages nstates te}"
      let sp := s!"S {specWidth 8 s stages nstates te a8} {specWidth 16 s stages nstates te a16} {specWidth 32 s stages nstates te a32}"
      m ++ "\n" ++ sp ++
        s!"\nX true-sizes rules {s.rulesTrue} tokens {s.tokensTrue} prods {s.prodsTrue} fits8 {fitsB 8 s} fits16 {fitsB 16 s} fits32 {fitsB 32 s} old-guards8 {guardsPassOld 8 s} old-guards16 {guardsPassOld 16 s}"
    | _ => "bad-request"
  | _ => "bad-request"

end GrmVerif.Drive.C20
