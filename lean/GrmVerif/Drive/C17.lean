import GrmVerif.Model.AnalysesRef
import GrmVerif.Model.FirstsFollowsImpl
import GrmVerif.Model.CostsImpl
import GrmVerif.Lemmas.MinSentenceTerm
import GrmVerif.Lemmas.MinSentencesTerm
import GrmVerif.Model.Recog
import GrmVerif.Drive.Util
/-!
Driver for C17. Request: `<grammar> ntoks×cost nrules×mincost nrules×maxcost nrules×minsent nrules×minsents`
(answers of the implementation; 70001 = did not return, 70002 = panicked, 70003 = `None`).
Reply: `S eps … first … follow … path …` from the verified reference analyses (compared for equality
with the implementation's `I` line), `Mf eps … first … follow …` from the faithful models of
`YaccFirsts::new` / `YaccFollows::new` (`Model/FirstsFollowsImpl.lean`, run with the fuel that
`firsts_impl_exact` / `follows_impl_exact` prove sufficient; compared with the implementation's `If`
line), `Mc path … mincost … maxcost … minsent … minsents …` from the faithful models of `has_path`,
`rule_min_costs`, `rule_max_costs`, `min_sentence` and `min_sentences` (`Model/CostsImpl.lean`,
`Model/MinSentencesImpl.lean`; compared with the implementation's `Ic` line), and `V` verdicts on the cost
answers. Every `V fail` is backed by a
verified certificate (`min_cost_exact`, `max_cost_upper_bound`, `recog_sound`); only the *acceptance*
of a `None` maximal cost rests on the unproved growth analysis below.
-/
namespace GrmVerif.Drive.C17
open GrmVerif GrmVerif.Ref GrmVerif.Drive GrmVerif.Fix

def bitsOf (l : List Bool) : String := String.ofList (l.map (fun b => if b then '1' else '0'))

def HUNG := 70001
def PANIC := 70002
def NONE := 70003
/-- sentence query skipped by the harness because the implementation itself says the rule derives
no sentence (min cost `u16::MAX`) -/
def SKIPPED := 70004

/-- `nrules ×` sentence answers: `70001 | 70002 | 0 len tok…` -/
def parseSents : Nat → List Nat → Option (List (Sum Nat (List Nat)) × List Nat)
  | 0, rest => some ([], rest)
  | n + 1, 0 :: rest =>
    match takeList rest with
    | none => none
    | some (w, rest') =>
      match parseSents n rest' with
      | none => none
      | some (ws, r) => some (.inr w :: ws, r)
  | n + 1, c :: rest =>
    match parseSents n rest with
    | none => none
    | some (ws, r) => some (.inl c :: ws, r)
  | _, [] => none

def parseMany : Nat → List Nat → Option (List (List Nat) × List Nat)
  | 0, rest => some ([], rest)
  | n + 1, rest =>
    match takeList rest with
    | none => none
    | some (w, rest') =>
      match parseMany n rest' with
      | none => none
      | some (ws, r) => some (w :: ws, r)

/-- `nrules ×` sentence-set answers: `70001 | 70002 | 0 count (len tok…)*` -/
def parseSentSets : Nat → List Nat → Option (List (Sum Nat (List (List Nat))) × List Nat)
  | 0, rest => some ([], rest)
  | n + 1, 0 :: k :: rest =>
    match parseMany k rest with
    | none => none
    | some (ws, rest') =>
      match parseSentSets n rest' with
      | none => none
      | some (xs, r) => some (.inr ws :: xs, r)
  | n + 1, c :: rest =>
    match parseSentSets n rest with
    | none => none
    | some (xs, r) => some (.inl c :: xs, r)
  | _, [] => none

def costOf (tc : Nat → Nat) (w : List Nat) : Nat := (w.map tc).sum

/-! ### growth analysis for "unbounded" (reference only, not proved) -/

def posSet (G : Grammar) (tc : Nat → Nat) (prodv : Nat → Bool) : List Nat :=
  (lfp (List.range G.nrules) (posDerive G tc prodv) (G.nrules + 1) []).getD []

def symPos (tc : Nat → Nat) (pos : Nat → Bool) : Sym → Bool
  | .tok t => tc t > 0
  | .rule q => pos q

/-- rule symbols of usable production `p` with whether the rest of the production can grow -/
def prodEdges (G : Grammar) (tc : Nat → Nat) (pos : Nat → Bool) (p : Nat) : List (Nat × Bool) :=
  let rhs := G.rhs p
  (List.range rhs.length).filterMap (fun i =>
    match (rhs[i]? : Option Sym) with
    | some (Sym.rule y) =>
      some (y, (List.range rhs.length).any (fun j => j != i && symPos tc pos (rhs.getD j (.tok 0))))
    | _ => none)

def usableEdges (G : Grammar) (tc : Nat → Nat) (prodv pos : Nat → Bool) (x : Nat) : List (Nat × Bool) :=
  (G.prodsOf x).flatMap (fun p => if usableProd G prodv p then prodEdges G tc pos p else [])

def reachStarDerive (G : Grammar) (tc : Nat → Nat) (prodv pos : Nat → Bool) (a : Nat) (S : Nat → Bool) (b : Nat) : Bool :=
  b == a || (List.range G.nrules).any (fun c => S c && (usableEdges G tc prodv pos c).any (fun e => e.1 == b))

def reachStar (G : Grammar) (tc : Nat → Nat) (prodv pos : Nat → Bool) (a : Nat) : List Nat :=
  (lfp (List.range G.nrules) (reachStarDerive G tc prodv pos a) (G.nrules + 2) []).getD []

def cycGrowing (G : Grammar) (tc : Nat → Nat) (prodv pos : Nat → Bool) (x : Nat) : Bool :=
  (usableEdges G tc prodv pos x).any (fun e => e.2 && (reachStar G tc prodv pos e.1).contains x)

def unboundedRef (G : Grammar) (tc : Nat → Nat) (prodv pos : Nat → Bool) (r : Nat) : Bool :=
  prodv r && (reachStar G tc prodv pos r).any (cycGrowing G tc prodv pos)

/-! ### the "tight" graph: which rules a minimal derivation of `r` can visit -/

def ruleSyms (l : List Sym) : List Nat :=
  l.filterMap (fun s => match s with | .rule q => some q | .tok _ => none)

/-- productions of `r` whose cost equals the minimal cost of `r` -/
def tightProds (G : Grammar) (tc : Nat → Nat) (c : Nat → Option Nat) (r : Nat) : List Nat :=
  (G.prodsOf r).filter (fun p => (c r).isSome && seqCost tc c (G.rhs p) == c r)

/-- `first = true`: only the first cheapest production of each rule (what `min_sentence` follows);
`false`: every cheapest production (what `min_sentences` follows) -/
def tightSucc (G : Grammar) (tc : Nat → Nat) (c : Nat → Option Nat) (first : Bool) (r : Nat) : List Nat :=
  let ps := tightProds G tc c r
  ((if first then ps.take 1 else ps).flatMap (fun p => ruleSyms (G.rhs p)))

def tightReachDerive (G : Grammar) (tc : Nat → Nat) (c : Nat → Option Nat) (first : Bool) (a : Nat)
    (S : Nat → Bool) (b : Nat) : Bool :=
  (tightSucc G tc c first a).contains b ||
  (List.range G.nrules).any (fun x => S x && (tightSucc G tc c first x).contains b)

def tightReach (G : Grammar) (tc : Nat → Nat) (c : Nat → Option Nat) (first : Bool) (a : Nat) : List Nat :=
  (lfp (List.range G.nrules) (tightReachDerive G tc c first a) (G.nrules + 2) []).getD []

/-- a minimal derivation of `r` (following first / all cheapest productions) can revisit a rule -/
def tightCycle (G : Grammar) (tc : Nat → Nat) (c : Nat → Option Nat) (first : Bool) (r : Nat) : Bool :=
  (r :: tightReach G tc c first r).any (fun x => (tightReach G tc c first x).contains x)

/-- the `Mf` line: epsilon, FIRST and FOLLOW bits as computed by the models of the Rust loops -/
def modelLine (G : Grammar) : String :=
  let rules := List.range G.nrules
  let toks := List.range G.ntoks
  match Impl.firstsNew G (Impl.firstsFuel G) with
  | .panic => "Mf firsts-panic"
  | .fuelOut => "Mf firsts-fuel-exhausted"
  | .done fst =>
    match Impl.followsNew G fst (Impl.followsFuel G) with
    | .panic => "Mf follows-panic"
    | .fuelOut => "Mf follows-fuel-exhausted"
    | .done w =>
      let eps := rules.map (fun r => fst.isEpsilonSet r)
      let first := rules.flatMap (fun r => toks.map (fun t => fst.isSet r t))
      let follow := rules.flatMap (fun r => toks.map (fun t => Impl.mget w r t))
      s!"Mf eps {bitsOf eps} first {bitsOf first} follow {bitsOf follow}"

def showOutcomeBit : Impl.Outcome Bool → String
  | .done true => "1"
  | .done false => "0"
  | .panic => "P"
  | .fuelOut => "H"

def showSent (w : List Nat) : String := "[" ++ ",".intercalate (w.map toString) ++ "]"

/-- the `Mc` line: `has_path` bits, `rule_min_costs`, `rule_max_costs` (as `max_sentence_cost` reports
them), `min_sentence` and `min_sentences` of every rule as computed by the models of `Model/CostsImpl.lean`
and `Model/MinSentencesImpl.lean`, each run with
the fuel the theorems of `Props/C17.lean` prove sufficient; `dbg = true` because the harness builds
cfgrammar with its debug assertions on -/
def costModelLine (G : Grammar) (tc : List Nat) : String :=
  let rules := List.range G.nrules
  let path := String.join (rules.flatMap (fun a => rules.map (fun b =>
    showOutcomeBit (Impl.hasPath G a b (Impl.hasPathFuel G)))))
  let mcO := Impl.ruleMinCosts G tc (Impl.minCostsFuel G)
  let minc := match mcO with
    | .done v => " ".intercalate (v.map toString)
    | .panic => " ".intercalate (rules.map (fun _ => "P"))
    | .fuelOut => " ".intercalate (rules.map (fun _ => "H"))
  let maxc := match Impl.ruleMaxCosts G tc true (Impl.maxCostsFuel G) with
    | .done v => " ".intercalate (v.map (fun x => if x = Impl.U16MAX then "N" else toString x))
    | .panic => " ".intercalate (rules.map (fun _ => "P"))
    | .fuelOut => " ".intercalate (rules.map (fun _ => "H"))
  -- `min_sentence_impl_terminates_iff`: when `tightInf` holds the model runs out of every fuel (`H` without
  -- running it), otherwise `minSentenceFuel` iterations suffice
  let sentOf (mc : Option (List Nat)) (r : Nat) : String :=
    if mc.isSome && Impl.tightInf G tc mc r then "H" else
    match Impl.minSentenceWith G tc mc r (Impl.minSentenceFuel G) with
    | .done w => showSent w
    | .panic => "P"
    | .fuelOut => "H"
  -- the harness first asks `min_sentence_cost(r)`: `u16::MAX` = no sentence to generate (`U`); if that
  -- call panics it still asks for the sentence (`rule_min_costs` is only run when a cost is needed)
  let sent := match mcO with
    | .done mc => " ".intercalate (rules.map (fun r =>
        if mc.getD r 0 = Impl.U16MAX then "U" else sentOf (some mc) r))
    | .panic => " ".intercalate (rules.map (sentOf none))
    | .fuelOut => " ".intercalate (rules.map (fun _ => "H"))
  -- `min_sentences_impl_terminates_iff`: when `tightInfAll` holds the model of `min_sentences` runs out of
  -- every recursion depth (`H` without running it), otherwise the depth `minSentencesFuel` suffices; the
  -- harness records the first 40 sentences of the returned vector and the count capped at 40
  let sentsOf (mc : Option (List Nat)) (r : Nat) : String :=
    if mc.isSome && Impl.tightInfAll G tc mc r then "H" else
    match Impl.minSentencesWith G tc mc (Impl.minSentencesFuel G) r with
    | .done ws => toString (min ws.length 40) ++ ":" ++ String.join ((ws.take 40).map showSent)
    | .panic => "P"
    | .fuelOut => "H"
  let sents := match mcO with
    | .done mc => " ".intercalate (rules.map (fun r =>
        if mc.getD r 0 = Impl.U16MAX then "U" else sentsOf (some mc) r))
    | .panic => " ".intercalate (rules.map (sentsOf none))
    | .fuelOut => " ".intercalate (rules.map (fun _ => "H"))
  s!"Mc path {path} mincost {minc} maxcost {maxc} minsent {sent} minsents {sents}"

def handle (args : List Nat) : String :=
  match parseGrammar args with
  | none => "bad-request"
  | some (G, rest) =>
    if !G.wf then "V fail dumped grammar is not well-formed (index out of range)" else
    let costs := rest.take G.ntoks
    let rest := rest.drop G.ntoks
    let minI := rest.take G.nrules
    let rest := rest.drop G.nrules
    let maxI := rest.take G.nrules
    let rest := rest.drop G.nrules
    match parseSents G.nrules rest with
    | none => "bad-request"
    | some (sentI, rest) =>
    match parseSentSets G.nrules rest with
    | none => "bad-request"
    | some (sentsI, _) =>
    let tc : Nat → Nat := fun t => costs.getD t 1
    let rules := List.range G.nrules
    -- exact analyses
    let sLine :=
      match analyses G with
      | none => "S fuel-exhausted"
      | some A =>
        let eps := rules.map (fun r => A.nullable.contains r)
        let first := rules.flatMap (fun r => (List.range G.ntoks).map (fun t => A.first.contains (r, t)))
        let follow := rules.flatMap (fun r => (List.range G.ntoks).map (fun t => A.follow.contains (r, t)))
        let path := rules.flatMap (fun a =>
          match reach G a with
          | none => rules.map (fun _ => false)
          | some R => rules.map (fun b => R.contains b))
        s!"S eps {bitsOf eps} first {bitsOf first} follow {bitsOf follow} path {bitsOf path}"
    let sLine := sLine ++ "\n" ++ modelLine G ++ "\n" ++ costModelLine G costs
    -- costs
    match minCosts G tc with
    | none => sLine ++ "\nV fail reference minimal costs: fuel exhausted"
    | some c =>
      let prodv : Nat → Bool := fun q => (look c q).isSome
      let anyUnprod := rules.any (fun r => !prodv r)
      let maxRhs := (G.prods.map (fun pr => pr.2.length)).foldl max 0
      let fuel := G.nrules * (maxRhs + 2) + 4
      -- a minimal sentence can only use productions whose cost is the minimal cost of their rule
      let tightTbl := (List.range G.nprods).map (fun p => seqCost tc (look c) (G.rhs p) == look c (G.lhs p))
      let tight : Nat → Bool := fun p => tightTbl.getD p false
      let anyProd : Nat → Bool := fun _ => true
      -- every minimal cost fits a `u16`, yet the model of `rule_min_costs` panics (a sum overflows)
      let minAllFit := c.all (fun o => match o with | some v => v < Impl.U16MAX | none => true)
      let modelMinPanics := match Impl.ruleMinCosts G costs (Impl.minCostsFuel G) with
        | .panic => true
        | _ => false
      let minV := rules.filterMap (fun r =>
        let a := minI.getD r HUNG
        match look c r with
        | none => if a == HUNG then some s!"V fail mincost-hang rule={r} (rule derives no string)" else none
        | some v =>
          if a == HUNG then some s!"V fail mincost-hang rule={r} true={v}"
          else if a == PANIC then
            some (if anyUnprod then s!"V fail mincost-panic-unproductive-elsewhere rule={r} true={v}"
                  else if minAllFit && modelMinPanics then
                    s!"V fail mincost-overflow-dearer-production rule={r} true={v}"
                  else s!"V fail mincost-panic rule={r} true={v}")
          else if a != v then some s!"V fail mincost-wrong rule={r} impl={a} true={v}"
          else none)
      -- maximal costs
      let pos := posSet G tc prodv
      let posf : Nat → Bool := fun q => pos.contains q
      -- tables (computed once per request)
      let starTbl := rules.map (reachStar G tc prodv posf)
      let cycTbl := rules.map (fun x =>
        (usableEdges G tc prodv posf x).any (fun e => e.2 && (starTbl.getD e.1 []).contains x))
      let unbTbl := rules.map (fun r => prodv r && (starTbl.getD r []).any (fun x => cycTbl.getD x false))
      let unb : Nat → Bool := fun r => unbTbl.getD r false
      let m := maxIter G tc (G.nrules + 3) (List.replicate G.nrules none)
      let refTbl := rules.map (fun r => if unb r then none else (lookM m r).map (·.1))
      let refUb : Nat → Option Nat := fun r => (refTbl[r]?).getD none
      let refCertOk := upperBoundOk G tc prodv refUb
      let implUb : Nat → Option Nat := fun r =>
        let a := maxI.getD r HUNG
        if a ≥ HUNG then none else some a
      let implCertOk := upperBoundOk G tc prodv implUb
      let reachTbl := rules.map (fun r => (reach G r).getD [])
      let recTbl := rules.map (fun r =>
        (reachTbl.getD r []).any (fun x => x == r || (reachTbl.getD x []).contains x))
      let recursive : Nat → Bool := fun r => recTbl.getD r false
      let maxV := rules.filterMap (fun r =>
        let a := maxI.getD r HUNG
        if !prodv r then (if a == HUNG then some s!"V fail maxcost-hang rule={r}" else none)
        else if a == HUNG then some s!"V fail maxcost-hang rule={r}"
        else if a == PANIC then some s!"V fail maxcost-panic rule={r}"
        else if a == NONE then
          match refUb r with
          | none => none
          | some v =>
            if refCertOk then
              some (if recursive r then s!"V fail maxcost-none-for-bounded-recursive rule={r} true-max<={v}"
                    else s!"V fail maxcost-none-for-bounded rule={r} true-max<={v}")
            else none
        else
          -- a finite claim: refute with a witness string of larger cost, or with a smaller proven bound
          match lookM m r with
          | some (v, w) =>
            if v > a && w.length ≤ 40 && recogSym G anyProd (fuel + w.length) (.rule r) w && costOf tc w == v then
              some s!"V fail maxcost-too-small rule={r} impl={a} witness-cost={v}"
            else if v < a && refCertOk && refUb r == some v then
              some s!"V fail maxcost-too-big rule={r} impl={a} true-max<={v}"
            else if v == a && !implCertOk && !refCertOk then none
            else none
          | none => none)
      -- generated sentences
      let sentV := rules.filterMap (fun r =>
        match look c r, sentI.getD r (.inl HUNG) with
        | none, .inl a => if a == HUNG then some s!"V fail minsent-hang-for-underivable rule={r}" else none
        | none, .inr w => some s!"V fail minsent-for-underivable rule={r} sentence={w}"
        | some v, .inl a =>
          if a == SKIPPED then none
          else some (if a == HUNG then
                  (if tightCycle G tc (look c) true r then s!"V fail minsent-hang-tight-cycle rule={r}"
                   else s!"V fail minsent-hang rule={r}")
                else if minAllFit && modelMinPanics then
                  s!"V fail mincost-overflow-dearer-production rule={r} true={v} (min_sentence asks for a cost)"
                else s!"V fail minsent-panic rule={r}")
        | some v, .inr w =>
          if costOf tc w != v then some s!"V fail minsent-cost rule={r} sentence={w} cost={costOf tc w} min={v}"
          else if !recogSym G tight (fuel + w.length) (.rule r) w then some s!"V fail minsent-not-derivable rule={r} sentence={w}"
          else none)
      let sentsV := rules.filterMap (fun r =>
        match look c r, sentsI.getD r (.inl HUNG) with
        | none, .inl a => if a == HUNG then some s!"V fail minsents-hang-for-underivable rule={r}" else none
        | none, .inr ws => if ws.isEmpty then none else some s!"V fail minsents-for-underivable rule={r}"
        | some v, .inl a =>
          if a == SKIPPED then none
          else some (if a == HUNG then
                  (if tightCycle G tc (look c) false r then s!"V fail minsents-hang-tight-cycle rule={r}"
                   else s!"V fail minsents-hang rule={r}")
                else if minAllFit && modelMinPanics then
                  s!"V fail mincost-overflow-dearer-production rule={r} true={v} (min_sentences asks for a cost)"
                else s!"V fail minsents-panic rule={r}")
        | some v, .inr ws =>
          if ws.isEmpty then some s!"V fail minsents-empty rule={r}"
          else
            match ws.find? (fun w => costOf tc w != v || !recogSym G tight (fuel + w.length) (.rule r) w) with
            | some w => some s!"V fail minsents-wrong rule={r} sentence={w} min={v}"
            | none => none)
      let vs := minV ++ maxV ++ sentV ++ sentsV
      let info := s!"X mincost {c.map optNat} maxref {rules.map (fun r => optNat (refUb r))} unproductive={anyUnprod} refCert={refCertOk} implCert={implCertOk}"
      sLine ++ "\n" ++ (if vs.isEmpty then "V ok" else "\n".intercalate vs) ++ "\n" ++ info

end GrmVerif.Drive.C17
