import GrmVerif.Model.YaccBuild
import GrmVerif.Lemmas.YaccBuild
import GrmVerif.Model.YaccLex
import GrmVerif.Extracted
import GrmVerif.Drive.Util
import GrmVerif.Drive.C10T
/-!
Driver for C10.

Request `0 <kind> <ast>`: the abstract AST of a generated grammar (what the generator's text-layer
oracle says the parser must have produced), `kind` 0-2 Original (GenericParseTree / NoAction / UserAction) / 3 Grmtools / 4 Eco; the AST is followed
by harness-only extras (defining-text ends, `%parse-param`, programs, the source text) that make the
request replayable and are not read here. Reply `M …`: every
field of `buildGrammar` in the format of the harness' `I` line (which is read off the real
`YaccGrammar` through its public accessors).

    str   = len cp…            span = start end          opt x = 0 | 1 x
    ast   = opt(str span)                                   start
            n × (str span  k pidx…  opt str)                rules
            n × (k × (tag str span)  opt str  opt(str span)  span)   prods (tag 0 rule, 1 token)
            n × (str span)                                   tokens
            n × (str level kind)                             precs
            opt(n × str)  opt(n × str)                       avoid_insert, implicit_tokens (iteration order)
            n × (str str)                                    epp
            opt nat  opt nat                                 expect, expect-rr
-/
namespace GrmVerif.Drive.C10
open GrmVerif GrmVerif.YaccBuild GrmVerif.Drive

abbrev P := StateT (List Nat) Option

def nat : P Nat := fun s => match s with | [] => none | x :: r => some (x, r)
def str : P Str := fun s => match s with
  | [] => none
  | n :: r => if r.length < n then none else some (r.take n, r.drop n)
def span : P Span := do let a ← nat; let b ← nat; pure (a, b)
def opt {α : Type} (p : P α) : P (Option α) := do
  let t ← nat
  if t == 0 then pure none else do let x ← p; pure (some x)
def many {α : Type} (p : P α) : Nat → P (List α)
  | 0 => pure []
  | n + 1 => do let x ← p; let xs ← many p n; pure (x :: xs)
def listOf {α : Type} (p : P α) : P (List α) := do let n ← nat; many p n

def sym : P ASym := do
  let t ← nat; let n ← str; let sp ← span
  pure (if t == 0 then .rule n sp else .tok n sp)

def prod : P AProd := do
  let syms ← listOf sym
  let prec ← opt str
  let action ← opt (do let s ← str; let sp ← span; pure (s, sp))
  let sp ← span
  pure { syms, prec, action, span := sp }

def rule : P ARule := do
  let name ← str; let nameSpan ← span; let pidxs ← listOf nat; let actiont ← opt str
  pure { name, nameSpan, pidxs, actiont }

def ast : P AST := do
  let start ← opt (do let s ← str; let sp ← span; pure (s, sp))
  let rules ← listOf rule
  let prods ← listOf prod
  let tokens ← listOf (do let s ← str; let sp ← span; pure (s, sp))
  let precs ← listOf (do let s ← str; let l ← nat; let k ← nat; pure (s, (⟨l, k⟩ : Prec)))
  let avoidInsert ← opt (listOf str)
  let implicitTokens ← opt (listOf str)
  let epp ← listOf (do let k ← str; let v ← str; pure (k, v))
  let expect ← opt nat
  let expectrr ← opt nat
  pure { start, rules, prods, tokens, precs, avoidInsert, implicitTokens, epp, expect, expectrr }

def realCfg : Cfg :=
  { startRule := Extracted.YACC_START_RULE, implicitRule := Extracted.YACC_IMPLICIT_RULE,
    implicitStartRule := Extracted.YACC_IMPLICIT_START_RULE }

def fStr (s : Str) : String := "s" ++ ".".intercalate (s.map toString)
def fOpt {α : Type} (f : α → String) : Option α → String
  | none => "N"
  | some x => f x
def fSpan (s : Span) : String := s!"{s.1}-{s.2}"
def fPrec (p : Prec) : String := s!"p{p.level},{p.kind}"
def fSym : Sym → String
  | .tok t => s!"t{t}"
  | .rule r => s!"r{r}"

def fGrammar (g : IGrammar) : String :=
  let hd := s!"nr {g.rulesLen} nt {g.tokensLen} np {g.prodsLen} eof {g.eof} sp {g.startProd} " ++
    s!"sr {(g.prodsRules[g.startProd]?).elim "X" toString} ir {fOpt toString g.implicitRule} " ++
    s!"ex {fOpt toString g.expect} err {fOpt toString g.expectrr}"
  let rs := (List.range g.rulesLen).map (fun r =>
    let nm := g.ruleNames[r]?
    s!"R {fOpt (fun x => fStr x.1) nm} {fOpt (fun x => fSpan x.2) nm} at {(g.actiontypes[r]?).elim "X" (fOpt fStr)} " ++
    s!"ps {(g.rulesProds[r]?).elim "X" (fun l => " ".intercalate (toString l.length :: l.map toString))}")
  let ts := (List.range g.tokensLen).map (fun t =>
    let nm := (g.tokenNames[t]?).getD none
    s!"T {fOpt (fun x => fStr x.2) nm} {fOpt (fun x => fSpan x.1) nm} {(g.tokenPrecs[t]?).elim "X" (fOpt fPrec)} " ++
    s!"{(g.tokenEpp[t]?).elim "X" (fOpt fStr)} {match g.avoidInsert with | none => "0" | some v => (v[t]?).elim "X" (fun b => if b then "1" else "0")}")
  let ps := (List.range g.prodsLen).map (fun p =>
    match g.recs[p]? with
    | none => "P X"
    | some r =>
      s!"P {r.rule} {" ".intercalate (toString r.rhs.length :: r.rhs.map fSym)} {fOpt fPrec r.prec} " ++
      s!"{fOpt fStr r.action} {fOpt (fun _ => "A") r.actionSpan} {fSpan r.span}")
  " ".intercalate (hd :: rs ++ ts ++ ps)

/-! ### what the PROPERTY prescribes, read off the AST directly (not through the model of the builder):
the multiset of productions as (rule name, symbol names, precedence of the `%prec` token, else of the
LAST token) and the token list in source order with declared precedence and `%avoid_insert` flag -/

def symName : ASym → String
  | .tok n _ => "t" ++ fStr n
  | .rule n _ => "r" ++ fStr n

def specProds (a : AST) : String :=
  let items := a.rules.flatMap (fun r => r.pidxs.filterMap (fun i => (a.prods[i]?).map (fun p =>
    let pr : Option Prec := match p.prec with
      | some n => assoc a.precs n
      | none => (lastTok p.syms).bind (assoc a.precs)
    s!"{fStr r.name} {p.syms.length} {" ".intercalate (p.syms.map symName)} {fOpt fPrec pr}")))
  ";".intercalate (items.mergeSort (fun x y => x < y || x == y))

def specToks (a : AST) : String :=
  ";".intercalate (a.tokens.map (fun t =>
    s!"{fStr t.1} {fOpt fPrec (assoc a.precs t.1)} {if (a.avoidInsert.getD []).contains t.1 then 1 else 0}"))

def handleBuild (args : List Nat) : String :=
  match args with
  | k :: rest =>
    match (ast.run rest) with
    | some (a, _) =>
      let kind := if k < 3 then Kind.original else if k == 3 then Kind.grmtools else Kind.eco
      let spec := if k == 4 then "" else s!"\nSpp {specProds a}\nStk {specToks a}"
      match buildGrammar realCfg a kind with
      | some g => "M " ++ fGrammar g ++ spec
      | none => "M panic"
    | _ => "bad-request"
  | _ => "bad-request"

/-! Request `3 …` (text → AST stage: rendered rules section, model parse, image) is handled by
`Drive/C10T.lean`. -/

/-- Request `2 inc <layout> <post>`: the model of `parse_ws` on `layout ++ post`, expressed as what a
whole parse shows of it. `inc = 1`: the layout stands between `A:` and `'a';` — `ok j` (the production
starts at `j`) when exactly the layout is skipped, `Illegal string` at the stopping offset when
skipping stops early, the skipper's own error otherwise. `inc = 0`: between `%start` and the name. -/
def handleWs (args : List Nat) : String :=
  match args with
  | inc :: rest =>
    match (do let w ← str; let post ← str; pure (w, post)).run rest with
    | some ((w, post), _) =>
      let wl := w.map Char.ofNat
      let text := wl ++ post.map Char.ofNat
      match YaccLex.parseWs (inc == 1) text with
      | .ok (n, _, _) =>
        if n == YaccLex.byteLen wl then s!"M ok {n}"
        else if inc == 1 && n == YaccLex.byteLen text then s!"M err Incomplete_rule {n}"
        else if inc == 1 then s!"M err Illegal_string {n}" else s!"M err Illegal_name {n}"
      | .error (.incompleteComment, p) => s!"M err Incomplete_comment {p}"
      | .error (.reachedEOL, p) => s!"M err Reached_end_of_line_without_finding_expected_content {p}"
      | .error (_, p) => s!"M err other {p}"
    | none => "bad-request"
  | _ => "bad-request"

def handle (args : List Nat) : String :=
  match args with
  | 0 :: rest => handleBuild rest
  | 1 :: _ => "X witness (harness-side metamorphic check)"
  | 2 :: rest => handleWs rest
  | 3 :: rest => C10T.handle rest
  | 4 :: rest => C10T.handleFile rest
  | _ => "bad-request"

end GrmVerif.Drive.C10
