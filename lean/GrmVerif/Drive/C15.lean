import GrmVerif.Lemmas.OrderIndep
import GrmVerif.Drive.Util
/-!
Driver for C15. Request
  `ntoks base nproc { has k o₁…o_k a a₁…a_a hasai }*nproc  nstates start { deg tgt* }*nstates`
(per process: the observed iteration orders of `ast.implicit_tokens` and `ast.avoid_insert` as token
indices). Reply:
* `M …` the model of the (repaired) code applied to each observed order,
* `S …` the specification (`implicitProdsSpec`, `avoidInsertSpec`: no reference to any order),
* `V ok|fail` the verified reachability function on the dumped edges: every state of the graph the
  implementation kept is reachable from the start state and nothing else is (postcondition of `gc`).
-/
namespace GrmVerif.Drive.C15
open GrmVerif.OrderIndep GrmVerif.Drive

def fmtProds (p : List (Nat × Nat) × Nat) : String :=
  s!"p {p.1.length}" ++ String.join (p.1.map (fun (i, t) => s!" {i} {t} {implicitRidx}")) ++ s!" e {p.2}"

def fmtBits (v : List Bool) : String := String.ofList (v.map (fun b => if b then '1' else '0'))

structure Proc where
  has : Bool
  order : List Nat
  ai : List Nat
  hasai : Bool

def parseProcs : Nat → List Nat → Option (List Proc × List Nat)
  | 0, rest => some ([], rest)
  | n + 1, has :: rest =>
    match takeList rest with
    | none => none
    | some (o, rest) =>
      match takeList rest with
      | some (a, hasai :: rest) =>
        match parseProcs n rest with
        | some (ps, rest) => some ({ has := has != 0, order := o, ai := a, hasai := hasai != 0 } :: ps, rest)
        | none => none
      | _ => none
  | _, _ => none

def parseEdges : Nat → List Nat → Option (List (List Nat))
  | 0, _ => some []
  | n + 1, rest =>
    match takeList rest with
    | none => none
    | some (e, rest) => (parseEdges n rest).map (e :: ·)

def handle (args : List Nat) : String :=
  match args with
  | ntoks :: base :: nproc :: rest =>
    match parseProcs nproc rest with
    | none => "bad-request"
    | some (procs, rest) =>
      match rest with
      | nstates :: start :: rest =>
        match parseEdges nstates rest with
        | none => "bad-request"
        | some es =>
          let m := procs.map (fun p =>
            (if p.has then fmtProds (implicitProds base p.order) else "p -") ++ " ai " ++
            (if p.hasai then fmtBits (avoidInsert ntoks p.ai) else "-"))
          let s := procs.map (fun p =>
            (if p.has then fmtProds (implicitProdsSpec base ntoks p.order) else "p -") ++ " ai " ++
            (if p.hasai then fmtBits (avoidInsertSpec ntoks p.ai) else "-"))
          let earr := es.toArray
          let v :=
            if nstates = 0 then "V ok no-graph"
            else
              match gcLoop (fun s => earr.getD s []) id (nstates + 2) [start] [] with
              | none => "V fail reachability did not finish within nstates+2 rounds"
              | some r =>
                match (List.range nstates).find? (fun i => !r.contains i) with
                | some i => s!"V fail state {i} is not reachable from the start state {start} (gc postcondition)"
                | none =>
                  match r.find? (fun i => decide (nstates ≤ i)) with
                  | some i => s!"V fail edge to a state {i} outside the graph"
                  | none => "V ok"
          "M " ++ " ; ".intercalate m ++ "\nS " ++ " ; ".intercalate s ++ "\n" ++ v
      | _ => "bad-request"
  | _ => "bad-request"

end GrmVerif.Drive.C15
