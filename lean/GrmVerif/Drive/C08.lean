import GrmVerif.Model.ActionsSpec
import GrmVerif.Model.RecActions
import GrmVerif.Lemmas.RecActions5
import GrmVerif.Lemmas.KeptCert
import GrmVerif.Drive.Util
/-!
Driver for C08. Request: `<grammar> <automaton> stride toklen ninputs` then per input
`len tok… | mode | kind [tree log]` (`mode` 0 recovery off / 1 CPCT+; `kind` 0 no value, 1 value with
tree and action log of the implementation, 2 not run). Trees: `0 tok idx` leaf (inserted lexemes:
`idx = 1000000 + start byte`), `1 p n kid…` node. Log: `ncalls (p r start end nargs arg…)*`, arg =
`0 tok idx` | `1 <tree>`. For `mode = 1`, `kind = 1` the reported errors follow:
`nerr (laidx nseq (len (op arg)…)…)…` (`op` 0 insert t / 1 delete idx / 2 shift idx).
Reply: `M k <log>` the model's action log for recovery-off inputs (`Act.parseA`; compared with the
implementation's `I` lines); `Mr k <log> | <tree>` for the inputs run under recovery: log and returned
value of the model of the recovering driver `RecAct.recRunA`, whose recoverer answers, at a reported
error position, the reported sequences (the model replays the FIRST one in value mode) — compared with
the implementation's `Ir` lines exactly; `V` the specification's verdict on the implementation's
(tree, log), both modes, and — on tables with `C05.wholeRunCert`, the hypothesis of
`C08.recovering_actions_are_actions_of_edited_input_certified` — the verdict "the model's log and value
under recovery are those of `parseA` on the edited input" (the theorem's right-hand side evaluated).
-/
namespace GrmVerif.Drive.C08
open GrmVerif GrmVerif.Act GrmVerif.Drive GrmVerif.LR GrmVerif.Rec GrmVerif.RecAct

def FAULTY := 1000000

def lexSpanOf (stride toklen : Nat) (idx : Nat) : Nat × Nat :=
  if idx ≥ FAULTY then (idx - FAULTY, idx - FAULTY) else (stride * idx + 1, stride * idx + 1 + toklen)

mutual
partial def parseTree : List Nat → Option (Tree × List Nat)
  | 0 :: t :: i :: rest => some (.leaf t i, rest)
  | 1 :: p :: n :: rest =>
    match parseTrees n rest with
    | none => none
    | some (ks, r) => some (.node p ks, r)
  | _ => none
partial def parseTrees : Nat → List Nat → Option (List Tree × List Nat)
  | 0, rest => some ([], rest)
  | n + 1, rest =>
    match parseTree rest with
    | none => none
    | some (k, r) =>
      match parseTrees n r with
      | none => none
      | some (ks, r') => some (k :: ks, r')
end

partial def parseArgs : Nat → List Nat → Option (List Arg × List Nat)
  | 0, rest => some ([], rest)
  | n + 1, 0 :: t :: i :: rest => (parseArgs n rest).map (fun (as, r) => (Arg.lexeme t i :: as, r))
  | n + 1, 1 :: rest =>
    match parseTree rest with
    | none => none
    | some (t, r) => (parseArgs n r).map (fun (as, r') => (Arg.value t :: as, r'))
  | _, _ => none

partial def parseCalls : Nat → List Nat → Option (List Call × List Nat)
  | 0, rest => some ([], rest)
  | n + 1, p :: r :: s :: e :: na :: rest =>
    match parseArgs na rest with
    | none => none
    | some (args, rest') => (parseCalls n rest').map (fun (cs, r') => (⟨p, r, s, e, args⟩ :: cs, r'))
  | _, _ => none

def argStr : Arg → String
  | .lexeme t i => if i ≥ FAULTY then s!"F{t}:{i - FAULTY}" else s!"L{t}:{i}"
  | .value (.node p _) => s!"N{p}"
  | .value (.leaf t i) => s!"L{t}:{i}"

def callStr (c : Call) : String :=
  s!"{c.p},{c.r},{c.start},{c.stop},{".".intercalate (c.args.map argStr)}"

/-- a reported error: position and repair sequences as (op, arg) pairs -/
structure RErr where
  laidx : Nat
  seqs : List (List (Nat × Nat))

structure Inp where
  w : List Nat
  mode : Nat
  kind : Nat
  tree : Option Tree
  log : List Call
  errs : List RErr := []

def parseROps : Nat → List Nat → Option (List (Nat × Nat) × List Nat)
  | 0, r => some ([], r)
  | n + 1, op :: a :: r => (parseROps n r).map (fun (xs, r') => ((op, a) :: xs, r'))
  | _, _ => none

def parseRSeqs : Nat → List Nat → Option (List (List (Nat × Nat)) × List Nat)
  | 0, r => some ([], r)
  | n + 1, len :: r =>
    match parseROps len r with
    | none => none
    | some (s, r') => (parseRSeqs n r').map (fun (ss, r'') => (s :: ss, r''))
  | _, _ => none

def parseRErrs : Nat → List Nat → Option (List RErr × List Nat)
  | 0, r => some ([], r)
  | n + 1, la :: ns :: r =>
    match parseRSeqs ns r with
    | none => none
    | some (ss, r') => (parseRErrs n r').map (fun (es, r'') => (⟨la, ss⟩ :: es, r''))
  | _, _ => none

def toRep (x : Nat × Nat) : Repair :=
  match x.1 with
  | 0 => .insert x.2
  | 1 => .delete
  | _ => .shift

/-- the recoverer replayed from the reported errors: at a reported error position, the reported
sequences (lexemes forgotten) -/
def replayRecover (errs : List RErr) : Pos → List (List Repair) := fun c =>
  match errs.find? (fun e => e.laidx == c.pos) with
  | some e => e.seqs.map (·.map toRep)
  | none => []

partial def parseInps : Nat → List Nat → Option (List Inp)
  | 0, _ => some []
  | n + 1, rest =>
    match takeList rest with
    | none => none
    | some (w, mode :: kind :: rest') =>
      if kind == 1 then
        match parseTree rest' with
        | none => none
        | some (t, nc :: r) =>
          match parseCalls nc r with
          | none => none
          | some (cs, r') =>
            if mode == 1 then
              match r' with
              | ne :: r2 =>
                match parseRErrs ne r2 with
                | none => none
                | some (es, r3) => (parseInps n r3).map (fun is => ⟨w, mode, kind, some t, cs, es⟩ :: is)
              | [] => none
            else (parseInps n r').map (fun is => ⟨w, mode, kind, some t, cs, []⟩ :: is)
        | _ => none
      else (parseInps n rest').map (fun is => ⟨w, mode, kind, none, [], []⟩ :: is)
    | _ => none

/-- the lexemes at the leaves lie in the input in tree order: each starts at or after the end of the
one before (inserted lexemes have zero length at their insertion point) — otherwise the span "from
the first to the last lexeme derived" would not even be a span -/
def leavesInOrder : List (Nat × Nat) → Bool
  | a :: b :: rest => a.2 ≤ b.1 && leavesInOrder (b :: rest)
  | _ => true

/-- an argument of the model of the recovering driver, in the implementation's format: a real lexeme
by its index, an inserted one (`lexId`) as `F tok:start byte` -/
def argStrR (lexSpan : Nat → Nat × Nat) (n : Nat) : Arg → String
  | .lexeme t i => if i ≤ n then s!"L{t}:{i}" else s!"F{t}:{(idSpan lexSpan n i).1}"
  | .value (.node p _) => s!"N{p}"
  | .value (.leaf t i) => if i ≤ n then s!"L{t}:{i}" else s!"F{t}:{(idSpan lexSpan n i).1}"

def callStrR (lexSpan : Nat → Nat × Nat) (n : Nat) (c : Call) : String :=
  s!"{c.p},{c.r},{c.start},{c.stop},{".".intercalate (c.args.map (argStrR lexSpan n))}"

/-- a tree in the format of the harness' `PTree::to_text` -/
partial def treeStrR (lexSpan : Nat → Nat × Nat) (n : Nat) : Tree → String
  | .leaf t i => if i ≤ n then s!"L {t} {i}" else s!"F {t} {(idSpan lexSpan n i).1}"
  | .node p kids => " ".intercalate (s!"N {p} {kids.length}" :: kids.map (treeStrR lexSpan n))

def callEq (a b : Call) : Bool :=
  a.p == b.p && a.r == b.r && a.start == b.start && a.stop == b.stop && argsEq a.args b.args

def logEq : List Call → List Call → Bool
  | [], [] => true
  | a :: as, b :: bs => callEq a b && logEq as bs
  | _, _ => false

def outStr : Outcome → String
  | .accept _ => "acc"
  | .error _ _ => "err"
  | .crash _ => "crash"
  | .fuelOut => "div"

def handle (args : List Nat) : String :=
  match parseGrammar args with
  | none => "bad-request"
  | some (G, rest) =>
    match parseAutomaton G rest with
    | none => "bad-request"
    | some (A, stride :: toklen :: n :: rest) =>
      match parseInps n rest with
      | none => "bad-request"
      | some inps =>
        let lexSpan := lexSpanOf stride toklen
        let realSpan : Nat → Nat × Nat := fun idx => (stride * idx + 1, stride * idx + 1 + toklen)
        -- inputs run under recovery: the model of the recovering driver replaying the reported repairs
        let recs := (List.range inps.length).filterMap (fun k =>
          let i := inps.getD k ⟨[], 0, 2, none, [], []⟩
          if i.mode != 1 || i.kind != 1 then none else
          some (k, i, parseRA G A i.w realSpan (replayRecover i.errs) (2 * i.w.length + 4)))
        let mrs := recs.map (fun (k, i, (o, log, _)) =>
          let n := i.w.length
          let ts := match o with | .accept t => treeStrR realSpan n t | _ => "-"
          s!"Mr {k} {outStr o} {";".intercalate (log.map (callStrR realSpan n))} | {ts}")
        -- the right-hand side of `C08.recovering_actions_are_actions_of_edited_input_certified`
        let certified := !recs.isEmpty && C05.wholeRunCert G A
        let thm := recs.map (fun (k, i, (o, log, errs)) =>
          match o with
          | .accept t =>
            let toks := C05.editedToks i.w i.w.length 0 errs
            let (o', log') := parseA G A toks (editedSpan i.w realSpan errs) (400 * (toks.length + 2))
            let f := editedId i.w errs
            let same := match o' with
              | .accept t' => treeEq t (treeMapIdx f t') && logEq log (log'.map (callMapIdx f))
              | _ => false
            (k, i, same)
          | _ => (k, i, true))
        let thmFails := thm.filterMap (fun (k, i, same) =>
          if certified && !same then
            some s!"V fail recovering-log-is-not-the-log-of-the-plain-action-driver-on-the-edited-input input={k} w={i.w}"
          else none)
        let nsame := (thm.filter (fun (_, _, same) => same)).length
        let cs := if recs.isEmpty then [] else
          [s!"C {if certified then "recovering_logs_equal_to_parseA_on_the_edited_input_certified_tables" else "recovering_logs_equal_to_parseA_on_the_edited_input_uncertified_tables"} {nsame}",
           s!"C {if certified then "recovering_logs_compared_certified_tables" else "recovering_logs_compared_uncertified_tables"} {thm.length}"]
        let ms := (List.range inps.length).filterMap (fun k =>
          let i := inps.getD k ⟨[], 0, 2, none, [], []⟩
          if i.mode != 0 || i.kind == 2 then none else
          let (o, log) := parseA G A i.w lexSpan (400 * (i.w.length + 2))
          let os := match o with | .accept _ => "acc" | .error _ _ => "err" | .crash _ => "crash" | .fuelOut => "div"
          some s!"M {k} {os} {";".intercalate (log.map callStr)}")
        let vs := (List.range inps.length).filterMap (fun k =>
          let i := inps.getD k ⟨[], 0, 2, none, [], []⟩
          match i.tree with
          | none => none
          | some t =>
            if !leavesInOrder (leafSpans lexSpan t) then
              some s!"V fail lexemes-at-the-leaves-not-in-input-order input={k} mode={i.mode} w={i.w} spans={leafSpans lexSpan t}"
            else if logOk i.log (specCalls G lexSpan t) then none
            else some s!"V fail action-log-does-not-match-tree input={k} mode={i.mode} w={i.w}")
        let vs := vs ++ thmFails
        "\n".intercalate ((if vs.isEmpty then ["V ok"] else vs) ++ ms ++ mrs ++ cs)
    | _ => "bad-request"

end GrmVerif.Drive.C08
