import GrmVerif.Model.ActionsSpec
import GrmVerif.Drive.Util
/-!
Driver for C08. Request: `<grammar> <automaton> stride toklen ninputs` then per input
`len tok… | mode | kind [tree log]` (`mode` 0 recovery off / 1 CPCT+; `kind` 0 no value, 1 value with
tree and action log of the implementation, 2 not run). Trees: `0 tok idx` leaf (inserted lexemes:
`idx = 1000000 + start byte`), `1 p n kid…` node. Log: `ncalls (p r start end nargs arg…)*`, arg =
`0 tok idx` | `1 <tree>`.
Reply: `M k <log>` the model's action log for recovery-off inputs (compared with the implementation's),
`V` the specification's verdict on the implementation's (tree, log), both modes.
-/
namespace GrmVerif.Drive.C08
open GrmVerif GrmVerif.Act GrmVerif.Drive GrmVerif.LR

def FAULTY := 1000000

def lexSpanOf (stride toklen : Nat) (idx : Nat) : Nat × Nat :=
  if idx ≥ FAULTY then (idx - FAULTY, idx - FAULTY) else (stride * idx + 1, stride * idx + 1 + toklen)

mutual
partial def parseTree : List Nat → Option (Tree × List Nat)
  | 0 :: t :: i :: rest => some (.leaf t i, rest)
  | 1 :: p :: n :: rest =>
    match parseTrees n rest with
    | none => none
    | some (ks, r) => some (.node p ks, r)
  | _ => none
partial def parseTrees : Nat → List Nat → Option (List Tree × List Nat)
  | 0, rest => some ([], rest)
  | n + 1, rest =>
    match parseTree rest with
    | none => none
    | some (k, r) =>
      match parseTrees n r with
      | none => none
      | some (ks, r') => some (k :: ks, r')
end

partial def parseArgs : Nat → List Nat → Option (List Arg × List Nat)
  | 0, rest => some ([], rest)
  | n + 1, 0 :: t :: i :: rest => (parseArgs n rest).map (fun (as, r) => (Arg.lexeme t i :: as, r))
  | n + 1, 1 :: rest =>
    match parseTree rest with
    | none => none
    | some (t, r) => (parseArgs n r).map (fun (as, r') => (Arg.value t :: as, r'))
  | _, _ => none

partial def parseCalls : Nat → List Nat → Option (List Call × List Nat)
  | 0, rest => some ([], rest)
  | n + 1, p :: r :: s :: e :: na :: rest =>
    match parseArgs na rest with
    | none => none
    | some (args, rest') => (parseCalls n rest').map (fun (cs, r') => (⟨p, r, s, e, args⟩ :: cs, r'))
  | _, _ => none

def argStr : Arg → String
  | .lexeme t i => if i ≥ FAULTY then s!"F{t}:{i - FAULTY}" else s!"L{t}:{i}"
  | .value (.node p _) => s!"N{p}"
  | .value (.leaf t i) => s!"L{t}:{i}"

def callStr (c : Call) : String :=
  s!"{c.p},{c.r},{c.start},{c.stop},{".".intercalate (c.args.map argStr)}"

structure Inp where
  w : List Nat
  mode : Nat
  kind : Nat
  tree : Option Tree
  log : List Call

partial def parseInps : Nat → List Nat → Option (List Inp)
  | 0, _ => some []
  | n + 1, rest =>
    match takeList rest with
    | none => none
    | some (w, mode :: kind :: rest') =>
      if kind == 1 then
        match parseTree rest' with
        | none => none
        | some (t, nc :: r) =>
          match parseCalls nc r with
          | none => none
          | some (cs, r') => (parseInps n r').map (fun is => ⟨w, mode, kind, some t, cs⟩ :: is)
        | _ => none
      else (parseInps n rest').map (fun is => ⟨w, mode, kind, none, []⟩ :: is)
    | _ => none

/-- the lexemes at the leaves lie in the input in tree order: each starts at or after the end of the
one before (inserted lexemes have zero length at their insertion point) — otherwise the span "from
the first to the last lexeme derived" would not even be a span -/
def leavesInOrder : List (Nat × Nat) → Bool
  | a :: b :: rest => a.2 ≤ b.1 && leavesInOrder (b :: rest)
  | _ => true

def handle (args : List Nat) : String :=
  match parseGrammar args with
  | none => "bad-request"
  | some (G, rest) =>
    match parseAutomaton G rest with
    | none => "bad-request"
    | some (A, stride :: toklen :: n :: rest) =>
      match parseInps n rest with
      | none => "bad-request"
      | some inps =>
        let lexSpan := lexSpanOf stride toklen
        let ms := (List.range inps.length).filterMap (fun k =>
          let i := inps.getD k ⟨[], 0, 2, none, []⟩
          if i.mode != 0 || i.kind == 2 then none else
          let (o, log) := parseA G A i.w lexSpan (400 * (i.w.length + 2))
          let os := match o with | .accept _ => "acc" | .error _ _ => "err" | .crash _ => "crash" | .fuelOut => "div"
          some s!"M {k} {os} {";".intercalate (log.map callStr)}")
        let vs := (List.range inps.length).filterMap (fun k =>
          let i := inps.getD k ⟨[], 0, 2, none, []⟩
          match i.tree with
          | none => none
          | some t =>
            if !leavesInOrder (leafSpans lexSpan t) then
              some s!"V fail lexemes-at-the-leaves-not-in-input-order input={k} mode={i.mode} w={i.w} spans={leafSpans lexSpan t}"
            else if logOk i.log (specCalls G lexSpan t) then none
            else some s!"V fail action-log-does-not-match-tree input={k} mode={i.mode} w={i.w}")
        "\n".intercalate ((if vs.isEmpty then ["V ok"] else vs) ++ ms)
    | _ => "bad-request"

end GrmVerif.Drive.C08
