import GrmVerif.Model.Newline
import GrmVerif.Lemmas.Newline4
import GrmVerif.Model.Diagnostics
import GrmVerif.Lemmas.Diagnostics
import GrmVerif.Drive.Util
/-!
Driver for C19. Request: `nchars cp… nchunks len…` (chunk lengths in characters), optionally followed
by three more length-prefixed lists for the error pretty-printer: the display widths of the text's
characters `cp w …`, the strings whose width is not the sum of their characters' widths
`k cp₁…cp_k w …` (both computed by the harness with the `unicode-width` crate that lrpar uses: this is
the model's width parameter), and the spans to print `start stop prefixlen …`.
Reply: two lines, `M …` computed by the *model* (transcription of the Rust code) and `S …` computed
by the *specification* functions (`Lemmas/Newline*.lean`: `nlsFrom`, `nlBefore`, `colOf`, `lineStartOf`,
`lineEndOf`) that the theorems of `Props/C19.lean` equate the model with.
-/
namespace GrmVerif.Drive.C19
open GrmVerif.Newline GrmVerif.Drive GrmVerif.Diag

/-- part of `pre` after its last newline -/
def lastLine (pre : List Char) : List Char := (pre.reverse.takeWhile (· ≠ '\n')).reverse

def splitChunks (s : List Char) : List Nat → List (List Char)
  | [] => []
  | n :: ns => s.take n :: splitChunks (s.drop n) ns

/-- all character-boundary byte offsets of `s`, with the character index -/
def boundaries (s : List Char) : List (Nat × Nat) :=
  let rec go : List Char → Nat → Nat → List (Nat × Nat)
    | [], i, b => [(i, b)]
    | c :: cs, i, b => (i, b) :: go cs (i + 1) (b + c.utf8Size)
  go s 0 0

def fmtPair : Option (Nat × Nat) → String
  | none => "P"
  | some (a, b) => s!"{a},{b}"

/-! ### error pretty-printer -/

def pairsOf : List Nat → List (Nat × Nat)
  | a :: b :: rest => (a, b) :: pairsOf rest
  | _ => []

def triplesOf : List Nat → List (Nat × Nat × Nat)
  | a :: b :: c :: rest => (a, b, c) :: triplesOf rest
  | _ => []

/-- `k cp₁ … cp_k w` repeated -/
def parseEx : Nat → List Nat → List (List Nat × Nat)
  | fuel + 1, k :: rest =>
    match rest.drop k with
    | w :: rest' => (rest.take k, w) :: parseEx fuel rest'
    | [] => []
  | _, _ => []

/-- the width parameter of the model, as measured by the harness on the real `unicode-width` -/
def mkSw (cw : List (Nat × Nat)) (ex : List (List Nat × Nat)) (l : List Char) : Nat :=
  match ex.lookup (l.map Char.toNat) with
  | some w => w
  | none => (l.map fun c => (cw.lookup c.toNat).getD 1).sum

/-- output strings travel as code points: `P` panic, `E` empty, else `cp.cp.…` -/
def enc : Option (List Char) → String
  | none => "P"
  | some [] => "E"
  | some l => ".".intercalate (l.map fun c => toString c.toNat)

def splitLastNl (x : List Char) : List Char × List Char :=
  let pre := (x.reverse.takeWhile (· ≠ '\n')).reverse
  (x.take (x.length - pre.length), pre)

def piecesOf : List Char → List Char × List (List Char)
  | [] => ([], [])
  | c :: ys =>
    let r := piecesOf ys
    if c = '\n' then ([], r.1 :: r.2) else (c :: r.1, r.2)

/-- the `Split` of a text and a span on character boundaries (glue; its result is checked by
`splitOk` before it is used, so a mistake here shows as `X`, never as a wrong `S`) -/
def mkSplit (s : List Char) (start stop : Nat) : Option Split :=
  if stop < start then none
  else
    match takeBytes start s, dropBytes start s with
    | some x, some t =>
      match takeBytes (stop - start) t, dropBytes (stop - start) t with
      | some y, some t2 =>
        let ap := splitLastNl x
        let cc := piecesOf y
        some ⟨ap.1, ap.2, cc.1, cc.2, t2.takeWhile (· ≠ '\n'), t2.dropWhile (· ≠ '\n')⟩
      | _, _ => none
    | _, _ => none

/-- `d.WF ∧ d.text = s ∧ d.start = start ∧ d.stop = stop`, decided -/
def splitOk (d : Split) (s : List Char) (start stop : Nat) : Bool :=
  (d.a.isEmpty || d.a.getLast? == some '\n') && !d.pre.contains '\n' && !d.c0.contains '\n'
    && d.cs.all (fun c => !c.contains '\n') && !d.suf.contains '\n'
    && (d.z.isEmpty || d.z.head? == some '\n')
    && d.text == s && d.start == start && d.stop == stop

def ppPath : List Char := "src.y".toList
def ppMsg : List Char := "msg".toList

/-- the model's answer for one span -/
def ppModel (sw : List Char → Nat) (s : List Char) (sp : Nat × Nat × Nat) : String :=
  let pfx := List.replicate sp.2.2 '.'
  enc (fileLocationMsg s ppPath ppMsg (some sp.1)) ++ ";"
    ++ enc (prefixedUnderline sw s pfx sp.1 sp.2.1 ppMsg '^')

/-- the specification's answer: header from `colOf`, rows from `specRows`/`renderRows`
(`pretty_header_is_line_col`, `pretty_print_spec`, `pretty_long_prefix_panics`) -/
def ppSpec (sw : List Char → Nat) (s : List Char) (sp : Nat × Nat × Nat) : String :=
  let pfx := List.replicate sp.2.2 '.'
  match mkSplit s sp.1 sp.2.1 with
  | none => "X;X"
  | some d =>
    if !splitOk d s sp.1 sp.2.1 then "X;X"
    else
      enc (some (ppMsg ++ " at ".toList ++ ppPath ++ ':' :: natStr d.firstLine
            ++ ':' :: natStr (colOf d.pre (d.cov ++ (d.suf ++ d.z))))) ++ ";"
        ++ (if byteLen pfx > 3 then "P" else enc (some (renderRows sw pfx ppMsg '^' d.rows)))

def handle (args : List Nat) : String :=
  match takeList args with
  | none => "bad-request"
  | some (cps, rest) =>
    match takeList rest with
    | none => "bad-request"
    | some (lens, rest2) =>
      let s : List Char := cps.map Char.ofNat
      let chunks := splitChunks s lens
      let len := byteLen s
      let bs := boundaries s
      -- model
      let c := chunks.foldl feed Cache.new
      let mCache := s!"nl {joinNats c.newlines} tr {c.trailing}"
      let mLines := (List.range (len + 2)).map (fun b =>
        optNat (byteToLineNum c b) ++ ":" ++ optNat (byteToLineByte c b))
      let mCols := bs.map (fun (_, b) =>
        match byteToLineCol c s b with
        | none => "P"
        | some none => "N"
        | some (some (l, k)) => s!"{l},{k}")
      let mSpans := bs.flatMap (fun (_, b1) => (bs.filter (fun (_, b2) => b1 ≤ b2)).map (fun (_, b2) =>
        fmtPair (spanLineBytes c b1 b2)))
      let m := s!"M ln {" ".intercalate mLines} lc {" ".intercalate mCols} sp {" ".intercalate mSpans}"
      -- specification
      let L := 0 :: nlsFrom 0 s
      let sCache := s!"nl {joinNats L} tr {trailingFrom 0 s}"
      let sLines := (List.range (len + 2)).map (fun b =>
        if b ≤ len then s!"{1 + nlBefore 0 s b}:{lineStartOf L b}" else "N:N")
      let sCols := bs.map (fun (i, _) =>
        let pre := s.take i
        let post := s.drop i
        s!"{1 + pre.count '\n'},{colOf (lastLine pre) post}")
      let sSpans := bs.flatMap (fun (_, b1) => (bs.filter (fun (_, b2) => b1 ≤ b2)).map (fun (_, b2) =>
        s!"{lineStartOf L b1},{lineEndOf L len b2}"))
      let sp := s!"S ln {" ".intercalate sLines} lc {" ".intercalate sCols} sp {" ".intercalate sSpans}"
      -- error pretty-printer (only when the request carries spans)
      let (mPP, sPP) :=
        match takeList rest2 with
        | none => ("", "")
        | some (cwRaw, rest3) =>
          match takeList rest3 with
          | none => ("", "")
          | some (exRaw, rest4) =>
            match takeList rest4 with
            | none => ("", "")
            | some (spRaw, _) =>
              let sw := mkSw (pairsOf cwRaw) (parseEx exRaw.length exRaw)
              let spans := triplesOf spRaw
              (" pp " ++ " ".intercalate (spans.map (ppModel sw s)),
               " pp " ++ " ".intercalate (spans.map (ppSpec sw s)))
      m ++ mPP ++ "\n" ++ sp ++ sPP ++ s!"\nX model-state {mCache} spec-state {sCache}"

end GrmVerif.Drive.C19
