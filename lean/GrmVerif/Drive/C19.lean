import GrmVerif.Model.Newline
import GrmVerif.Lemmas.Newline4
import GrmVerif.Drive.Util
/-!
Driver for C19. Request: `nchars cp… nchunks len…` (chunk lengths in characters).
Reply: two lines, `M …` computed by the *model* (transcription of the Rust code) and `S …` computed
by the *specification* functions (`Lemmas/Newline*.lean`: `nlsFrom`, `nlBefore`, `colOf`, `lineStartOf`,
`lineEndOf`) that the theorems of `Props/C19.lean` equate the model with.
-/
namespace GrmVerif.Drive.C19
open GrmVerif.Newline GrmVerif.Drive

/-- part of `pre` after its last newline -/
def lastLine (pre : List Char) : List Char := (pre.reverse.takeWhile (· ≠ '\n')).reverse

def splitChunks (s : List Char) : List Nat → List (List Char)
  | [] => []
  | n :: ns => s.take n :: splitChunks (s.drop n) ns

/-- all character-boundary byte offsets of `s`, with the character index -/
def boundaries (s : List Char) : List (Nat × Nat) :=
  let rec go : List Char → Nat → Nat → List (Nat × Nat)
    | [], i, b => [(i, b)]
    | c :: cs, i, b => (i, b) :: go cs (i + 1) (b + c.utf8Size)
  go s 0 0

def fmtPair : Option (Nat × Nat) → String
  | none => "P"
  | some (a, b) => s!"{a},{b}"

def handle (args : List Nat) : String :=
  match takeList args with
  | none => "bad-request"
  | some (cps, rest) =>
    match takeList rest with
    | none => "bad-request"
    | some (lens, _) =>
      let s : List Char := cps.map Char.ofNat
      let chunks := splitChunks s lens
      let len := byteLen s
      let bs := boundaries s
      -- model
      let c := chunks.foldl feed Cache.new
      let mCache := s!"nl {joinNats c.newlines} tr {c.trailing}"
      let mLines := (List.range (len + 2)).map (fun b => optNat (byteToLineNum c b))
      let mCols := bs.map (fun (_, b) =>
        match byteToLineCol c s b with
        | none => "P"
        | some none => "N"
        | some (some (l, k)) => s!"{l},{k}")
      let mSpans := bs.flatMap (fun (_, b1) => (bs.filter (fun (_, b2) => b1 ≤ b2)).map (fun (_, b2) =>
        fmtPair (spanLineBytes c b1 b2)))
      let m := s!"M ln {" ".intercalate mLines} lc {" ".intercalate mCols} sp {" ".intercalate mSpans}"
      -- specification
      let L := 0 :: nlsFrom 0 s
      let sCache := s!"nl {joinNats L} tr {trailingFrom 0 s}"
      let sLines := (List.range (len + 2)).map (fun b =>
        if b ≤ len then toString (1 + nlBefore 0 s b) else "N")
      let sCols := bs.map (fun (i, _) =>
        let pre := s.take i
        let post := s.drop i
        s!"{1 + pre.count '\n'},{colOf (lastLine pre) post}")
      let sSpans := bs.flatMap (fun (_, b1) => (bs.filter (fun (_, b2) => b1 ≤ b2)).map (fun (_, b2) =>
        s!"{lineStartOf L b1},{lineEndOf L len b2}"))
      let sp := s!"S ln {" ".intercalate sLines} lc {" ".intercalate sCols} sp {" ".intercalate sSpans}"
      m ++ "\n" ++ sp ++ s!"\nX model-state {mCache} spec-state {sCache}"

end GrmVerif.Drive.C19
