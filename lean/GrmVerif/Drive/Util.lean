/-! Line-protocol helpers shared by the per-property drivers (core Lean only). -/
namespace GrmVerif.Drive

/-- parse all space-separated naturals of a line; `none` if any token is not a natural -/
def parseNats (toks : List String) : Option (List Nat) :=
  toks.mapM (fun t => t.toNat?)

/-- take a length-prefixed list off the front: `n x₁ … xₙ rest` -/
def takeList : List Nat → Option (List Nat × List Nat)
  | [] => none
  | n :: rest => if rest.length < n then none else some (rest.take n, rest.drop n)

def joinNats (l : List Nat) : String := " ".intercalate (l.map toString)

def optNat : Option Nat → String
  | none => "N"
  | some n => toString n

end GrmVerif.Drive
