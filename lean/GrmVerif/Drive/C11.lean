import GrmVerif.Model.LexUnescape
import GrmVerif.Model.LexParse
import GrmVerif.Lemmas.LexUnescape
import GrmVerif.Lemmas.LexParse
import GrmVerif.Model.LexTables
import GrmVerif.Model.LexSpecParse
import GrmVerif.Lemmas.LexSpecParse
import GrmVerif.Drive.Util
/-!
Driver for C11. Requests (first number = kind; kind 0 is the harness's case descriptor, used for
replay only):

* `1 posix compiles n cp…` — a regular expression as written in a rule without `<state>` prefix.
  `compiles` = 1 iff the regex engine accepts the text the specification denotes (the harness
  computes that text with its own copy of the specification; the copy is compared with
  `unescapeSpec` in the `rs` field of every reply, so the bit is about the right text).
  Reply `M|S re (ok n cp… | E) rs n cp…`: `M` from the scanner model `unescape`, `S` from `unescapeSpec`.
* `2 posix compiles n cp…` — one rule line. Reply `M|S` the parts of the rule or `err kind offset`;
  `M` from `parseRuleLine`, `S` from `ruleLineSpec`.
* `3 n cp…` — character classes: reply `M` three bits per character (Pattern_White_Space, space
  separator, line separator).
* `5 n cp…` — one start-state declaration line. Reply `M|S d exclusive k (name start end)…` or
  `err kind offset`; `M` from `parseDeclLine`, `S` from `declLineSpec` (maximal runs of non-blanks).
* `4 r… h… b…` (three length-prefixed lists, 0 false / 1 true / 2 unset) — regex-crate defaults,
  `%grmtools` flags, builder flags. Reply `M|S f bit…`: the flags in force; `M` from
  `effectiveFlags` over the extracted `DEFAULT_LEX_FLAGS`, `S` from `flagSpec`.
* `9 posix comments start <n cp…> k <n cp…>×k` — a whole specification text, the byte offset at
  which the real `%grmtools` parser says the section ends, the two flags the parser consults, and the
  `re_str`s (as the harness's copy of the line specification computes them for every line of the
  text) that the regex engine refuses when compiled the way `Rule::new` compiles them. Reply
  `MW|SW ok S n (id excl start end name)… R m (tokid name|N start end k id… N|(id op) re)…` or
  `err n (Kind k (start end)…)…` or `P` (panic / out of fuel); `MW` from `parseSpec` (offsets, fuel,
  slices), `SW` from `specParse` (structural recursion over the lines).
-/
namespace GrmVerif.Drive.C11
open GrmVerif.LexUnescape GrmVerif.LexParse GrmVerif.LexTables GrmVerif.Drive

def fmtChars (l : List Char) : String :=
  if l.isEmpty then "0" else s!"{l.length} {joinNats (l.map Char.toNat)}"

def fmtRe (compiles : Bool) (r : Option (List Char)) : String :=
  match r with
  | none => "P"
  | some l => if compiles then s!"ok {fmtChars l}" else "E"

def fmtKind : ErrKind → String
  | .missingSpace => "MissingSpace"
  | .invalidStartState => "InvalidStartState"
  | .invalidName => "InvalidName"

def fmtLine (compiles : Bool) : Except (ErrKind × Nat) RuleLine → String
  | .error (k, off) => s!"err {fmtKind k} {off}"
  | .ok r =>
    if !compiles then "err RegexError 0" else
    let st := " ".intercalate (toString r.states.length :: r.states.map fmtChars)
    let tgt := match r.target with
      | none => "N"
      | some (op, n) => s!"{op} {fmtChars n}"
    let name := match r.name with
      | none => "N"
      | some n => fmtChars n
    s!"st {st} re {fmtChars r.re} tgt {tgt} name {name} span {r.spanStart} {r.spanEnd}"

def fmtDecl : Except (DeclErr × Nat) (Bool × List (List Char × Nat × Nat)) → String
  | .error (.unknownDeclaration, off) => s!"err UnknownDeclaration {off}"
  | .error (.invalidStartStateName, off) => s!"err InvalidStartStateName {off}"
  | .ok (excl, names) =>
    " ".intercalate (s!"d {if excl then 1 else 0} {names.length}" :: names.map (fun t => s!"{fmtChars t.1} {t.2.1} {t.2.2}"))

open GrmVerif.LexSpecParse in
def fmtEKind : EKind → String
  | .prematureEnd => "PrematureEnd"
  | .routinesNotSupported => "Routines"
  | .unknownDeclaration => "UnknownDeclaration"
  | .missingSpace => "MissingSpace"
  | .invalidName => "InvalidName"
  | .unknownStartState => "UnknownStartState"
  | .duplicateStartState => "DuplicateStartState"
  | .invalidStartState => "InvalidStartState"
  | .invalidStartStateName => "InvalidStartStateName"
  | .duplicateName => "DuplicateName"
  | .regexError => "RegexError"
  | .verbatimNotSupported => "Verbatim"

open GrmVerif.LexSpecParse in
def fmtWhole : Option (Except (List Err) (List StartState × List Rule)) → String
  | none => "P"
  | some (.error es) =>
    " ".intercalate (s!"err {es.length}" :: es.map fun e =>
      " ".intercalate (s!"{fmtEKind e.kind} {e.spans.length}" :: e.spans.map fun sp => s!"{sp.1} {sp.2}"))
  | some (.ok (sts, rules)) =>
    let ss := sts.map fun s => s!"{s.id} {if s.excl then 1 else 0} {s.span.1} {s.span.2} {fmtChars s.name}"
    let rs := rules.map fun r =>
      let name := match r.name with
        | none => "N"
        | some n => fmtChars n
      let tgt := match r.target with
        | none => "N"
        | some (id, op) => s!"{id} {op}"
      " ".intercalate ([s!"{r.tokId} {name} {r.span.1} {r.span.2} {r.states.length}"] ++ r.states.map toString
        ++ [tgt, fmtChars r.re])
    " ".intercalate ([s!"ok S {sts.length}"] ++ ss ++ [s!"R {rules.length}"] ++ rs)

/-- `k` length-prefixed lists -/
def takeLists : Nat → List Nat → Option (List (List Nat))
  | 0, _ => some []
  | k + 1, l =>
    match takeList l with
    | none => none
    | some (x, rest) => (takeLists k rest).map (x :: ·)

def toOpt : Nat → Option Bool
  | 0 => some false
  | 1 => some true
  | _ => none

def bit (b : Bool) : String := if b then "1" else "0"

def handle (args : List Nat) : String :=
  match args with
  | 0 :: _ => "X case-descriptor"
  | 1 :: posix :: compiles :: rest =>
    match takeList rest with
    | none => "bad-request"
    | some (cps, _) =>
      let re := cps.map Char.ofNat
      let cfg := realCfg (posix == 1)
      let sp := unescapeSpec cfg re
      s!"M re {fmtRe (compiles == 1) (unescape cfg re)} rs {fmtChars sp}\nS re {fmtRe (compiles == 1) (some sp)} rs {fmtChars sp}"
  | 2 :: posix :: compiles :: rest =>
    match takeList rest with
    | none => "bad-request"
    | some (cps, _) =>
      let raw := cps.map Char.ofNat
      let cfg := realCfg (posix == 1)
      let m := match parseRuleLine cfg isPWS isSpaceSep raw with
        | none => "P"
        | some r => fmtLine (compiles == 1) r
      s!"M {m}\nS {fmtLine (compiles == 1) (ruleLineSpec cfg isPWS isSpaceSep raw)}"
  | 3 :: rest =>
    match takeList rest with
    | none => "bad-request"
    | some (cps, _) =>
      let bits := cps.map (fun n => let c := Char.ofNat n; bit (isPWS c) ++ bit (isSpaceSep c) ++ bit (isLineSep c))
      s!"M {" ".intercalate bits}"
  | 5 :: rest =>
    match takeList rest with
    | none => "bad-request"
    | some (cps, _) =>
      let raw := cps.map Char.ofNat
      s!"M {fmtDecl (parseDeclLine isPWS raw)}\nS {fmtDecl (declLineSpec isPWS raw)}"
  | 9 :: posix :: comments :: start :: rest =>
    match takeList rest with
    | none => "bad-request"
    | some (cps, rest) =>
      match rest with
      | [] => "bad-request"
      | k :: rest =>
        match takeLists k rest with
        | none => "bad-request"
        | some bad =>
          let src := cps.map Char.ofNat
          let badRes := bad.map (fun l => l.map Char.ofNat)
          let env : GrmVerif.LexSpecParse.Env :=
            ⟨realCfg (posix == 1), comments == 1, fun re => !badRes.contains re⟩
          let m := GrmVerif.LexSpecParse.parseSpec env src start
          let s := match takeB src start, dropB src start with
            | some pre, some body => some (GrmVerif.LexSpecParse.specParse env pre body)
            | _, _ => none
          s!"MW {fmtWhole m}\nSW {fmtWhole s}"
  | 4 :: rest =>
    match takeList rest with
    | none => "bad-request"
    | some (rd, rest) =>
      match takeList rest with
      | none => "bad-request"
      | some (h, rest) =>
        match takeList rest with
        | none => "bad-request"
        | some (b, _) =>
          let dflt := GrmVerif.Extracted.DEFAULT_LEX_FLAGS
          let eff := effectiveFlags dflt (h.map toOpt) (b.map toOpt)
          let m := List.zipWith (fun e r => bit (e.getD (r == 1))) eff rd
          let n := dflt.length
          let s := (List.range n).map (fun i =>
            bit (flagSpec (rd.getD i 2 == 1) (dflt.getD i none) (toOpt (h.getD i 2)) (toOpt (b.getD i 2))))
          s!"M f {" ".intercalate m}\nS f {" ".intercalate s}"
  | _ => "bad-request"

end GrmVerif.Drive.C11
