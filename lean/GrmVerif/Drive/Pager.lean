import GrmVerif.Model.PagerImpl
import GrmVerif.Model.AnalysesRef
import GrmVerif.Drive.Util
/-!
Driver part for the tie of `Model/PagerImpl.lean` with `pager_stategraph` (C02). The request carries,
after the C01-style payload, `maxStates niters (ncore (p d)* nclosed (p d)*)*`: the hash-map iteration
orders the hook (`cfg(grmtools_verif)`) recorded. The model replays them; its `Mg` lines must equal the
harness' `Ig` lines: the sequence of `state_i`s with the symbols pushed, the pre-gc state list and
edges, the final `StateGraph` (state numbers included). Item sets are printed sorted (they come out of
hash maps); state numbers are determined once the orders are given, so they ARE compared.
-/
namespace GrmVerif.Drive.Pager
open GrmVerif GrmVerif.Drive GrmVerif.PagerImpl

def parseKeys : Nat → List Nat → Option (List (Nat × Nat) × List Nat)
  | 0, rest => some ([], rest)
  | n + 1, p :: d :: rest => (parseKeys n rest).map (fun r => ((p, d) :: r.1, r.2))
  | _, _ => none

def parseKeyList : List Nat → Option (List (Nat × Nat) × List Nat)
  | n :: rest => parseKeys n rest
  | [] => none

def parseOrders : Nat → List Nat → Option (List Order × List Nat)
  | 0, rest => some ([], rest)
  | n + 1, rest =>
    match parseKeyList rest with
    | none => none
    | some (ck, rest1) =>
      match parseKeyList rest1 with
      | none => none
      | some (clk, rest2) => (parseOrders n rest2).map (fun r => (⟨ck, clk⟩ :: r.1, r.2))

def encSym : Sym → Nat
  | .tok t => 2 * t
  | .rule r => 2 * r + 1

def sortNats (l : List Nat) : List Nat := l.mergeSort (fun a b => decide (a ≤ b))

def itemLe (a b : Item) : Bool := decide (a.p < b.p) || (a.p == b.p && decide (a.dot ≤ b.dot))

def itemStr (i : Item) : String := s!"{i.p}.{i.dot}:" ++ ".".intercalate ((sortNats i.la).map toString)

def itemsStr (is : List Item) : String := ",".intercalate ((is.mergeSort itemLe).map itemStr)

def edgesStr (es : List (Sym × Nat)) : String :=
  ",".intercalate (((es.map (fun e => (encSym e.1, e.2))).mergeSort (fun a b => decide (a.1 ≤ b.1))).map
    (fun e => s!"{e.1}>{e.2}"))

def stateStr (core closed : List Item) (es : List (Sym × Nat)) : String :=
  "core{" ++ itemsStr core ++ "}closed{" ++ itemsStr closed ++ "}edges{" ++ edgesStr es ++ "}"

def statesStr (states : List (List Item × List Item)) (edges : List (List (Sym × Nat))) : String :=
  s!"n={states.length} " ++ " ".intercalate ((List.range states.length).map (fun s =>
    match states[s]? with
    | some st => stateStr st.1 st.2 (edges.getD s [])
    | none => "?"))

def seqStr (log : List (Nat × List Sym)) : String :=
  " ".intercalate (log.map (fun e => s!"{e.1}:" ++ ",".intercalate (e.2.map (fun s => toString (encSym s)))))

def preStates (st : St) : List (List Item × List Item) :=
  (List.range st.core.length).map (fun s => (st.core.getD s [], (st.closed.getD s none).getD []))

/-- the `Mg` and counter lines for one grammar -/
def lines (G : Grammar) (N : Nat → Bool) (F : Nat × Nat → Bool) (rest : List Nat) : List String :=
  match rest with
  | maxStates :: n :: rest =>
    match parseOrders n rest with
    | none => ["Mg bad-trace"]
    | some (orders, _) =>
      match pager G N F maxStates orders with
      | .panic => ["Mg panic"]
      | .fuelOut => ["Mg fuelOut"]
      | .badOrder => ["Mg badOrder"]
      | .ok o =>
        [s!"Mg seq {seqStr o.log}", s!"Mg pre {statesStr (preStates o.pre) o.pre.edges}",
         s!"Mg post {statesStr o.states o.edges}",
         "C pager_grammars 1", s!"C pager_iterations {o.log.length}", s!"C pager_pre_gc_states {o.pre.core.length}",
         s!"C pager_reopened_states {o.pre.nreopen}", s!"C pager_weakly_compatible_matches {o.pre.nweak}",
         s!"C pager_merges_that_grew_a_core {o.pre.nmerge}", s!"C pager_exact_equality_hits {o.pre.nexact}",
         s!"C pager_states_collected_by_gc {o.pre.core.length - o.states.length}",
         s!"C pager_grammars_with_reopened_states {if o.pre.nreopen > 0 then 1 else 0}",
         s!"C pager_grammars_with_gc {if o.pre.core.length > o.states.length then 1 else 0}"]
  | _ => []

end GrmVerif.Drive.Pager
