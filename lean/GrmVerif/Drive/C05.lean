import GrmVerif.Extracted
import GrmVerif.Model.Recover
import GrmVerif.Model.RecLive
import GrmVerif.Model.RankImpl
import GrmVerif.Lemmas.RecEdited
import GrmVerif.Lemmas.KeptCert
import GrmVerif.Model.SearchImpl
import GrmVerif.Model.Cpct
import GrmVerif.Drive.C08
import GrmVerif.Drive.C01
/-!
Driver for C05, C06, C07 (error recovery). Request:
`<grammar> <automaton> ntoks×cost ntoks×avoid stride toklen cap which ninputs` then per input
`len tok… kind` and, when `kind = 1`, `hasValue [tree] nerr (laidx state nseq (len (op arg)…)…)…`
(`op` 0 insert t / 1 delete idx / 2 shift idx; trees as in C08). `which` selects the verdicts:
5 = C05 (every sequence repairs; the parse is the plain parse of the edited input; per table the decidable
    hypotheses of the certified whole-run theorems, `C05.wholeRunCert`, are evaluated and counted:
    `C tables_within_the_hypotheses_of_the_whole_run_theorems` / `…_outside_…`),
6 = C06 (the reported set is the reference minimum-cost set, ranked as documented; the reported list
    is a fixed point of the model of `simplify_repairs`, `RankImpl.simplify`; and the FULL model of
    `CPCTPlus::recover` — `SearchImpl.recoverImpl`: Dijkstra buckets with node merging, `collect_repairs`,
    `rank_cnds`, `simplify_repairs`, `apply_repairs` — is run on the driver's own configuration at every
    error: one `Mr` line per error, compared with the harness' `Ir` line, exactly and in order),
7 = C07 (progress and shape of the error list; per automaton the hypotheses of the liveness theorem
    `C07.recovering_parse_returns` — `Cert.check` and the termination certificate `Term.termCheckAdj` —
    are evaluated and counted (`C liveness_…`), and per input the instrumented driver model `recRunO`
    is run with the recoverer "continue from the first reported sequence if it repairs": it must
    return within `2·|w| + 2` iterations when the hypotheses hold, and what it returns must be the
    reported value flag and error list).
-/
namespace GrmVerif.Drive.C05
open GrmVerif GrmVerif.Rec GrmVerif.Drive GrmVerif.LR GrmVerif.Drive.C08

structure ErrD where
  laidx : Nat
  state : Nat
  seqs : List (List (Nat × Nat))     -- (op, arg)

structure Inp where
  w : List Nat
  kind : Nat
  tree : Option Tree
  errs : List ErrD

def parseOps : Nat → List Nat → Option (List (Nat × Nat) × List Nat)
  | 0, r => some ([], r)
  | n + 1, op :: a :: r => (parseOps n r).map (fun (xs, r') => ((op, a) :: xs, r'))
  | _, _ => none

def parseSeqs : Nat → List Nat → Option (List (List (Nat × Nat)) × List Nat)
  | 0, r => some ([], r)
  | n + 1, len :: r =>
    match parseOps len r with
    | none => none
    | some (s, r') => (parseSeqs n r').map (fun (ss, r'') => (s :: ss, r''))
  | _, _ => none

def parseErrs : Nat → List Nat → Option (List ErrD × List Nat)
  | 0, r => some ([], r)
  | n + 1, la :: st :: ns :: r =>
    match parseSeqs ns r with
    | none => none
    | some (ss, r') => (parseErrs n r').map (fun (es, r'') => (⟨la, st, ss⟩ :: es, r''))
  | _, _ => none

partial def parseInps : Nat → List Nat → Option (List Inp)
  | 0, _ => some []
  | n + 1, rest =>
    match takeList rest with
    | some (w, kind :: r) =>
      if kind != 1 then (parseInps n r).map (fun is => ⟨w, kind, none, []⟩ :: is)
      else
        match r with
        | hv :: r1 =>
          let tr : Option (Option Tree × List Nat) :=
            if hv == 1 then (parseTree r1).map (fun (t, r2) => (some t, r2)) else some (none, r1)
          match tr with
          | some (t, ne :: r2) =>
            match parseErrs ne r2 with
            | some (es, r3) => (parseInps n r3).map (fun is => ⟨w, kind, t, es⟩ :: is)
            | none => none
          | _ => none
        | [] => none
    | _ => none

def toRepair (x : Nat × Nat) : Repair :=
  match x.1 with
  | 0 => .insert x.2
  | 1 => .delete
  | _ => .shift

/-- a reported repair with the lexeme it names (`lrpar::ParseRepair`) -/
def toPRepair (x : Nat × Nat) : RankImpl.PRepair :=
  match x.1 with
  | 0 => .insert x.2
  | 1 => .delete x.2
  | _ => .shift x.2

def prepStr : RankImpl.PRepair → String
  | .insert t => s!"I{t}"
  | .delete l => s!"D{l}"
  | .shift l => s!"S{l}"

/-- the lexemes named by the Delete/Shift entries of a reported sequence are the input lexemes from
the error position onwards, in order -/
def lexemesOk : Nat → List (Nat × Nat) → Bool
  | _, [] => true
  | pos, (0, _) :: rs => lexemesOk pos rs
  | pos, (_, x) :: rs => x == pos && lexemesOk (pos + 1) rs

def repStr : Repair → String
  | .insert t => s!"I{t}"
  | .delete => "D"
  | .shift => "S"

/-- run the plain driver to its end, returning the outcome and the configuration it stopped in -/
def runCfg (G : Grammar) (A : Automaton) (w : List Nat) : Nat → Cfg → Outcome × Cfg
  | 0, c => (.fuelOut, c)
  | fuel + 1, c =>
    match step G A w c with
    | .done o => (o, c)
    | .cont c' => runCfg G A w fuel c'

/-- the token of an item of the edited input: the definition the theorems of `Props/C05.lean` use -/
abbrev itemTok := GrmVerif.C05.itemTok

/-- leaves of a tree parsed over the items `E`, as text in the harness' format -/
def leafOf (stride toklen : Nat) (w : List Nat) (E : List EItem) (pos tok : Nat) : Tree :=
  match E.getD pos (EItem.real 0) with
  | .real i => .leaf tok i
  | .ins _ before =>
    let start := if before < w.length then stride * before + 1
      else if w.length == 0 then 0 else stride * (w.length - 1) + 1 + toklen
    .leaf tok (FAULTY + start)

mutual
partial def relabel (stride toklen : Nat) (w : List Nat) (E : List EItem) : Tree → Tree
  | .leaf t i => leafOf stride toklen w E i t
  | .node p ks => .node p (relabels stride toklen w E ks)
partial def relabels (stride toklen : Nat) (w : List Nat) (E : List EItem) : List Tree → List Tree
  | [] => []
  | k :: ks => relabel stride toklen w E k :: relabels stride toklen w E ks
end

structure Ctx where
  G : Grammar
  A : Automaton
  cost : Nat → Nat
  avoid : Nat → Bool
  stride : Nat
  toklen : Nat
  cap : Nat
  /-- the automaton passes `Cert.check` and `Term.termCheckAdj`: hypotheses of `C07.recovering_parse_returns` -/
  live : Bool := false
  /-- every token costs at least 1 -/
  costsOk : Bool := true
  /-- the hypotheses on table and costs of the capstone theorems (`C05.cpct_recovering_parse_is_plain_parse_of_edited_input`,
  `C07.cpct_recovering_parse_result`, …): `C05.wholeRunCert`, `SearchImpl.stateActionsExactB`, costs ≥ 1
  (evaluated once per table, for `which = 6`) -/
  capTable : Bool := false
  /-- the hypotheses on table and costs of `C06.recover_never_panics` (`Cpct.noPanicTableB`: `Cert.check`,
  `stateActionsExactB`, `PARSE_AT_LEAST ≥ 1`; costs ≥ 1), evaluated once per table, for `which = 6` -/
  npTable : Bool := false

def N_SHIFTS := 3

/-- the recoverer of the liveness theorem instantiated with what the real recoverer reported for this
input: at the position of a reported error whose first sequence inserts only tokens of the grammar and
repairs (`validSeq`), report its sequences and continue from where `applySeq` of the first leaves the
parser; give up otherwise. It satisfies `C07.ContinuesFromValid` by construction, hence the
hypotheses of `C07.recovering_parse_returns` (`C07.valid_recoverer_ok`). -/
def replayRecoverer (X : Ctx) (w : List Nat) (errs : List ErrD) (c : Pos) : Option (Pos × List (List Repair)) :=
  match errs.find? (fun e => e.laidx == c.pos) with
  | none => none
  | some e =>
    match e.seqs.map (fun s => s.map toRepair) with
    | [] => none
    | s0 :: rest =>
      if s0.all (fun r => match r with | .insert t => t < X.G.ntoks | _ => true) && validSeq X.G X.A w N_SHIFTS c s0 then
        (applySeq X.G X.A w c s0).map (fun c' => (c', s0 :: rest))
      else none

/-- C07 liveness, per input: run `recRunO` with the replayed recoverer for `2·|w| + 2` iterations (the
bound of `C07.recovering_parse_returns`; `feed` gets 64·FUEL) and compare with the reported result -/
def liveVerdict (X : Ctx) (k : Nat) (i : Inp) : List String :=
  let w := i.w
  match recRunO X.G X.A w (replayRecoverer X w i.errs) (64 * FUEL) (2 * w.length + 2) ⟨[X.A.start], 0⟩ [] with
  | none =>
    if X.live then [s!"V fail model-of-the-recovering-driver-does-not-return-within-its-bound input={k} w={w}"]
    else ["C liveness_model_run_without_answer_outside_hypotheses 1"]
  | some (v, errs) =>
    let got := errs.map (fun e => (e.pos, e.repairs.length))
    let want := i.errs.map (fun e => (e.laidx, e.seqs.length))
    if v == i.tree.isSome && got == want then ["C liveness_model_run_is_the_reported_result 1"]
    else [s!"V fail model-of-the-recovering-driver-differs-from-the-reported-result input={k} w={w} model-value={v} model-errors={got} reported-value={i.tree.isSome} reported-errors={want}"]

/-! ### the full model of `recover`, error by error (C06 tie) -/

def seqStr (s : RankImpl.Seq) : String := " ".intercalate (s.map prepStr)
def seqsStr (l : List RankImpl.Seq) : String := if l.isEmpty then "none" else " ; ".intercalate (l.map seqStr)

/-- loop iterations of the modelled search per error -/
def SEARCH_FUEL : Nat := 6000
/-- sequences `collect_repairs` may expand per error -/
def EXPAND_LIMIT : Nat := 3000

/-- `Parser::lr` between two errors, on state stacks: (accepted?, configuration) -/
def advanceTo (G : Grammar) (A : Automaton) (w : List Nat) : Nat → Pos → Option (Bool × Pos)
  | 0, _ => none
  | steps + 1, c =>
    match feed G A (nextTok G w c.pos) FUEL c.stack with
    | .shifted s => if c.pos < w.length then advanceTo G A w steps ⟨s, c.pos + 1⟩ else none
    | .accept s => some (true, ⟨s, c.pos⟩)
    | .error s => some (false, ⟨s, c.pos⟩)
    | _ => none

/-- the model's own recovering parse: at every error run `SearchImpl.recoverImpl` from the model's own
configuration and print what it reports (`Mr input error position state : sequences`). An error whose
search exceeds the budget is counted, the reported list is echoed and its first sequence is used to go
on. -/
def modelWalk (X : Ctx) (k : Nat) (w : List Nat) : Nat → Pos → List ErrD → Nat → List String
  | 0, _, _, _ => []
  | budget + 1, c, errs, n =>
    match advanceTo X.G X.A w (w.length + 2) c with
    | none => [s!"Mr {k} {n} the-model-of-the-plain-parse-crashes-or-spins"]
    | some (true, _) => []
    | some (false, ce) =>
      let E : SearchImpl.Env := ⟨X.G, X.A, w, X.cost, GrmVerif.Extracted.PARSE_AT_LEAST⟩
      let hdr := s!"Mr {k} {n} {ce.pos} {ce.stack.headD 0} : "
      -- the hypotheses of the search theorems (`C06.hyps_decidable`) at this error
      let hyp := if X.costsOk && SearchImpl.checkHyps E ce then "C errors_within_the_hypotheses_of_the_search_theorems 1"
        else "C errors_outside_the_hypotheses_of_the_search_theorems 1"
      -- the hypotheses of the capstone theorems at this error: those on table and costs (`capTable`), and
      -- the error configuration is one `Parser::lr` calls `recover` at (`Cpct.errCfg`; proved of every
      -- call in a run: `C05.cpct_restriction_invisible`); separately, the sufficient condition for the
      -- window hypothesis of `C06.cpct_reports_minimum_cost_repairs_at_every_error`
      let cap := (if X.capTable && Cpct.errCfg X.G X.A w ce then "C errors_within_the_hypotheses_of_the_capstone_theorems 1"
        else "C errors_outside_the_hypotheses_of_the_capstone_theorems 1") ::
        (if Cpct.errCfg X.G X.A w ce then [] else ["C errors_at_a_configuration_that_is_not_an_error_configuration 1"]) ++
        (if w.length ≤ ce.pos + GrmVerif.Extracted.TRY_PARSE_AT_MOST then ["C errors_within_the_window_hypothesis 1"] else [])
      -- the hypotheses of `C06.recover_never_panics` at this error (`C06.recover_never_panics_checked`):
      -- table part `npTable`; the input consists of real tokens, the configuration is an error
      -- configuration, its stack is a path of the automaton (`Cpct.noPanicCfgB`)
      let nopanic := X.npTable && Cpct.noPanicCfgB X.G X.A w ce
      let np := if nopanic then "C errors_where_the_model_of_recover_cannot_panic_by_theorem 1"
        else "C errors_outside_the_hypotheses_of_the_no_panic_theorem 1"
      let skip (why : String) : List String :=
        match errs with
        | [] => [hdr ++ why]
        | e :: rest =>
          let r := e.seqs.map (fun s => s.map toPRepair)
          [hdr ++ seqsStr r, s!"C errors_where_the_model_search_was_skipped_{why} 1", np] ++
          (match r with
           | [] => []
           | s0 :: _ =>
             match RankImpl.applyRepairs X.G X.A w ce s0 with
             | none => []
             | some c' => modelWalk X k w budget c' rest (n + 1))
      match SearchImpl.dijkstra E SEARCH_FUEL ce with
      | .fuelOut => skip "over_the_node_budget"
      | .panic => [hdr ++ "model-search-panics", np] ++
          (if nopanic then [s!"V fail model-of-recover-panics-inside-the-hypotheses-of-the-no-panic-theorem input={k} w={w} error={n}"] else [])
      | .ok cnds =>
        if (cnds.map (fun m => SearchImpl.countSeqs m.repairs)).sum > EXPAND_LIMIT then skip "over_the_expansion_budget"
        else
          match SearchImpl.recoverTail E RankImpl.dedup X.avoid (fun i => X.stride * i + 1)
              GrmVerif.Extracted.TRY_PARSE_AT_MOST ce cnds with
          | .ok (c', seqs) =>
            [hdr ++ seqsStr seqs, "C errors_where_the_full_model_of_recover_ran 1", hyp, np] ++ cap ++
            (if cnds.any (fun m => match m.repairs with | .merge _ _ _ => true | _ => false)
              then ["C errors_with_merged_success_nodes 1"] else []) ++
            (if seqs.isEmpty then [] else modelWalk X k w budget c' errs.tail (n + 1))
          | .fuelOut => [hdr ++ "model-post-processing-out-of-model-fuel", np]
          | .panic => [hdr ++ "model-post-processing-panics", np] ++
            (if nopanic then [s!"V fail model-of-recover-panics-inside-the-hypotheses-of-the-no-panic-theorem input={k} w={w} error={n}"] else [])

/-- the verdicts for one input; `which` ∈ {5, 6, 7} -/
partial def judge (X : Ctx) (which : Nat) (k : Nat) (i : Inp) : List String :=
  let w := i.w
  let fuel := 400 * (w.length + 6)
  -- C07: shape of the error list
  let v7 : List String :=
    if which != 7 then [] else
    let las := i.errs.map (·.laidx)
    let incr := (List.range (las.length - 1)).all (fun j => las.getD j 0 + N_SHIFTS ≤ las.getD (j + 1) 0)
    let allButLast := (i.errs.take (i.errs.length - 1)).all (fun e => !e.seqs.isEmpty)
    let allRepaired := i.errs.all (fun e => !e.seqs.isEmpty)
    (if incr then [] else [s!"V fail errors-not-progressing input={k} w={w} positions={las}"]) ++
    (if allButLast then [] else [s!"V fail error-without-repairs-is-not-last input={k} w={w}"]) ++
    (if i.tree.isSome == allRepaired then [] else [s!"V fail value-iff-all-repaired input={k} w={w} value={i.tree.isSome} allRepaired={allRepaired}"]) ++
    (if las.all (· ≤ w.length) then [] else [s!"V fail error-position-out-of-range input={k} w={w}"]) ++
    (if i.errs.length ≤ w.length / N_SHIFTS + 1 then [] else [s!"V fail too-many-errors input={k} w={w}"]) ++
    liveVerdict X k i
  -- walk through the errors, keeping the edited input
  -- `E` is always `C05.editedItems w.length 0 done` — the edited input the theorems
  -- `recRun_is_plain_parse_of_edited_input` / `returned_tree_spells_edited_input` speak about — for the
  -- errors `done` processed so far
  let rec go (E : List EItem) (done : List Err) (errs : List ErrD) (acc : List String) (n : Nat) : List String :=
    let toks := E.map (itemTok w)
    let (o, c) := runCfg X.G X.A toks fuel (init X.A)
    match errs with
    | [] =>
      match o with
      | .accept t =>
        if which != 5 then acc else
        let t' := relabel X.stride X.toklen w E t
        match i.tree with
        | some it =>
          if Act.treeEq it t' then acc
          else
            -- both trees valid derivations of the same edited input: the grammar is ambiguous (its table
            -- has conflicts); reductions made under the lexeme that was then found to be in error are kept
            let sameLeaves := Tree.leafIdxs it == Tree.leafIdxs t' && Tree.yield it == Tree.yield t'
            let label := if sameLeaves && Tree.valid X.G it && Tree.valid X.G t' && (!X.A.sr.isEmpty || !X.A.rr.isEmpty || C01.precResolved X.G X.A)
              then "value-differs-both-valid-derivations-of-the-edited-input-conflicting-grammar"
              else "value-differs-from-plain-parse-of-edited-input"
            acc ++ [s!"V fail {label} input={k} w={w} impl=[{" ".intercalate (C01.treeToks it)}] plain=[{" ".intercalate (C01.treeToks t')}]"]
        | none => acc ++ [s!"V fail no-value-although-edited-input-parses input={k} w={w}"]
      | .error _ _ =>
        if i.errs.all (fun e => !e.seqs.isEmpty) && which == 5 then acc ++ [s!"V fail edited-input-still-has-an-error-not-reported input={k} w={w}"] else acc
      | _ => acc
    | e :: rest =>
      match o with
      | .error j st =>
        let la := match E.getD j (EItem.real w.length) with | .real idx => idx | .ins _ b => b
        let la := if j ≥ E.length then w.length else la
        let acc := if (la != e.laidx || st != e.state) && which == 5
          then acc ++ [s!"V fail error-{n}-not-where-the-plain-parse-of-the-edited-input-fails input={k} w={w} reported={e.laidx},{e.state} plain={la},{st}"] else acc
        if la != e.laidx then acc else
        let start : Pos := ⟨c.pstack, e.laidx⟩
        let seqs := e.seqs.map (fun s => s.map toRepair)
        -- C05: every sequence repairs
        let acc := if which != 5 then acc else
          acc ++ (seqs.filterMap (fun s =>
            if validSeq X.G X.A w N_SHIFTS start s then none
            else some s!"V fail repair-does-not-repair input={k} w={w} error={n} at={e.laidx} seq={s.map repStr}")) ++
          (e.seqs.filterMap (fun s =>
            if lexemesOk e.laidx s then none
            else some s!"V fail repair-names-the-wrong-lexeme input={k} w={w} error={n} at={e.laidx} seq={s}"))
        -- C06: the set and its order
        let acc := if which != 6 || seqs.isEmpty then acc else
          let costs := seqs.map (seqCost w X.cost e.laidx)
          let c0 := costs.headD 0
          let sameCost := costs.all (· == c0)
          let noTrailingShift := seqs.all (fun s => s.getLast? != some .shift)
          let nodup := seqs.eraseDups.length == seqs.length
          let noEof := seqs.all (fun s => !s.contains (.insert X.G.eof))
          let hasAvoid := fun (s : List Repair) => s.any (fun r => match r with | .insert t => X.avoid t | _ => false)
          let keys := seqs.map (fun s => ((if hasAvoid s then 1 else 0), s.length))
          let sorted := (List.range (keys.length - 1)).all (fun j =>
            let a := keys.getD j (0, 0); let b := keys.getD (j + 1) (0, 0)
            a.1 < b.1 || (a.1 == b.1 && a.2 ≤ b.2))
          let basic :=
            (if sameCost then [] else [s!"V fail repairs-of-different-cost input={k} w={w} error={n} costs={costs}"]) ++
            (if noTrailingShift then [] else [s!"V fail repair-ends-in-shift input={k} w={w} error={n}"]) ++
            (if nodup then [] else [s!"V fail repair-reported-twice input={k} w={w} error={n}"]) ++
            (if noEof then [] else [s!"V fail eof-inserted input={k} w={w} error={n}"]) ++
            (if sorted then [] else [s!"V fail repairs-not-ranked-as-documented input={k} w={w} error={n} keys={keys}"])
          -- the model of `simplify_repairs` on the reported list: stripping, deduplicating and sorting a
          -- list that `simplify_repairs` produced gives it back in the same order (`C06.simplify_fixed_point`);
          -- lexeme `i` of the harness' lexer starts at byte `stride * i + 1`
          let reported := e.seqs.map (fun s => s.map toPRepair)
          let resimplified := RankImpl.simplify RankImpl.dedup X.avoid (fun i => X.stride * i + 1) reported
          let fixedPoint :=
            (if reported.length ≥ 2 then ["C errors_with_several_sequences_resimplified 1"] else []) ++
            (if resimplified == reported then [] else
              [s!"V fail reported-list-is-not-what-simplify_repairs-makes-of-it input={k} w={w} error={n} at={e.laidx} reported={reported.map (·.map prepStr)} model={resimplified.map (·.map prepStr)}"])
          let refv := if c0 > X.cap then ["C errors_above_the_cost_cap 1"] else
            "C errors_decided_by_the_reference 1" ::
            match refRepairs X.G X.A w X.cost N_SHIFTS GrmVerif.Extracted.TRY_PARSE_AT_MOST start c0 with
            | none => [s!"V fail reported-cost-below-every-valid-repair?? input={k} w={w} error={n} cost={c0}"]
            | some (cm, rs) =>
              if cm < c0 then [s!"V fail cheaper-repair-exists input={k} w={w} error={n} at={e.laidx} reported-cost={c0} min-cost={cm} e.g.={(rs.headD []).map repStr}"]
              else
                let missing := rs.filter (fun r => !seqs.contains r)
                let extra := seqs.filter (fun r => !rs.contains r)
                (if missing.isEmpty then [] else [s!"V fail minimum-cost-repair-not-reported input={k} w={w} error={n} at={e.laidx} cost={c0} missing={(missing.headD []).map repStr}"]) ++
                (if extra.isEmpty then [] else [s!"V fail reported-repair-not-in-reference-set input={k} w={w} error={n} at={e.laidx} cost={c0} extra={(extra.headD []).map repStr}"])
          acc ++ basic ++ fixedPoint ++ refv
        -- next edited input: the first sequence applied
        match seqs with
        | [] => acc
        | s0 :: _ =>
          let (items, after) := editSeq e.laidx s0
          let cut := E.take j ++ items ++ ((List.range (w.length - after)).map (fun d => EItem.real (after + d)))
          let done' := done ++ [⟨e.laidx, seqs⟩]
          let E' := GrmVerif.C05.editedItems w.length 0 done'
          -- cutting the previous edited input at the failing item gives the same list unless the error lies
          -- inside an earlier first sequence (only possible in a case that fails anyway); counted
          let acc := if which == 5 && E' != cut then acc ++ ["C edited_input_differs_from_cut_at_failing_item 1"] else acc
          go E' done' rest acc (n + 1)
      | .accept _ =>
        if which == 5 then acc ++ [s!"V fail error-{n}-reported-but-the-edited-input-parses input={k} w={w} at={e.laidx}"] else acc
      | _ => acc
  let E0 := GrmVerif.C05.editedItems w.length 0 []
  -- The driver's OWN semantics on state stacks: parse the real input until the table refuses a lexeme
  -- (the reductions made under that lexeme are kept), check the reported error is there, check every
  -- reported sequence from THAT stack, apply the first one, go on. On a table without conflicts this
  -- coincides with the plain parse of the edited input (the strict reading `go`); on a table with
  -- conflicts the kept reductions can make the two differ (known finding), and then this reading decides.
  let rec advance (c : Pos) (steps : Nat) : Option (Bool × Pos) :=   -- (accepted?, configuration)
    match steps with
    | 0 => none
    | steps + 1 =>
      match feed X.G X.A (nextTok X.G w c.pos) FUEL c.stack with
      | .shifted s => if c.pos < w.length then advance ⟨s, c.pos + 1⟩ steps else none
      | .accept s => some (true, ⟨s, c.pos⟩)
      | .error s => some (false, ⟨s, c.pos⟩)
      | _ => none
  let rec realWalk (c : Pos) (errs : List ErrD) (n : Nat) (budget : Nat) : List String :=
    match budget with
    | 0 => []
    | budget + 1 =>
    match advance c (w.length + 2) with
    | none => [s!"V fail own-semantics: the driver model crashes or spins input={k} w={w}"]
    | some (true, _) =>
      if errs.isEmpty then (if i.tree.isSome then [] else [s!"V fail own-semantics: accepted but no value reported input={k} w={w}"])
      else [s!"V fail own-semantics: error {n} reported but the driver's own run accepts input={k} w={w}"]
    | some (false, ce) =>
      match errs with
      | [] =>
        if i.errs.all (fun e => !e.seqs.isEmpty) then
          [s!"V fail own-semantics: a further error at {ce.pos} is not reported input={k} w={w}"] else []
      | e :: rest =>
        if ce.pos != e.laidx || ce.stack.headD 0 != e.state then
          [s!"V fail own-semantics: error {n} reported at {e.laidx},{e.state} but the driver's own run stops at {ce.pos},{ce.stack.headD 0} input={k} w={w}"]
        else
          let seqs := e.seqs.map (fun s => s.map toRepair)
          let bad := seqs.filterMap (fun s =>
            if validSeq X.G X.A w N_SHIFTS ce s then none
            else some s!"V fail own-semantics: repair-does-not-repair input={k} w={w} error={n} at={e.laidx} seq={s.map repStr}")
          if !bad.isEmpty then bad else
          match seqs with
          | [] => []
          | s0 :: _ =>
            match applySeq X.G X.A w ce s0 with
            | none => [s!"V fail own-semantics: first sequence does not apply input={k} w={w} error={n}"]
            | some c' => realWalk c' rest (n + 1) budget
  let hasConflicts := !X.A.sr.isEmpty || !X.A.rr.isEmpty || C01.precResolved X.G X.A
  let strict := if which == 7 then [] else go E0 [] i.errs [] 0
  let relaxed :=
    if which != 5 || !hasConflicts || strict.all (fun l => l.startsWith "C ") then strict
    else
      let own := realWalk ⟨[X.A.start], 0⟩ i.errs 0 (w.length + 3)
      if !own.isEmpty then own
      else
        -- the strict reading fails only because of reductions kept on a table with conflicts
        strict.map (fun l =>
          if l.startsWith "V fail " && !(((l.splitOn " ").getD 2 "").endsWith "-conflicting-grammar") then
            match l.splitOn " " with
            | v :: fl :: label :: tl => " ".intercalate (v :: fl :: (label ++ "-on-a-table-with-conflicts-conflicting-grammar") :: tl)
            | _ => l
          else l)
  let mw := if which != 6 then [] else modelWalk X k w (w.length + 3) ⟨[X.A.start], 0⟩ i.errs 0
  v7 ++ relaxed ++ mw

def handle (args : List Nat) : String :=
  match parseGrammar args with
  | none => "bad-request"
  | some (G, rest) =>
    match parseAutomaton G rest with
    | none => "bad-request"
    | some (A, rest) =>
      let costs := rest.take G.ntoks
      let rest := rest.drop G.ntoks
      let avoid := rest.take G.ntoks
      match rest.drop G.ntoks with
      | stride :: toklen :: cap :: which :: n :: rest =>
        match parseInps n rest with
        | none => "bad-request"
        | some inps =>
          -- hypotheses of `C07.recovering_parse_returns` on this automaton: `Cert.check`, and the
          -- termination certificate (`failAdj … = none ↔ termCheckAdj … = true`, `Term.failAdj_none_iff`)
          let certOk := which != 7 || (Cert.failing G A).isEmpty
          let termOk := which != 7 || (C01.termFailure G A).1.isNone
          let liveCnt := if which != 7 then [] else
            (if certOk && termOk then ["C liveness_hypotheses_hold 1"] else ["C liveness_outside_hypotheses 1"]) ++
            (if certOk then [] else ["C liveness_outside_certificate_fails 1"]) ++
            (if termOk then [] else ["C liveness_outside_termination_not_certified 1"])
          let X : Ctx := ⟨G, A, fun t => costs.getD t 1, fun t => avoid.getD t 0 != 0, stride, toklen, cap,
            which == 7 && certOk && termOk, costs.all (· ≥ 1),
            which == 6 && costs.all (· ≥ 1) && A.sr.isEmpty && A.rr.isEmpty && !C01.precResolved G A &&
              Cpct.tableOkB G A && GrmVerif.C05.wholeRunCert G A,
            which == 6 && costs.all (· ≥ 1) && Cpct.noPanicTableB G A GrmVerif.Extracted.PARSE_AT_LEAST⟩
          let vs := (List.range inps.length).flatMap (fun k =>
            let i := inps.getD k ⟨[], 0, none, []⟩
            if i.kind != 1 then [] else judge X which k i)
          let fails := vs.filter (fun l => !l.startsWith "C " && !l.startsWith "Mr ")
          -- the decidable hypothesis of the whole-run theorems of C05, evaluated on the dumped table
          let eofc := if which != 5 then [] else
            if GrmVerif.C05.eofOk G A then ["C tables_within_the_end_of_input_discipline 1"]
            else ["C tables_OUTSIDE_the_end_of_input_discipline 1"]
          -- the decidable hypotheses of the certified whole-run theorems (`C05.wholeRunCert`: `Cert.check`,
          -- `Cert.checkLA`, `Cert.vpClosed`, `colsOk`), evaluated on the dumped table; a table with
          -- conflicts or precedence-resolved cells cannot pass L4 and is counted without evaluating
          let certc := if which != 5 then [] else
            if !A.sr.isEmpty || !A.rr.isEmpty || C01.precResolved G A then
              ["C tables_outside_the_hypotheses_of_the_whole_run_theorems 1",
               "C tables_outside_because_of_conflicts_or_precedence 1"]
            else if GrmVerif.C05.wholeRunCert G A then
              ["C tables_within_the_hypotheses_of_the_whole_run_theorems 1"]
            else
              ["C tables_outside_the_hypotheses_of_the_whole_run_theorems 1",
               "C tables_conflict_free_but_a_certificate_fails 1"]
          let cnts := vs.filter (fun l => l.startsWith "C ") ++ eofc ++ certc
          let ms := vs.filter (fun l => l.startsWith "Mr ")
          "\n".intercalate ((if fails.isEmpty then ["V ok"] else fails) ++ ms ++ cnts ++ liveCnt)
      | _ => "bad-request"

end GrmVerif.Drive.C05
