import GrmVerif.Lemmas.YaccRender
import GrmVerif.Lemmas.YaccDeclRender
import GrmVerif.Lemmas.YaccFileRender
import GrmVerif.Drive.Util
/-!
Driver for C10, text → AST stage (request `3` of C10).

Request `3 <kind> <pre> <post> <rules>`: an abstract description of a rules section (the harness derives
it from a generated grammar that falls inside the hypotheses of `C10.parse_rules_roundtrip`), the
declarations text `pre` that precedes the `%%` and the text `post` that follows the rules (empty, or
`%%` + programs).

    str   = len cp…                tok = 0 0 str (bare) | 1 quote-cp str (quoted)     opt x = 0 | 1 x
    prod  = empty(0|1)  n × tok  opt tok (%prec)  opt str (action text)
    rule  = str (name)  str (Grmtools action type, else empty)  prod  n × prod
    rules = n × rule

The text is `pre ++ "%%\n" ++ renderRules rules ++ post` (rendered HERE; the harness renders it too and
feeds it to the real parser). Reply:
  `M …`  the model of the whole parser (`YaccParse.parse`) on that text;
  `S …`  the image `runRules` of the description (no parsing of the rules) applied to the state the model
         of `parse_declarations` reaches on `pre`;
  `V ok` the hypotheses of the theorem hold for this case (`wfRules`, kind, what follows the rules, the
         declarations end where `pre` ends without error, every `%token` name is in the token set).
-/
namespace GrmVerif.Drive.C10T
open GrmVerif GrmVerif.YaccParse GrmVerif.YaccRender GrmVerif.Drive
open GrmVerif.Header (byteLen)

abbrev P := StateT (List Nat) Option

def nat : P Nat := fun s => match s with | [] => none | x :: r => some (x, r)
def str : P (List Char) := fun s => match s with
  | [] => none
  | n :: r => if r.length < n then none else some ((r.take n).map Char.ofNat, r.drop n)
def opt {α : Type} (p : P α) : P (Option α) := do
  let t ← nat
  if t == 0 then pure none else do let x ← p; pure (some x)
def many {α : Type} (p : P α) : Nat → P (List α)
  | 0 => pure []
  | n + 1 => do let x ← p; let xs ← many p n; pure (x :: xs)
def listOf {α : Type} (p : P α) : P (List α) := do let n ← nat; many p n

def tok : P RTok := do
  let t ← nat; let q ← nat; let s ← str
  pure (if t == 0 then .bare s else .quoted (Char.ofNat q) s)

def rprod : P RProd := do
  let e ← nat; let syms ← listOf tok; let prec ← opt tok; let action ← opt str
  pure { empty := e == 1, syms, prec, action }

def rrule : P RRule := do
  let name ← str; let ty ← str; let first ← rprod; let more ← listOf rprod
  pure { name, ty, first, more }

def fStr (s : List Char) : String := "s" ++ ".".intercalate (s.map (fun c => toString c.toNat))
def fSpan (s : Header.Span) : String := s!"{s.1}-{s.2}"
def fNS (x : Name × Header.Span) : String := s!"{fStr x.1} {fSpan x.2}"
def fSym (s : Sym) : String := s!"{if s.isTok then "t" else "r"}{fStr s.name} {fSpan s.span}"
def fProd (p : Prod) : String :=
  s!"P {fStr p.rule} {" ".intercalate (toString p.syms.length :: p.syms.map fSym)} " ++
  s!"{match p.prec with | none => "N" | some n => fStr n} {if p.action then 1 else 0} {fSpan p.span}"

/-- start, rules, productions, token set -/
def fAst (a : Ast) : String :=
  s!"st {match a.start with | none => "N" | some x => fNS x} " ++
  s!"R {" ".intercalate (toString a.rules.length :: a.rules.map fNS)} " ++
  s!"{" ".intercalate (a.prods.map fProd)} " ++
  s!"T {" ".intercalate (toString a.tokens.length :: a.tokens.map fNS)}"

def handle (args : List Nat) : String :=
  match args with
  | k :: rest =>
    match (do let pre ← str; let post ← str; let rs ← listOf rrule; pure (pre, post, rs)).run rest with
    | some ((pre, post, rs), _) =>
      let kind := if k < 3 then Kind.original else if k == 3 then Kind.grmtools else Kind.eco
      let g := k == 3
      let src := pre ++ '%' :: '%' :: '\n' :: (renderRules g rs ++ post)
      let fuel := byteLen src + 1
      let m := match YaccParse.parse src kind with
        | .ok (i, a) => s!"ok {i} {fAst a}"
        | .err (es, _) => s!"err {es.length}"
        | .panic => "panic"
        | .fuelOut => "fuelOut"
      let postOk := match post with
        | [] => true
        | '%' :: '%' :: _ => true
        | _ => false
      let sv : String × String := match Header.parseWith src false fuel with
        | .ok (_, pos) =>
          match parseDeclarations src kind fuel pos {} with
          | .ok (i, st) =>
            let r := runRules g (i + 3) rs (St.incNl 1 st)
            let why :=
              (if wfRules g rs then [] else ["wfRules"]) ++
              (if postOk then [] else ["post"]) ++ (if i == byteLen pre then [] else ["declarations-end"]) ++
              (if st.errs.isEmpty then [] else ["declaration-errors"]) ++
              (if st.ast.tokenDirs.all st.ast.hasToken then [] else ["token-directives"]) ++
              (if r.1 + byteLen post == byteLen src then [] else ["image-end"])
            (s!"ok {byteLen src} {fAst r.2.ast}", if why.isEmpty then "ok" else "fail hypothesis " ++ " ".intercalate why)
          | _ => ("declarations-fail", "fail hypothesis declarations")
        | _ => ("header-fail", "fail hypothesis header")
      s!"M {m}\nS {sv.1}\nV {sv.2}"
    | none => "bad-request"
  | _ => "bad-request"

/-! ### request `4`: a whole file `declarations %% rules [%% programs]`

    decl  = 0 str (%start) | 1 n × tok (%token, n ≥ 1) | 2 kind(0 left,1 right,2 nonassoc) n × tok
          | 3 n × tok (%avoid_insert) | 4 n × tok (%implicit_tokens) | 5 str (%expect digits)
          | 6 str (%expect-rr digits) | 7 str (%actiontype) | 8 str str (%parse-param name type)
          | 9 tok str (%epp token, unescaped text)
    request = 4 kind  n × decl  n × rule  opt str (programs text)

`M` the model of the whole parser on the text rendered here, `S` the image `runFile` of the
description (no parsing at all), `V ok` when the hypotheses of `C10.parse_roundtrip_partial` hold. -/

def toks1 : P (Option (RTok × List RTok)) := do
  let l ← listOf tok
  pure (match l with | [] => none | t :: ts => some (t, ts))

def rdecl : P (Option RDecl) := do
  let tag ← nat
  match tag with
  | 0 => do let n ← str; pure (some (.start n))
  | 1 => do let l ← toks1; pure (l.map fun (t, ts) => .token t ts)
  | 2 => do
    let k ← nat
    let l ← toks1
    pure (l.map fun (t, ts) => .prec (if k == 0 then .left else if k == 1 then .right else .nonassoc) t ts)
  | 3 => do let l ← toks1; pure (l.map fun (t, ts) => .avoidInsert t ts)
  | 4 => do let l ← toks1; pure (l.map fun (t, ts) => .implicitTokens t ts)
  | 5 => do let n ← str; pure (some (.expect n))
  | 6 => do let n ← str; pure (some (.expectRR n))
  | 7 => do let n ← str; pure (some (.actiontype n))
  | 8 => do let n ← str; let ty ← str; pure (some (.parseParam n ty))
  | 9 => do let t ← tok; let v ← str; pure (some (.epp t v))
  | _ => pure none

def sortStrs (l : List String) : List String := l.mergeSort (fun x y => x < y || x == y)

def fAssoc : Assoc → Nat
  | .left => 0
  | .right => 1
  | .nonassoc => 2

def fONS (o : Option (List (Name × Header.Span))) : String :=
  match o with
  | none => "N"
  | some l => " ".intercalate (toString l.length :: sortStrs (l.map fNS))

def fONat (o : Option (Nat × Header.Span)) : String :=
  match o with
  | none => "N"
  | some (n, sp) => s!"{n} {fSpan sp}"

/-- every field of the model's AST that the declarations and the programs section fill -/
def fAstFull (a : Ast) : String :=
  fAst a ++ s!" TD {" ".intercalate (toString a.tokenDirs.length :: sortStrs (a.tokenDirs.map fStr))}" ++
  s!" PR {" ".intercalate (toString a.precs.length ::
      sortStrs (a.precs.map fun (n, l, k, sp) => s!"{fStr n} {l} {fAssoc k} {fSpan sp}"))}" ++
  s!" AV {fONS a.avoidInsert} IM {fONS a.implicitTokens} EX {fONat a.expect} ER {fONat a.expectrr}" ++
  s!" PP {match a.parseParam with | none => "N" | some t => fStr t}" ++
  s!" EP {" ".intercalate (toString a.epp.length ::
      sortStrs (a.epp.map fun (n, sp, v, vsp) => s!"{fStr n} {fSpan sp} {fStr v} {fSpan vsp}"))}" ++
  s!" PG {match a.programs with | none => "N" | some n => toString n}"

def postOf (prog : Option (List Char)) : List Char :=
  match prog with
  | none => []
  | some p => '%' :: '%' :: '\n' :: p

def handleFile (args : List Nat) : String :=
  match args with
  | k :: rest =>
    match (do let ds ← listOf rdecl; let rs ← listOf rrule; let prog ← opt str; pure (ds, rs, prog)).run rest with
    | some ((ods, rs, prog), _) =>
      if ods.any Option.isNone then "bad-request" else
      let ds := ods.filterMap id
      let kind := if k < 3 then Kind.original else if k == 3 then Kind.grmtools else Kind.eco
      let g := k == 3
      let post := postOf prog
      let src := renderFile g ds rs post
      let m := match YaccParse.parse src kind with
        | .ok (i, a) => s!"ok {i} {fAstFull a}"
        | .err (es, _) => s!"err {es.length}"
        | .panic => "panic"
        | .fuelOut => "fuelOut"
      let progOk := match prog with
        | none => true
        | some [] => true
        | some (c :: _) => !(YaccLex.isBlank c || YaccLex.isEol c || c == '/')
      let img := runFile g ds rs post
      let why :=
        (if wfDecls kind ds then [] else ["wfDecls"]) ++ (if wfRules g rs then [] else ["wfRules"]) ++
        (if progOk then [] else ["programs-begin-with-layout"]) ++ (if img.isSome then [] else ["repeated-declaration"])
      let s := match img with
        | some st => s!"ok {byteLen src} {fAstFull st.ast}"
        | none => "no-image"
      s!"M {m}\nS {s}\nV {if why.isEmpty then "ok" else "fail hypothesis " ++ " ".intercalate why}"
    | none => "bad-request"
  | _ => "bad-request"

end GrmVerif.Drive.C10T
