import GrmVerif.Model.Build
import GrmVerif.Drive.Util
/-! Driver for C18. Request (naturals):
  `modeIdx g l nS s… nOps (code a b dt)… nRows (pcls pkey pcid lcls lcid)…`
* `modeIdx` index of the pipeline option in the settings vector (value 2 = `lrpar_config`),
* ops: code 0 edit grammar to text `a`, 1 edit lexer to text `a`, 2 set option `a` to `b`, 3 build; `dt` is
  the time that passes before the op,
* one row per build op, in order: what the generators yield for the world of that build, measured by the
  harness with a build into an empty directory (`pcls` 0 early / 1 late / 2 ok, `lcls` 0 pre / 1 post /
  2 missing-token panic / 3 ok).
Reply: `M b1:… b2:…`, per build step
  `pstatus,regenerated,pexists,ptext,pmtime,lstatus,lrewritten,lexists,ltext,lmtime`. -/
namespace GrmVerif.Drive.C18
open GrmVerif.Build GrmVerif.Drive

def parseOps : Nat → List Nat → Option (List Op × List Nat)
  | 0, r => some ([], r)
  | n + 1, c :: a :: b :: dt :: r => do
    let op ← match c with
      | 0 => some (Op.editGrammar a dt)
      | 1 => some (Op.editLexer a dt)
      | 2 => some (Op.changeOption a b dt)
      | 3 => some (Op.build dt)
      | _ => none
    let (ops, r') ← parseOps n r
    some (op :: ops, r')
  | _, _ => none

def parseRows : Nat → List Nat → Option (List (PRes × LRes) × List Nat)
  | 0, r => some ([], r)
  | n + 1, pc :: pk :: pt :: lc :: lt :: r => do
    let p ← match pc with
      | 0 => some PRes.early
      | 1 => some (PRes.late pk)
      | 2 => some (PRes.ok pk pt)
      | _ => none
    let l ← match lc with
      | 0 => some LRes.pre
      | 1 => some LRes.post
      | 2 => some LRes.missing
      | 3 => some (LRes.ok lt)
      | _ => none
    let (rows, r') ← parseRows n r
    some ((p, l) :: rows, r')
  | _, _ => none

/-- the world at each build op (independent of what the builds do) -/
def worldsAt (w : World) : List Op → List World
  | [] => []
  | .editGrammar g _ :: ops => worldsAt { w with g := g } ops
  | .editLexer l _ :: ops => worldsAt { w with l := l } ops
  | .changeOption i v _ :: ops => worldsAt { w with s := w.s.set i v } ops
  | .build _ :: ops => w :: worldsAt w ops

def pCode : PStatus → Nat × Nat
  | .ok b => (0, if b then 1 else 0)
  | .err => (1, 0)
  | .notInvoked => (3, 0)

def lCode : LStatus → Nat × Nat
  | .ok b => (0, if b then 1 else 0)
  | .err => (1, 0)
  | .panic => (2, 0)
  | .notInvoked => (3, 0)

def showStep (k : Nat) (r : State × PStatus × LStatus) : String :=
  let p := pCode r.2.1
  let l := lCode r.2.2
  let pf := match r.1.pout with
    | some f => [1, f.content, f.mtime]
    | none => [0, 0, 0]
  let lf := match r.1.lout with
    | some f => [1, f.content, f.mtime]
    | none => [0, 0, 0]
  s!"b{k}:" ++ ",".intercalate (([p.1, p.2] ++ pf ++ [l.1, l.2] ++ lf).map toString)

def showTrace (k : Nat) : List (State × PStatus × LStatus) → List String
  | [] => []
  | r :: rs => showStep k r :: showTrace (k + 1) rs

def handle (args : List Nat) : String :=
  match args with
  | modeIdx :: g :: l :: rest =>
    match takeList rest with
    | some (s, nOps :: rest2) =>
      match parseOps nOps rest2 with
      | some (ops, nRows :: rest3) =>
        match parseRows nRows rest3 with
        | some (rows, []) =>
          let ws := worldsAt ⟨g, l, s⟩ ops
          if ws.length ≠ rows.length then "bad-request" else
          let tbl := ws.zip rows
          let G : Gen := ⟨fun w => ((tbl.lookup w).map (·.1)).getD .early,
            fun w => ((tbl.lookup w).map (·.2)).getD .pre, fun s => s.getD modeIdx 0 == 2⟩
          "M " ++ " ".intercalate (showTrace 1 (trace G (init g l s) ops))
        | _ => "bad-request"
      | _ => "bad-request"
    | _ => "bad-request"
  | _ => "bad-request"

end GrmVerif.Drive.C18
