import GrmVerif.Model.Dollar
import GrmVerif.Lemmas.Dollar
import GrmVerif.Drive.Util
/-!
Driver for C13.

Request kind 0 (`$`-substitution of one action text):
  `0 ws npfx pfx… n cp… k numeric-cp…`
  `pfx` = ACTION_PREFIX as read from the generated file, `cp…` the action text, `numeric-cp…` the
  characters of the text for which Rust's `char::is_numeric` holds, `ws` = 1 if the reply is to be
  stripped of white space (the implementation's text went through a pretty-printer).
  Reply: `M r` from the model `dollar`, `S r` from the specification `dollarSpec`, where
  `r` = `ok len cp…` | `err pos` | `panic` | `fuel`.

Request kind 1 (wrapper of one production): `1 n (kind idx)…` with kind 0 = token, 1 = rule.
  The model's `unpack` is run on the canonical fitting drain (entry i: lexeme 100+i, faulty iff i is
  odd / value 200+i of variant idx). Reply: `M a…` from `unpack`, `S a…` from the specification
  (`argOf` of the i-th entry), each `a` = `name=O<id>` | `name=E<id>` | `name=V<v>`.

Request kind 2 (`2 seed tier pair input`): a translation-validation case; nothing to compute here.
-/
namespace GrmVerif.Drive.C13
open GrmVerif.Dollar GrmVerif.Drive

def isWs (c : Char) : Bool := c = ' ' || c = '\n' || c = '\t' || c = '\r'

/-- drop a `,` that directly precedes `)` (the pretty-printer removes trailing commas) -/
def dropTrailingCommas : List Char → List Char
  | ',' :: ')' :: r => ')' :: dropTrailingCommas r
  | c :: r => c :: dropTrailingCommas r
  | [] => []

def fmtRes (ws : Bool) : Res → String
  | .ok o =>
    let o := if ws then dropTrailingCommas (o.filter (fun c => !isWs c)) else o
    s!"ok {o.length} {joinNats (o.map Char.toNat)}"
  | .err p => s!"err {p}"
  | .panic => "panic"
  | .fuel => "fuel"

def canonDrain : List Sym → Nat → List AStack
  | [], _ => []
  | .tok _ :: ss, i => .lexeme (100 + i) (i % 2 == 1) :: canonDrain ss (i + 1)
  | .rule r :: ss, i => .value r (200 + i) :: canonDrain ss (i + 1)

def fmtArg : Arg → String
  | .okLex id => s!"O{id}"
  | .errLex id => s!"E{id}"
  | .val v => s!"V{v}"

def specArg : AStack → Arg
  | .lexeme id false => .okLex id
  | .lexeme id true => .errLex id
  | .value _ v => .val v

def parseSyms : List Nat → Option (List Sym)
  | [] => some []
  | 0 :: t :: rest => (parseSyms rest).map (Sym.tok t :: ·)
  | 1 :: r :: rest => (parseSyms rest).map (Sym.rule r :: ·)
  | _ => none

def fmtBound (pfx : List Char) (as : List Arg) : String :=
  " ".intercalate ((as.zip (argNames pfx as.length)).map (fun (a, n) => String.ofList n ++ "=" ++ fmtArg a))

def handle (args : List Nat) : String :=
  match args with
  | 0 :: ws :: rest =>
    match takeList rest with
    | none => "bad-request"
    | some (pfx, rest) =>
      match takeList rest with
      | none => "bad-request"
      | some (cps, rest) =>
        match takeList rest with
        | none => "bad-request"
        | some (nums, _) =>
          let pfx := pfx.map Char.ofNat
          let s := cps.map Char.ofNat
          let num : Char → Bool := fun c => nums.contains c.toNat
          s!"M {fmtRes (ws == 1) (dollar num pfx s)}\nS {fmtRes (ws == 1) (dollarSpec num pfx s)}"
  | 1 :: n :: rest =>
    match parseSyms (rest.take (2 * n)) with
    | none => "bad-request"
    | some syms =>
      let pfx := "__gt_".toList
      let drain := canonDrain syms 0
      let m := match unpack syms drain with
        | none => "panic"
        | some b => fmtBound pfx b
      let sp := fmtBound pfx (drain.map specArg)
      s!"M {m}\nS {sp}"
  | 2 :: _ => "X translation-validation case: no model part, the verdict is the harness's H line"
  | _ => "bad-request"

end GrmVerif.Drive.C13
