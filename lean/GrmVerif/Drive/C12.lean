import GrmVerif.Model.Header
import GrmVerif.Lemmas.HeaderSpec
import GrmVerif.Drive.Util
/-!
Driver for C12. Request: `category 0 nchars cp… k outcome₁ … outcome_k` — the text and what each of
the k entry points run on it returned (category 0 header / 1 yacc / 2 lex text decides which entry
points; the first two are always `GrmtoolsSectionParser::new(src, false|true).parse()`).
Reply: `M …` twice (model of the header parser for required = false, true; same format as the
harness's two `I` lines) and `V ok|fail …` (the verified checker `outcomesOKb` on all k outcomes).
outcome: `0` (did not return) | `1 pos nspans (s e)…` | `2 nerrs (nspans (s e)…)…`
-/
namespace GrmVerif.Drive.C12
open GrmVerif.Header GrmVerif.Drive

def fmtSpan (s : Span) : String := s!"{s.1} {s.2}"

def fmtNs (n : Namespaced) : String :=
  match n.ns with
  | none => s!"- {fmtSpan n.member.2}"
  | some (_, s) => s!"+ {fmtSpan s} {fmtSpan n.member.2}"

partial def fmtSetting : Setting → String
  | .unitary n => s!"U {fmtNs n}"
  | .ctor c a => s!"C {fmtNs c} {fmtNs a}"
  | .num n s => s!"N {n} {fmtSpan s}"
  | .str s => s!"T {fmtSpan s}"
  | .array xs o c => s!"A {xs.length} {fmtSpan o} {fmtSpan c}" ++ String.join (xs.map (fun x => " " ++ fmtSetting x))

def fmtValue : Value → String
  | .flag b s => s!"F{if b then 1 else 0} {fmtSpan s}"
  | .setting s => fmtSetting s

def fmtEntry (e : Entry) : String :=
  s!"K{".".intercalate (e.key.map (fun c => toString c.toNat))} {fmtSpan e.loc} {fmtValue e.val}"

def fmtKind : ErrKind → String
  | .missing => "missing"
  | .illegalName => "illegalname"
  | .expected c => s!"expected.{c.toNat}"
  | .unexpected c => s!"unexpected.{c.toNat}"
  | .dup => "dup"
  | .conv => "conv"

def fmtErr (e : HErr) : String :=
  s!"{fmtKind e.kind} {e.spans.length}" ++ String.join (e.spans.map (fun s => " " ++ fmtSpan s))

def fmtRes : Res (List HErr) (List Entry × Nat) → String
  | .ok (es, pos) => s!"ok {pos} {es.length}" ++ String.join (es.map (fun e => " " ++ fmtEntry e))
  | .err errs => s!"err {errs.length}" ++ String.join (errs.map (fun e => " " ++ fmtErr e))
  | .panic => "panic"
  | .fuelOut => "hang"

def takeSpans : Nat → List Nat → Option (List Span × List Nat)
  | 0, rest => some ([], rest)
  | n + 1, s :: e :: rest => (takeSpans n rest).map (fun (l, r) => ((s, e) :: l, r))
  | _ + 1, _ => none

def takeErrs : Nat → List Nat → Option (List (List Span) × List Nat)
  | 0, rest => some ([], rest)
  | n + 1, k :: rest =>
    match takeSpans k rest with
    | none => none
    | some (sp, rest) => (takeErrs n rest).map (fun (l, r) => (sp :: l, r))
  | _ + 1, [] => none

/-- one self-delimiting outcome off the front of the request -/
def takeOutcome : List Nat → Option (Outcome × List Nat)
  | 0 :: rest => some (.crashed, rest)
  | 1 :: pos :: n :: rest => (takeSpans n rest).map (fun (sp, r) => (.value pos sp, r))
  | 2 :: n :: rest => (takeErrs n rest).map (fun (es, r) => (.errors es, r))
  | _ => none

def takeOutcomes : Nat → List Nat → Option (List Outcome)
  | 0, _ => some []
  | n + 1, rest =>
    match takeOutcome rest with
    | none => none
    | some (o, rest) => (takeOutcomes n rest).map (o :: ·)

def why (src : List Char) : Outcome → String
  | .crashed => "the call did not return a value or errors"
  | .value pos spans =>
    if !isBoundaryB src pos then s!"end position {pos} is not a character boundary of the text"
    else match spans.find? (fun s => !spanWFb src s) with
      | some s => s!"span {s.1}..{s.2} of the result is not start<=end<=len({byteLen src}) on character boundaries"
      | none => "?"
  | .errors errs =>
    if errs.isEmpty then "Err with an empty error list"
    else match errs.flatten.find? (fun s => !spanWFb src s) with
      | some s => s!"error span {s.1}..{s.2} is not start<=end<=len({byteLen src}) on character boundaries"
      | none => "?"

def firstBad (src : List Char) : List Outcome → Nat → String
  | [], _ => "?"
  | o :: os, k => if outcomeOKb src o then firstBad src os (k + 1) else s!"entry point {k}: {why src o}"

def handle (args : List Nat) : String :=
  match args with
  | _cat :: _ :: rest =>
    match takeList rest with
    | none => "bad-request"
    | some (cps, rest) =>
      let src : List Char := cps.map Char.ofNat
      match rest with
      | [] => "bad-request"
      | k :: rest =>
        match takeOutcomes k rest with
        | none => "bad-request"
        | some os =>
          let v := if outcomesOKb src os then "V ok" else "V fail " ++ firstBad src os 0
          s!"M {fmtRes (parse src false)}\nM {fmtRes (parse src true)}\n{v}"
  | _ => "bad-request"

end GrmVerif.Drive.C12
