import GrmVerif.Model.Header
import GrmVerif.Model.YaccParse
import GrmVerif.Lemmas.HeaderSpec
import GrmVerif.Drive.Util
/-!
Driver for C12. Request: `category 0 nchars cp… k outcome₁ … outcome_k` — the text and what each of
the k entry points run on it returned (category 0 header / 1 yacc / 2 lex text decides which entry
points; the first two are always `GrmtoolsSectionParser::new(src, false|true).parse()`).
For category 1 (yacc) the reply also has five `My k …` lines: the model of the yacc text parser
(`Model/YaccParse.lean`) for the five `YaccKind`s the harness runs (k = 0 Grmtools, 1 Eco, 2–4 the
three `Original(_)`), in the format of the harness's `Iy` lines: the result of `parse` (ok / error
kinds with spans, in order) and the AST summary (see `fmtAst`).
Reply: `M …` twice (model of the header parser for required = false, true; same format as the
harness's two `I` lines) and `V ok|fail …` (the verified checker `outcomesOKb` on all k outcomes).
outcome: `0` (did not return) | `1 pos nspans (s e)…` | `2 nerrs (nspans (s e)…)…`
-/
namespace GrmVerif.Drive.C12
open GrmVerif.Header GrmVerif.Drive

def fmtSpan (s : Span) : String := s!"{s.1} {s.2}"

def fmtNs (n : Namespaced) : String :=
  match n.ns with
  | none => s!"- {fmtSpan n.member.2}"
  | some (_, s) => s!"+ {fmtSpan s} {fmtSpan n.member.2}"

partial def fmtSetting : Setting → String
  | .unitary n => s!"U {fmtNs n}"
  | .ctor c a => s!"C {fmtNs c} {fmtNs a}"
  | .num n s => s!"N {n} {fmtSpan s}"
  | .str s => s!"T {fmtSpan s}"
  | .array xs o c => s!"A {xs.length} {fmtSpan o} {fmtSpan c}" ++ String.join (xs.map (fun x => " " ++ fmtSetting x))

def fmtValue : Value → String
  | .flag b s => s!"F{if b then 1 else 0} {fmtSpan s}"
  | .setting s => fmtSetting s

def fmtEntry (e : Entry) : String :=
  s!"K{".".intercalate (e.key.map (fun c => toString c.toNat))} {fmtSpan e.loc} {fmtValue e.val}"

def fmtKind : ErrKind → String
  | .missing => "missing"
  | .illegalName => "illegalname"
  | .expected c => s!"expected.{c.toNat}"
  | .unexpected c => s!"unexpected.{c.toNat}"
  | .dup => "dup"
  | .conv => "conv"

def fmtErr (e : HErr) : String :=
  s!"{fmtKind e.kind} {e.spans.length}" ++ String.join (e.spans.map (fun s => " " ++ fmtSpan s))

def fmtRes : Res (List HErr) (List Entry × Nat) → String
  | .ok (es, pos) => s!"ok {pos} {es.length}" ++ String.join (es.map (fun e => " " ++ fmtEntry e))
  | .err errs => s!"err {errs.length}" ++ String.join (errs.map (fun e => " " ++ fmtErr e))
  | .panic => "panic"
  | .fuelOut => "hang"

def takeSpans : Nat → List Nat → Option (List Span × List Nat)
  | 0, rest => some ([], rest)
  | n + 1, s :: e :: rest => (takeSpans n rest).map (fun (l, r) => ((s, e) :: l, r))
  | _ + 1, _ => none

def takeErrs : Nat → List Nat → Option (List (List Span) × List Nat)
  | 0, rest => some ([], rest)
  | n + 1, k :: rest =>
    match takeSpans k rest with
    | none => none
    | some (sp, rest) => (takeErrs n rest).map (fun (l, r) => (sp :: l, r))
  | _ + 1, [] => none

/-- one self-delimiting outcome off the front of the request -/
def takeOutcome : List Nat → Option (Outcome × List Nat)
  | 0 :: rest => some (.crashed, rest)
  | 1 :: pos :: n :: rest => (takeSpans n rest).map (fun (sp, r) => (.value pos sp, r))
  | 2 :: n :: rest => (takeErrs n rest).map (fun (es, r) => (.errors es, r))
  | _ => none

def takeOutcomes : Nat → List Nat → Option (List Outcome)
  | 0, _ => some []
  | n + 1, rest =>
    match takeOutcome rest with
    | none => none
    | some (o, rest) => (takeOutcomes n rest).map (o :: ·)

def why (src : List Char) : Outcome → String
  | .crashed => "the call did not return a value or errors"
  | .value pos spans =>
    if !isBoundaryB src pos then s!"end position {pos} is not a character boundary of the text"
    else match spans.find? (fun s => !spanWFb src s) with
      | some s => s!"span {s.1}..{s.2} of the result is not start<=end<=len({byteLen src}) on character boundaries"
      | none => "?"
  | .errors errs =>
    if errs.isEmpty then "Err with an empty error list"
    else match errs.flatten.find? (fun s => !spanWFb src s) with
      | some s => s!"error span {s.1}..{s.2} is not start<=end<=len({byteLen src}) on character boundaries"
      | none => "?"

def firstBad (src : List Char) : List Outcome → Nat → String
  | [], _ => "?"
  | o :: os, k => if outcomeOKb src o then firstBad src os (k + 1) else s!"entry point {k}: {why src o}"

/-! ### the yacc text parser -/
section Yacc
open GrmVerif.YaccParse

def fmtName (n : List Char) : String := "n" ++ ".".intercalate (n.map (fun c => toString c.toNat))

def fmtEK : EK → String
  | .illegalInteger => "IllegalInteger" | .illegalName => "IllegalName" | .illegalString => "IllegalString"
  | .incompleteRule => "IncompleteRule" | .incompleteComment => "IncompleteComment"
  | .incompleteAction => "IncompleteAction" | .missingColon => "MissingColon"
  | .missingRightArrow => "MissingRightArrow" | .nonEmptyProduction => "NonEmptyProduction"
  | .prematureEnd => "PrematureEnd" | .productionNotTerminated => "ProductionNotTerminated"
  | .unknownDeclaration => "UnknownDeclaration" | .dupPrecedence => "DuplicatePrecedence"
  | .dupAvoidInsert => "DuplicateAvoidInsertDeclaration"
  | .dupImplicitTokens => "DuplicateImplicitTokensDeclaration" | .dupExpect => "DuplicateExpectDeclaration"
  | .dupExpectRR => "DuplicateExpectRRDeclaration" | .dupStart => "DuplicateStartDeclaration"
  | .dupActiontype => "DuplicateActiontypeDeclaration" | .dupEPP => "DuplicateEPP"
  | .reachedEOL => "ReachedEOL" | .invalidString => "InvalidString" | .unknownSymbol => "UnknownSymbol"
  | .header _ => "Header"

def fmtYErr (e : YErr) : String :=
  s!"{fmtEK e.kind} {e.spans.length}" ++ String.join (e.spans.map (fun s => " " ++ fmtSpan s))

def fmtSym (s : Sym) : String := s!"{if s.isTok then "T" else "R"} {fmtName s.name} {fmtSpan s.span}"

def fmtNS (x : List Char × Span) : String := s!"{fmtName x.1} {fmtSpan x.2}"

def fmtList {α : Type} (f : α → String) (l : List α) : String :=
  toString l.length ++ String.join (l.map (fun x => " " ++ f x))

def fmtOpt {α : Type} (f : α → String) : Option α → String
  | none => "-"
  | some x => f x

def fmtAssoc : Assoc → String
  | .left => "0" | .right => "1" | .nonassoc => "2"

def fmtProd (a : Ast) (p : Prod) : String :=
  s!"{(a.rules.findIdx? (fun r => r.1 == p.rule)).getD 999999} {fmtList fmtSym p.syms} {fmtOpt fmtName p.prec} {if p.action then 1 else 0} {fmtSpan p.span}"

def fmtAst (a : Ast) : String :=
  s!"S {fmtOpt fmtNS a.start}" ++
  s!" T {fmtList (fun t => s!"{fmtNS t} {if a.tokenDirs.contains t.1 then 1 else 0}") a.tokens}" ++
  s!" R {fmtList fmtNS a.rules}" ++
  s!" P {fmtList (fmtProd a) a.prods}" ++
  s!" C {fmtList (fun (c : List Char × Nat × Assoc × Span) => s!"{fmtName c.1} {c.2.1} {fmtAssoc c.2.2.1} {fmtSpan c.2.2.2}") a.precs}" ++
  s!" A {fmtOpt (fmtList fmtNS) a.avoidInsert}" ++
  s!" I {fmtOpt (fmtList fmtNS) a.implicitTokens}" ++
  s!" E {fmtList (fun (e : List Char × Span × List Char × Span) => s!"{fmtName e.1} {fmtSpan e.2.1} {fmtName e.2.2.1} {fmtSpan e.2.2.2}") a.epp}" ++
  s!" X {fmtOpt (fun (x : Nat × Span) => s!"{x.1} {fmtSpan x.2}") a.expect}" ++
  s!" Y {fmtOpt (fun (x : Nat × Span) => s!"{x.1} {fmtSpan x.2}") a.expectrr}" ++
  s!" PP {fmtOpt fmtName a.parseParam}" ++
  s!" PG {fmtOpt fmtName a.parseGenerics}" ++
  s!" G {fmtOpt toString a.programs}" ++
  s!" U {fmtList fmtSym a.expectUnused}"

def fmtYacc : Res (List YErr × Ast) (Nat × Ast) → String
  | .ok (_, a) => s!"ok {fmtAst a}"
  | .err (errs, a) => s!"err {fmtList fmtYErr errs} {fmtAst a}"
  | .panic => "panic"
  | .fuelOut => "hang"

def yaccKinds : List Kind := [.grmtools, .eco, .original, .original, .original]

def yaccLines (src : List Char) : String :=
  String.join ((List.range 5).map (fun k =>
    s!"\nMy {k} {fmtYacc (YaccParse.parse src (yaccKinds.getD k .original))}"))

end Yacc

def handle (args : List Nat) : String :=
  match args with
  | cat :: _ :: rest =>
    match takeList rest with
    | none => "bad-request"
    | some (cps, rest) =>
      let src : List Char := cps.map Char.ofNat
      match rest with
      | [] => "bad-request"
      | k :: rest =>
        match takeOutcomes k rest with
        | none => "bad-request"
        | some os =>
          let v := if outcomesOKb src os then "V ok" else "V fail " ++ firstBad src os 0
          s!"M {fmtRes (parse src false)}\nM {fmtRes (parse src true)}\n{v}" ++
            (if cat = 1 then yaccLines src else "")
  | _ => "bad-request"

end GrmVerif.Drive.C12
