import GrmVerif.Model.Lex
import GrmVerif.Lemmas.Lex
import GrmVerif.Drive.Util
/-!
Driver for C09. Two request kinds (naturals only, lists length-prefixed).

Rule = list `nameOpt tokOpt hasTarget tid op spanStart spanEnd state…` (`xOpt`: 0 = none, v+1 = some v;
`op`: 0 replace, 1 push, 2 pop).

* `0 STATES NRULES RULE… N BOUNDS TABLE…` — lex run. `STATES` = flat list `id excl …`; `N` = byte length of
  the input; `BOUNDS` = the character-boundary byte offsets of the input; one `TABLE` list per rule with
  one entry per boundary: 0 = the rule's anchored regex does not match there, `l+1` = it matches `l`
  bytes (tabulated by the harness with its own `regex::Regex`, not by lrlex).
  Reply: `M` (model `lexRun`: RLE stack, left-to-right scan) and `S` (reference `specRun`: plain stack,
  right-to-left choice), both in the format `T id start len` / `E start end state|N` / `P`.
* `1 NRULES RULE… MAP` — id synchronisation; `MAP` = flat list `name id …` with distinct names.
  Reply: `M` from `setRuleIdsSpanned`/`setRuleIds`, `S` from the specification sets (only when rule
  names are distinct, which is the hypothesis of `ids_sync_spec`).
-/
namespace GrmVerif.Drive.C09
open GrmVerif.Lex GrmVerif.Drive

def optOf (x : Nat) : Option Nat := if x = 0 then none else some (x - 1)

def opOf (x : Nat) : Op := if x = 0 then .replace else if x = 1 then .push else .pop

def ruleOf : List Nat → Option Rule
  | nm :: tk :: ht :: tid :: op :: s :: e :: sts =>
    some { name := optOf nm, tokId := optOf tk, states := sts,
           target := if ht = 0 then none else some (tid, opOf op), span := (s, e) }
  | _ => none

def takeRules : Nat → List Nat → Option (List Rule × List Nat)
  | 0, rest => some ([], rest)
  | k + 1, l =>
    match takeList l with
    | none => none
    | some (rl, rest) =>
      match ruleOf rl, takeRules k rest with
      | some r, some (rs, rest') => some (r :: rs, rest')
      | _, _ => none

def takeLists : Nat → List Nat → Option (List (List Nat) × List Nat)
  | 0, rest => some ([], rest)
  | k + 1, l =>
    match takeList l with
    | none => none
    | some (x, rest) =>
      match takeLists k rest with
      | some (xs, rest') => some (x :: xs, rest')
      | none => none

def statesOf : List Nat → List St
  | id :: ex :: rest => ⟨id, ex != 0⟩ :: statesOf rest
  | _ => []

def pairsOf : List Nat → List (Nat × Nat)
  | a :: b :: rest => (a, b) :: pairsOf rest
  | _ => []

def fmtEv : Ev → Option String
  | .tok _ t s l => some s!"T {t} {s} {l}"
  | .skip .. => none
  | .err o st => some s!"E {o} {o} {optNat st}"
  | .panic => some "P"

def fmtEvs (evs : List Ev) : String := " ".intercalate (evs.filterMap fmtEv)

def handleLex (args : List Nat) : String :=
  match takeList args with
  | none => "bad-request"
  | some (sts, rest) =>
    match rest with
    | [] => "bad-request"
    | nr :: rest =>
      match takeRules nr rest with
      | none => "bad-request"
      | some (rules, rest) =>
        match rest with
        | [] => "bad-request"
        | n :: rest =>
          match takeList rest with
          | none => "bad-request"
          | some (bounds, rest) =>
            match takeLists nr rest with
            | none => "bad-request"
            | some (tabs, _) =>
              let cfg : Cfg := ⟨statesOf sts, rules⟩
              -- offset -> index of the boundary + 1
              let idx : Array Nat := Id.run do
                let mut a := Array.replicate (n + 1) 0
                let mut k := 0
                for b in bounds do
                  if b ≤ n then a := a.set! b (k + 1)
                  k := k + 1
                return a
              let tab : Array (Array Nat) := (tabs.map List.toArray).toArray
              let ml : Nat → Nat → Option Nat := fun r off =>
                match idx[off]? with
                | some (k + 1) =>
                  match tab[r]? with
                  | some row => (match row[k]? with | some (l + 1) => some l | _ => none)
                  | none => none
                | _ => none
              let m : String × String := match lexRun cfg ml n with
                | none => ("F", "fuel")
                | some (evs, stk) =>
                  let nskip := (evs.filter (fun (e : Ev) => !e.visible)).length
                  let fin := joinNats ((decode stk).map St.id)
                  let rle := joinNats (stk.map Prod.fst)
                  (fmtEvs evs, s!"skips {nskip} final {fin} rle {rle}")
              let (sevs, sps) := specRun cfg ml n
              s!"M {m.1}\nS {fmtEvs sevs}\nX model {m.2} spec-final {joinNats (sps.map St.id)}"

def leNat3 (a b : Nat × (Nat × Nat)) : Bool :=
  a.1 < b.1 || (a.1 == b.1 && (a.2.1 < b.2.1 || (a.2.1 == b.2.1 && a.2.2 ≤ b.2.2)))

def canonNames (l : List Nat) : String :=
  let s := (l.eraseDups).mergeSort (fun a b => a ≤ b)
  s!"{s.length} {joinNats s}"

def canonSpanned (l : List (Nat × (Nat × Nat))) : String :=
  let s := (l.eraseDups).mergeSort leNat3
  s!"{s.length} {" ".intercalate (s.map (fun x => s!"{x.1},{x.2.1},{x.2.2}"))}"

def fmtOpt {α} (f : α → String) : Option α → String
  | none => "N"
  | some x => f x

def fmtIds (l : List (Option Nat)) : String := " ".intercalate (l.map optNat)

def handleSync (args : List Nat) : String :=
  match args with
  | [] => "bad-request"
  | nr :: rest =>
    match takeRules nr rest with
    | none => "bad-request"
    | some (rules, rest) =>
      match takeList rest with
      | none => "bad-request"
      | some (mp, _) =>
        let map := pairsOf mp
        let o := setRuleIdsSpanned rules map
        let o2 := setRuleIds rules map
        let m := s!"M ids {fmtIds (o.rules.map (·.tokId))} mfl {fmtOpt canonNames o.missingFromLexer} mfp {fmtOpt canonSpanned o.missingFromParser} mfl1 {fmtOpt canonNames o2.2.1} mfp1 {fmtOpt canonNames o2.2.2}"
        let names := ruleNames rules
        if names.eraseDups.length == names.length && (map.map (·.1)).eraseDups.length == map.length then
          let mfl := specMissingFromLexer rules map
          let mfp := specMissingFromParser rules map
          let fl := if mfl.isEmpty then "N" else canonNames mfl
          let fp := if mfp.isEmpty then "N" else canonSpanned mfp
          let fp1 := if mfp.isEmpty then "N" else canonNames (mfp.map (·.1))
          m ++ s!"\nS ids {fmtIds (specIds rules map)} mfl {fl} mfp {fp} mfl1 {fl} mfp1 {fp1}"
        else
          m ++ "\nX duplicate rule names: outside the hypothesis of ids_sync_spec, model only"

def handle (args : List Nat) : String :=
  match args with
  | 0 :: rest => handleLex rest
  | 1 :: rest => handleSync rest
  | _ => "bad-request"

end GrmVerif.Drive.C09
